"""C16 - system alignment is rigid and exact; scaling is uniform (decidable fragment, DESIGN.md section C16).

All contracts run in float mode R (machine floats treated as mathematical reals) on the numpy model of
pyvc/numpy_model.py (float arrays with identity: `a *= s` mutates, `a * s` / np.array(x) make new arrays; numpy scalars;
np.dot / np.mean / np.linalg.norm / np.sqrt / np.ravel / np.concatenate; scipy's Rotation only for the two half turns the
aligner uses - where a contract needs the matrix of a symbolic rotation vector, Rotation is replaced by a stub).

Covered
  * Pose.scale, LighthouseSystemScaler._scale_system, scale_fixed_point, scale_diagonals: one factor for every base
    station and Crazyflie pose, returned as third result; every translation multiplied by it, every rotation unchanged;
    the factor makes the reference distance (|factor * actual| == |expected|) resp. the estimated sensor diagonal
    (factor * estimated == expected) correct; FRAME: neither input container, nor any input pose, nor the numpy arrays
    inside the input poses, nor `expected` / `actual` are modified (this is what fails for an in-place scale through
    the shallow copies).  Histories: the same system scaled twice (independent answers); the answer of one scaling
    scaled again (factors multiply, the intermediate system is not modified although its poses share their rotation
    arrays with the input); the reference pose being one of the poses that are scaled (it ends up at the expected
    distance).  scale_diagonals also with the REAL _calculate_mean_diagonal (only the ray geometry stubbed): the
    diagonals are measured in the system as it was given, each base-station pose looked up by the id the sample reports.
  * LighthouseSystemScaler._calculate_mean_diagonal: the estimate is the mean over all samples and base stations of
    the two sensor diagonals (sensors 0-3 and 1-2) seen by the base station of that id from the Crazyflie pose of
    that sample (calc_intersection_distance under a stub); also for samples that see different subsets of the base
    stations, in another order than the system's dictionary, or nothing at all (`by-id.*`); inputs not modified.
  * calc_intersection_point: the point returned IS the intersection of the ray (through the base-station position, along
    bs.R . cart) with the deck plane (through the Crazyflie position, normal cf.R . ez); calc_intersection_distance is the
    distance between the intersections of the two rays given (real body, nothing stubbed), symmetric in the rays.
  * calc_intersection_point: the ray/deck intersection is homogeneous of degree one in
    the translations (scaling base station and Crazyflie positions by s scales the intersection point by s), which is
    what makes "factor = expected / estimated" the factor that corrects the diagonal.
  * LhDeck4SensorPositions: diagonal_distance is the distance between sensors 0-3 and between sensors 1-2 of
    `positions` (the pairs _calculate_mean_diagonal measures), within 1e-12 m^2 on the squares.
  * LighthouseSystemAligner.align (with _find_transformation under a stub returning an arbitrary pose): ONE
    transformation - the one that is returned - is applied to every base station: out.R == T.R . in.R and
    out.t == T.R . in.t + T.t for every id, same id set, inputs not modified, _find_transformation consulted once
    with the caller's samples.  Histories / second uses: two alignments in a row (nothing is remembered from the first,
    the first answer is not touched); samples given as numpy arrays (the caller's arrays are not written).
  * LighthouseSystemAligner._calc_residual (what "exact" means for the solver): the sum of squares of the residual is
    |T(origin)|^2 + sum_x (T(x)_y^2 + T(x)_z^2) + sum_p T(p)_z^2 for the pose T of the parameter vector - zero iff T
    maps the origin sample to (0,0,0), the x-axis samples onto the X axis and the plane samples into Z = 0.  Stated on
    the objective, not on the order of the residual entries.  Repeated evaluation on array samples writes nothing.
  * LighthouseSystemAligner._find_transformation / _Pose_from_params / Pose.from_rot_vec (scipy.optimize.least_squares
    under a stub that evaluates the function it is given - with the arguments it is given - at an arbitrary answer x and
    returns x): the residual the solver sees for its answer is the alignment error of the RETURNED pose on the CALLER's
    samples, and the search starts from the zero parameter vector.  Hence: solver converged (residual 0) => the raw
    transformation is exact; with _de_flip_transformation.* (S . raw keeps origin / X axis / plane) and
    align.one_transformation.*: align is exact.  What remains outside is only the convergence of the external solver
    (sampled: align.end-to-end.sampled).
  * LighthouseSystemAligner._de_flip_transformation: the returned transformation is S . raw with S a diagonal sign
    matrix of determinant one (identity / half turn about Z / half turn about X / both) applied AFTER the raw
    transformation (in the aligned frame), chosen so that the mean x-axis sample lands at X >= 0 and the first base
    station at Z >= 0; hence what the raw solution maps to the origin / the X axis / the plane Z = 0 stays there
    (mirror-flipped answers are corrected without moving the origin).  Stated for an arbitrary probe point.  If the
    raw rotation matrix is orthonormal so is the result's, and the determinant is unchanged (proper stays proper).
  * Pose.rotate_translate_pose (rigidity of ONE transformation applied to two poses): the squared distance between
    the two positions changes by exactly d^T (T.R^T T.R - I) d and the relative orientation a.R^T b.R by exactly
    a.R^T (T.R^T T.R - I) b.R - polynomial identities; both vanish when T.R is orthonormal.  Together with the two
    aligner contracts: if the least-squares answer is a proper rigid transformation, distances and relative
    orientations between base stations are preserved by `align`.
  * Pose.from_rot_vec / Pose(): rotation = scipy's matrix for that rotation vector (stub), translation as given,
    defaults identity / origin; a pose owns its arrays (scaling one pose changes neither the constructor arguments nor
    the defaults of a pose created later).

Not covered (and why)
  * that scipy.optimize.least_squares (from the zero start, at most 100 evaluations) converges to residual zero for
    misalignments below 30 degrees: numerical convergence of an external optimiser, not a contract (DESIGN.md: N/A);
    sampled natively by align.end-to-end.sampled (BOUNDED ONLY, never counted as proved);
  * that the matrix scipy's Rotation.from_rotvec(v).as_matrix() returns is orthonormal with determinant one: contract of
    scipy (external); the implication "orthonormal => distance preserved" as ONE solver goal is not decided by z3 (cvc5
    needs 25 s, above the budget), which is why rigidity is stated through the exact defect term (T.R^T T.R - I) instead;
  * LighthouseBsVector.cart (trigonometry of the sweep angles, another file) - the ray direction is an arbitrary vector here;
  * scale_diagonals with nothing stubbed ("the diagonals measured again in the scaled system have the expected mean"): follows
    from calc_intersection_point.homogeneous + calc_intersection_distance + _calculate_mean_diagonal.* + scale_diagonals.*, but
    as solver goals about one run (square roots of rational functions) z3 and cvc5 did not decide it within twenty minutes;
  * float rounding (mode R), numpy broadcasting beyond scalar/equal shapes, integer arrays, non-finite values, a zero
    reference distance / zero estimated diagonal / a ray parallel to the deck (numpy yields inf/nan with a
    RuntimeWarning, no exception; excluded by pre-conditions);
  * empty sample lists / an empty base-station dictionary for the aligner (the property quantifies over one or more);
  * Pose.from_quat / rot_vec / rot_quat / matrix_vec / inv_rotate_translate / inv_rotate_translate_pose: not used by the
    aligner or the scaler (they serve the geometry solver and the initial estimator); the first three are thin wrappers
    around scipy conversions.
  * the numbers of base stations / samples are enumerated (quick: up to 3 base stations, 3 samples per kind; thorough: up
    to 16 base stations, 10 Crazyflie poses, 8 x-axis samples): the code iterates dictionaries / lists with comprehensions
    and map(), for which the engine has no invariant rule (loop invariants exist for `while` / `for .. in range`).

Stubs (c.patch, the same stub object runs natively): _find_transformation (returns an arbitrary pose),
_Pose_from_params (returns an arbitrary pose), _calculate_mean_diagonal (returns an arbitrary non-zero numpy scalar),
calc_intersection_distance (returns arbitrary numpy scalars), scipy.optimize.least_squares (evaluates the residual function at
an arbitrary answer and returns it), scipy Rotation (arbitrary matrix; for _find_transformation an arbitrary injective function
of the rotation vector) - each only in the contracts of their callers; the repository functions among them have their own
contracts below.
Base-station ids are concrete keys (0, 3, 1, 7, 2, 15 ...: the code only copies / looks them up).  Aligner inputs are bounded
by 10 in absolute value (metres / matrix entries) so that native replays stay inside the 1e-9 tolerance of those ensures.
"""
from pyvc.api import contract

LT = 'cflib.localization.lighthouse_types'
SC = 'cflib.localization.lighthouse_system_scaler'
AL = 'cflib.localization.lighthouse_system_aligner'
POSE = LT + ':Pose'
SCALER = SC + ':LighthouseSystemScaler'
ALIGNER = AL + ':LighthouseSystemAligner'

BS_IDS = (0, 3, 1, 7, 2, 15, 4, 9, 5, 12, 6, 8, 10, 11, 13, 14)     # base-station ids are opaque dictionary keys for the code under contract

CL_SCALE = ('Scaling multiplies every translation by the single factor that makes the reference distance or the sensor '
            'diagonal correct and leaves rotations unchanged; it does not modify its inputs')
CL_ALIGN = ('Aligning applies one proper rigid transformation to all base stations ... maps the origin sample to (0,0,0), '
            'x-axis samples onto the positive X axis and plane samples into Z=0 with the base stations above the floor '
            '(mirror-flipped answers are corrected); it does not modify its inputs')


# ------------------------------------------------------------------------- shared builders

def helpers(c):
    c.let('LT', c.func(LT))                 # the module: LT.np is numpy (native) / the numpy model (symbolic)
    # M . v + t for a 3x3 nested sequence M and 3-sequences v, t; M . N for two 3x3 nested sequences
    c.snapshot('apply', 'lambda M, t, v: [M[r][0] * v[0] + M[r][1] * v[1] + M[r][2] * v[2] + t[r] for r in range(3)]')
    c.snapshot('matmul', 'lambda M, N: [[M[r][0] * N[0][k] + M[r][1] * N[1][k] + M[r][2] * N[2][k] for k in range(3)] '
                         'for r in range(3)]')
    c.snapshot('near', 'lambda a, b: all(abs(x - y) <= 1e-9 for x, y in zip(a, b))')
    c.snapshot('near2', 'lambda A, B: all(near(x, y) for x, y in zip(A, B))')
    c.snapshot('sumsq', 'lambda v: v[0] * v[0] + v[1] * v[1] + v[2] * v[2]')
    # M^T . M == I, and the determinant, of a 3x3 nested sequence
    c.snapshot('orthonormal', 'lambda M: all(M[0][i] * M[0][j] + M[1][i] * M[1][j] + M[2][i] * M[2][j] == (1 if i == j else 0) '
                              'for i in range(3) for j in range(i, 3))')
    c.snapshot('det', 'lambda M: M[0][0] * (M[1][1] * M[2][2] - M[1][2] * M[2][1]) - M[0][1] * (M[1][0] * M[2][2] - M[1][2] * M[2][0]) '
                      '+ M[0][2] * (M[1][0] * M[2][1] - M[1][1] * M[2][0])')


def module_names(c, ref):
    """the global names of a repository module (both back ends)"""
    m = c.func(ref)
    return set(m.attrs) if hasattr(m, 'attrs') else set(vars(m))


def mat(c, name):
    """a symbolic 3x3 matrix as a tuple of three row tuples"""
    return tuple(c.floats('%s_r%d' % (name, i), 3, kind='tuple') for i in range(3))


def pose(c, name):
    """a Pose built by its real constructor from a symbolic matrix and translation; registers name, name_R, name_t"""
    R = mat(c, name + '_R')
    t = c.floats(name + '_t', 3, kind='tuple')
    p = c.new(POSE, R, t)
    c.let(name, p)
    c.let(name + '_R', R)
    return p


def system(c, n_bs, n_cf):
    bs = [pose(c, 'bs%d' % i) for i in range(n_bs)]
    cf = [pose(c, 'cf%d' % i) for i in range(n_cf)]
    ids = BS_IDS[:n_bs]
    c.let('IDS', ids)
    c.let('BS', tuple(bs))
    c.let('CF', tuple(cf))
    c.let('bs_poses', c.dict(list(zip(ids, bs))))
    c.let('cf_poses', c.list(cf))
    return c.get('bs_poses'), c.get('cf_poses')


def remember(c, names):
    """ghost copy of the state of the poses `names` before the call: the array OBJECTS and their contents"""
    for n in names:
        c.snapshot('old_' + n, '(%s.rot_matrix, %s.translation, %s.rot_matrix.tolist(), %s.translation.tolist(), '
                               'sorted(%s.__dict__))' % (n, n, n, n, n))


def check_pose_frame(c, names):
    for n in names:
        c.ensure(n + '-not-modified',
                 '%s.rot_matrix is old_%s[0] and %s.translation is old_%s[1] and %s.rot_matrix.tolist() == old_%s[2] '
                 'and %s.translation.tolist() == old_%s[3] and old_%s[1].tolist() == old_%s[3] '
                 'and sorted(%s.__dict__) == old_%s[4]' % ((n, n) * 6))


def check_system_frame(c, n_bs, n_cf):
    c.ensure('input-containers-not-modified', 'list(bs_poses.items()) == list(zip(IDS, BS)) and list(cf_poses) == list(CF)')
    check_pose_frame(c, ['bs%d' % i for i in range(n_bs)] + ['cf%d' % i for i in range(n_cf)])


def check_scaled(c, n_bs, n_cf, factor):
    """result == (dict, list, factor): every pose scaled by `factor`, rotations unchanged"""
    c.ensure('result-shape', 'isinstance(result, tuple) and len(result) == 3 and isinstance(result[0], dict) and '
                             'isinstance(result[1], list)')
    c.ensure('same-base-stations', 'len(result[0]) == len(IDS) and all(k in result[0] for k in IDS)')
    c.ensure('same-number-of-cf-poses', 'len(result[1]) == len(CF)')
    for i in range(n_bs):
        c.snapshot('out', 'result[0][IDS[%d]]' % i)
        c.ensure('bs%d-translation-times-factor' % i, 'out.translation.tolist() == [%s * x for x in bs%d_t]' % (factor, i))
        c.ensure('bs%d-rotation-unchanged' % i, 'out.rot_matrix.tolist() == [list(r) for r in bs%d_R]' % i)
    for i in range(n_cf):
        c.snapshot('out', 'result[1][%d]' % i)
        c.ensure('cf%d-translation-times-factor' % i, 'out.translation.tolist() == [%s * x for x in cf%d_t]' % (factor, i))
        c.ensure('cf%d-rotation-unchanged' % i, 'out.rot_matrix.tolist() == [list(r) for r in cf%d_R]' % i)


SIZES = ((1, 0), (1, 1), (2, 1), (2, 2), (3, 2))
SIZES_THOROUGH = ((4, 4), (8, 5), (16, 10))        # thorough tier only (16 = the most base stations a lighthouse system has)
BOUND = ('%d base station(s) and %d Crazyflie pose(s) (sizes (1,0) (1,1) (2,1) (2,2) (3,2) enumerated, (4,4) (8,5) (16,10) in the thorough '
         'tier); matrices and vectors symbolic')


# ------------------------------------------------------------------------- Pose.scale

@contract('C16', 'Pose.scale', [POSE + '.scale', POSE + '.__init__'], float_mode='R',
          clause='scaling multiplies the translation by the factor and leaves the rotation unchanged; arrays handed out '
                 'before (what the shallow copies of _scale_system share) are not written')
def pose_scale(c):
    helpers(c)
    p = pose(c, 'p')
    c.float('s')
    c.snapshot('R_obj', 'p.rot_matrix')
    c.snapshot('t_obj', 'p.translation')
    c.call((p, 'scale'), c.get('s'))
    c.ensure('no-exception', 'raised is None and result is None')
    c.ensure('translation-scaled', 'p.translation.tolist() == [s * x for x in p_t]')
    c.ensure('rotation-same-object', 'p.rot_matrix is R_obj')
    c.ensure('rotation-unchanged', 'p.rot_matrix.tolist() == [list(r) for r in p_R]')
    c.ensure('old-translation-array-not-mutated', 't_obj.tolist() == list(p_t)')
    c.ensure('constructor-arguments-not-aliased', 'p.translation is not p_t and p.rot_matrix is not p_R')


@contract('C16', 'Pose.from_rot_vec', [POSE + '.from_rot_vec', POSE + '.__init__', POSE + '.scale'], float_mode='R',
          clause='the transformation built from a rotation vector and a translation (what the aligner builds from the solver\'s '
                 'parameters and what the de-flip half turns are): its rotation is the matrix scipy gives for THAT rotation vector, its '
                 'translation is THAT translation; it owns its arrays (scaling it writes neither the arguments nor a later pose); '
                 'scipy Rotation.from_rotvec under a stub returning an arbitrary matrix')
def pose_from_rot_vec(c):
    helpers(c)
    c.let('M', mat(c, 'M'))
    c.floats('rv', 3, kind='tuple'), c.floats('tv', 3, kind='tuple')
    c.float('s')
    c.snapshot('M_arr', 'LT.np.array(M)')
    c.snapshot('rv_arr', 'LT.np.array(rv)')
    c.snapshot('tv_arr', 'LT.np.array(tv)')
    rotation = c.ext('rotation', returns={'as_matrix': c.get('M_arr')})
    c.patch(LT + ':Rotation', c.ext('Rotation', returns={'from_rotvec': lambda *_a: rotation}))
    c.call((c.cls(POSE), 'from_rot_vec'), R_vec=c.get('rv_arr'), t_vec=c.get('tv_arr'))
    c.ensure('no-exception', 'raised is None and typename(result) == "Pose"')
    c.ensure('rotation-of-that-rotation-vector', 'len(sent("Rotation.from_rotvec")) == 1 and sent("Rotation.from_rotvec")[0][1][0] is rv_arr '
                                                 'and result.rot_matrix.tolist() == [list(r) for r in M]')
    c.ensure('translation-given', 'result.translation.tolist() == list(tv)')
    c.let('p', c.get('result'))
    c.call((c.get('p'), 'scale'), c.get('s'))
    c.ensure('scaled', 'raised is None and p.translation.tolist() == [s * x for x in tv] and p.rot_matrix.tolist() == [list(r) for r in M]')
    c.ensure('arguments-not-written', 'tv_arr.tolist() == list(tv) and rv_arr.tolist() == list(rv) and M_arr.tolist() == [list(r) for r in M]')
    c.call((c.cls(POSE), 'from_rot_vec'), R_vec=c.get('rv_arr'))
    c.ensure('default-translation-is-the-origin-also-after-another-pose-was-scaled',
             'raised is None and result.translation.tolist() == [0.0, 0.0, 0.0] and result.rot_matrix.tolist() == [list(r) for r in M]')
    c.call(c.cls(POSE))
    c.ensure('default-pose-is-the-identity', 'raised is None and result.translation.tolist() == [0.0, 0.0, 0.0] and '
                                             'result.rot_matrix.tolist() == [[1.0, 0.0, 0.0], [0.0, 1.0, 0.0], [0.0, 0.0, 1.0]]')
    c.let('q', c.get('result'))
    c.call((c.get('q'), 'scale'), c.get('s'))
    c.call(c.cls(POSE))
    c.ensure('default-pose-is-the-identity-after-a-default-pose-was-scaled',
             'raised is None and result.translation.tolist() == [0.0, 0.0, 0.0] and '
             'result.rot_matrix.tolist() == [[1.0, 0.0, 0.0], [0.0, 1.0, 0.0], [0.0, 0.0, 1.0]]')


# ------------------------------------------------------------------------- _scale_system

def _scale_system(n_bs, n_cf, **opts):
    @contract('C16', '_scale_system.bs%d.cf%d' % (n_bs, n_cf), [SCALER + '._scale_system', POSE + '.scale'], float_mode='R',
              clause=CL_SCALE + ' [the given factor is applied to every pose and returned]', bounded=BOUND % (n_bs, n_cf), **opts)
    def k(c):
        helpers(c)
        bs_poses, cf_poses = system(c, n_bs, n_cf)
        c.float('factor')
        names = ['bs%d' % i for i in range(n_bs)] + ['cf%d' % i for i in range(n_cf)]
        remember(c, names)
        c.call((c.cls(SCALER), '_scale_system'), bs_poses, cf_poses, c.get('factor'))
        c.ensure('no-exception', 'raised is None')
        c.ensure('factor-returned', 'result[2] == factor')
        check_scaled(c, n_bs, n_cf, 'factor')
        check_system_frame(c, n_bs, n_cf)
    return k


for _s in SIZES:
    _scale_system(*_s)
for _s in SIZES_THOROUGH:
    _scale_system(*_s, thorough_only=True)


@contract('C16', '_scale_system.twice', [SCALER + '._scale_system', POSE + '.scale'], float_mode='R',
          clause=CL_SCALE + ' [history: the same input system scaled twice gives two independent answers]',
          bounded='two base stations and one Crazyflie pose, two consecutive calls on the same inputs')
def scale_twice(c):
    helpers(c)
    bs_poses, cf_poses = system(c, 2, 1)
    c.float('f1'), c.float('f2')
    c.call((c.cls(SCALER), '_scale_system'), bs_poses, cf_poses, c.get('f1'))
    c.let('first', c.get('result'))
    c.call((c.cls(SCALER), '_scale_system'), bs_poses, cf_poses, c.get('f2'))
    c.ensure('no-exception', 'raised is None')
    check_scaled(c, 2, 1, 'f2')
    c.ensure('first-answer-still-valid', 'first[0][IDS[0]].translation.tolist() == [f1 * x for x in bs0_t] and '
                                         'first[0][IDS[1]].translation.tolist() == [f1 * x for x in bs1_t] and '
                                         'first[1][0].translation.tolist() == [f1 * x for x in cf0_t]')


@contract('C16', '_scale_system.chained', [SCALER + '._scale_system', POSE + '.scale'], float_mode='R',
          clause=CL_SCALE + ' [history: the answer of one scaling is scaled again (its poses share their rotation arrays with the '
                            'first input): the factors multiply, the intermediate system is not modified]',
          bounded='two base stations and one Crazyflie pose, the second call on the results of the first')
def scale_chained(c):
    helpers(c)
    bs_poses, cf_poses = system(c, 2, 1)
    c.float('f1'), c.float('f2')
    remember(c, ['bs0', 'bs1', 'cf0'])
    c.call((c.cls(SCALER), '_scale_system'), bs_poses, cf_poses, c.get('f1'))
    c.ensure('no-exception-first', 'raised is None')
    c.let('first', c.get('result'))
    c.snapshot('m0', 'first[0][IDS[0]]'), c.snapshot('m1', 'first[0][IDS[1]]'), c.snapshot('m2', 'first[1][0]')
    c.snapshot('mid_bs_items', 'list(first[0].items())')
    c.snapshot('mid_cf_items', 'list(first[1])')
    remember(c, ['m0', 'm1', 'm2'])
    c.call((c.cls(SCALER), '_scale_system'), c.get('first')[0], c.get('first')[1], c.get('f2'))
    c.ensure('no-exception', 'raised is None and result[2] == f2')
    c.ensure('factors-multiply', 'result[0][IDS[0]].translation.tolist() == [f2 * (f1 * x) for x in bs0_t] and '
                                 'result[0][IDS[1]].translation.tolist() == [f2 * (f1 * x) for x in bs1_t] and '
                                 'result[1][0].translation.tolist() == [f2 * (f1 * x) for x in cf0_t]')
    c.ensure('rotations-unchanged', 'result[0][IDS[0]].rot_matrix.tolist() == [list(r) for r in bs0_R] and '
                                    'result[0][IDS[1]].rot_matrix.tolist() == [list(r) for r in bs1_R] and '
                                    'result[1][0].rot_matrix.tolist() == [list(r) for r in cf0_R]')
    c.ensure('intermediate-containers-not-modified', 'list(first[0].items()) == mid_bs_items and list(first[1]) == mid_cf_items')
    check_pose_frame(c, ['m0', 'm1', 'm2'])
    check_system_frame(c, 2, 1)


# ------------------------------------------------------------------------- scale_fixed_point

def _fixed_point(n_bs, n_cf, kind, **opts):
    @contract('C16', 'scale_fixed_point.bs%d.cf%d.%s' % (n_bs, n_cf, kind),
              [SCALER + '.scale_fixed_point', SCALER + '._scale_system', POSE + '.scale'], float_mode='R',
              clause=CL_SCALE + ' [fixed point: |factor * actual position| == |expected position|, factor >= 0; reference '
                                'position given as %s]' % kind,
              bounded=BOUND % (n_bs, n_cf), **opts)
    def k(c):
        helpers(c)
        bs_poses, cf_poses = system(c, n_bs, n_cf)
        actual = pose(c, 'actual')
        exp = c.floats('expected', 3, kind='list' if kind == 'list' else 'tuple')
        if kind == 'ndarray':
            exp = c.snapshot('expected_arr', 'LT.np.array(expected)')
        else:
            c.let('expected_arr', exp)
        c.snapshot('expected_vals', 'tuple(expected)')
        c.require('sumsq(actual_t) > 0')        # a reference point at the origin of the estimated system defines no scale
        names = ['bs%d' % i for i in range(n_bs)] + ['cf%d' % i for i in range(n_cf)] + ['actual']
        remember(c, names)
        c.call((c.cls(SCALER), 'scale_fixed_point'), bs_poses, cf_poses, exp, actual)
        c.ensure('no-exception', 'raised is None')
        c.snapshot('f', 'result[2]')
        c.ensure('factor-non-negative', 'f >= 0')
        c.ensure('factor-makes-reference-distance-correct', 'f * f * sumsq(actual_t) == sumsq(expected)')
        check_scaled(c, n_bs, n_cf, 'f')
        check_system_frame(c, n_bs, n_cf)
        check_pose_frame(c, ['actual'])
        c.ensure('expected-not-modified', 'list(expected_arr) == list(expected_vals) and list(expected) == list(expected_vals)')
    return k


for _s in SIZES:
    _fixed_point(_s[0], _s[1], 'tuple')
_fixed_point(2, 1, 'list')
_fixed_point(2, 1, 'ndarray')
for _s in SIZES_THOROUGH:
    _fixed_point(_s[0], _s[1], 'tuple', thorough_only=True)
_fixed_point(8, 5, 'ndarray', thorough_only=True)


@contract('C16', 'scale_fixed_point.reference-is-a-sample',
          [SCALER + '.scale_fixed_point', SCALER + '._scale_system', POSE + '.scale'], float_mode='R',
          clause=CL_SCALE + ' [fixed point, the usual call: the reference pose is one of the Crazyflie poses being scaled (the same '
                            'object): in the answer that pose is at the expected distance from the origin, and the reference pose '
                            'handed in still is where it was]',
          bounded='two base stations and two Crazyflie poses, the second one is the reference')
def fixed_point_reference_is_a_sample(c):
    helpers(c)
    bs_poses, cf_poses = system(c, 2, 2)
    c.floats('expected', 3, kind='tuple')
    c.require('sumsq(cf1_t) > 0')
    names = ['bs0', 'bs1', 'cf0', 'cf1']
    remember(c, names)
    c.call((c.cls(SCALER), 'scale_fixed_point'), bs_poses, cf_poses, c.get('expected'), c.get('cf1'))
    c.ensure('no-exception', 'raised is None')
    c.snapshot('f', 'result[2]')
    c.ensure('reference-sample-at-the-expected-distance', 'result[1][1] is not cf1 and abs(sumsq(result[1][1].translation.tolist()) - sumsq(expected)) <= 1e-9 * (1 + sumsq(expected))')
    check_scaled(c, 2, 2, 'f')
    check_system_frame(c, 2, 2)


# ------------------------------------------------------------------------- scale_diagonals

def _diagonals(n_bs, n_cf, **opts):
    @contract('C16', 'scale_diagonals.bs%d.cf%d' % (n_bs, n_cf),
              [SCALER + '.scale_diagonals', SCALER + '._scale_system', POSE + '.scale'], float_mode='R',
              clause=CL_SCALE + ' [sensor diagonal: factor * estimated mean diagonal == expected diagonal; the estimate is '
                                'taken once, from the system being scaled (own contract: _calculate_mean_diagonal.*)]',
              bounded=BOUND % (n_bs, n_cf), **opts)
    def k(c):
        helpers(c)
        bs_poses, cf_poses = system(c, n_bs, n_cf)
        c.float('estimated'), c.float('expected_diagonal')
        c.require('estimated != 0')
        est = c.snapshot('est', 'LT.np.float64(estimated)')         # np.mean returns a numpy scalar
        samples = c.list([c.ext('sample%d' % i) for i in range(n_cf)])
        c.let('samples', samples)
        c.patch(SCALER + '._calculate_mean_diagonal', c.ext('mean_diag', returns={'()': est}))
        names = ['bs%d' % i for i in range(n_bs)] + ['cf%d' % i for i in range(n_cf)]
        remember(c, names)
        c.call((c.cls(SCALER), 'scale_diagonals'), bs_poses, cf_poses, samples, c.get('expected_diagonal'))
        c.ensure('no-exception', 'raised is None')
        c.ensure('estimate-taken-once-from-the-inputs',
                 'len(trace) == 1 and trace[0][0] == "mean_diag" and len(trace[0][1]) == 3 and trace[0][1][0] is bs_poses '
                 'and trace[0][1][1] is cf_poses and trace[0][1][2] is samples and len(trace[0][2]) == 0')
        c.snapshot('f', 'result[2]')
        c.ensure('factor-makes-diagonal-correct', 'f * estimated == expected_diagonal')
        check_scaled(c, n_bs, n_cf, 'f')
        check_system_frame(c, n_bs, n_cf)
    return k


for _s in SIZES:
    _diagonals(*_s)
for _s in SIZES_THOROUGH:
    _diagonals(*_s, thorough_only=True)


@contract('C16', 'scale_diagonals.estimate-from-the-unscaled-system',
          [SCALER + '.scale_diagonals', SCALER + '._calculate_mean_diagonal', SCALER + '._scale_system', POSE + '.scale'], float_mode='R',
          clause=CL_SCALE + ' [sensor diagonal, with the real estimate: factor * (mean of the diagonals measured in the system as it was '
                            'GIVEN, base-station pose looked up by the id the sample reports) == expected diagonal; '
                            'calc_intersection_distance under a stub returning arbitrary distances]',
          bounded='three base stations, two samples seeing base stations (1,) and (3, 0)')
def diagonals_real_estimate(c):
    helpers(c)
    vis = [(2,), (1, 0)]
    bs_poses, cf_poses = system(c, 3, 2)
    d = c.floats('d', 6, kind='tuple')
    c.let('dists', tuple(d))
    c.float('expected_diagonal')
    c.require('dists[0] + dists[1] + dists[2] + dists[3] + dists[4] + dists[5] != 0')
    vec = [[tuple(c.ext('v_%d_%d_%d' % (s, b, j)) for j in range(4)) for b in vis[s]] for s in range(2)]
    samples = c.list([c.new(LT + ':LhCfPoseSample', 0.0, c.dict([(BS_IDS[b], vec[s][j]) for j, b in enumerate(vis[s])])) for s in range(2)])
    c.patch(SCALER + '.calc_intersection_distance',
            c.ext('dist', returns={'()': seq_returns([c.snapshot('_d', 'LT.np.float64(dists[%d])' % i) for i in range(6)])}))
    names = ['bs%d' % i for i in range(3)] + ['cf%d' % i for i in range(2)]
    remember(c, names)
    c.call((c.cls(SCALER), 'scale_diagonals'), bs_poses, cf_poses, samples, c.get('expected_diagonal'))
    c.ensure('no-exception', 'raised is None')
    c.snapshot('measured', '[(e[1][2], e[1][3]) for e in sent("dist")]')
    c.ensure('diagonals-measured-in-the-given-system',
             'len(measured) == 6 and all(measured[i][0] is BS[b] and measured[i][1] is CF[s] for i, b, s in '
             '((0, 2, 0), (1, 2, 0), (2, 1, 1), (3, 1, 1), (4, 0, 1), (5, 0, 1)))')
    c.snapshot('f', 'result[2]')
    c.ensure('factor-makes-mean-diagonal-correct', 'abs(f * (dists[0] + dists[1] + dists[2] + dists[3] + dists[4] + dists[5]) - 6 * expected_diagonal) <= 1e-9 * (1 + abs(expected_diagonal))')
    check_scaled(c, 3, 2, 'f')
    check_system_frame(c, 3, 2)


# ------------------------------------------------------------------------- _calculate_mean_diagonal

def seq_returns(values):
    """stub result: the values in turn; a call too many (which the contracts report by the number of calls) gets the last one again"""
    values = list(values)
    st = {'i': 0}

    def nxt(*_a):
        v = values[min(st['i'], len(values) - 1)]
        st['i'] += 1
        return v
    return nxt


def _mean_diagonal(name, n_bs, vis, **opts):
    """vis: for every sample the tuple of base stations it sees (indexes into BS_IDS / BS, in the order of the sample's
    dictionary); the system has n_bs base stations and one Crazyflie pose per sample"""
    n_cf = len(vis)
    n = 2 * sum(len(v) for v in vis)

    @contract('C16', '_calculate_mean_diagonal.' + name, [SCALER + '._calculate_mean_diagonal'], float_mode='R',
              clause='the estimated sensor diagonal is the mean, over all samples and the base stations seen in them, of the '
                     'distances between the deck intersections of the rays to sensors 0 and 3 and to sensors 1 and 2, for '
                     'the base-station pose of that id and the Crazyflie pose of that sample',
              bounded='%d base station(s), %d sample(s) seeing the base stations %s' % (
                  n_bs, n_cf, ' / '.join(str(tuple(BS_IDS[b] for b in v)) for v in vis)), **opts)
    def k(c):
        helpers(c)
        bs_poses, cf_poses = system(c, n_bs, n_cf)
        d = c.floats('d', n, kind='tuple')
        c.let('dists', tuple(d))
        vec = [[tuple(c.ext('v_%d_%d_%d' % (s, b, j)) for j in range(4)) for b in vis[s]] for s in range(n_cf)]
        c.let('VEC', tuple(tuple(v) for v in vec))
        samples = [c.new(LT + ':LhCfPoseSample', 0.0, c.dict([(BS_IDS[b], vec[s][j]) for j, b in enumerate(vis[s])])) for s in range(n_cf)]
        c.patch(SCALER + '.calc_intersection_distance',
                c.ext('dist', returns={'()': seq_returns([c.snapshot('_d', 'LT.np.float64(dists[%d])' % i) for i in range(n)])}))
        names = ['bs%d' % i for i in range(n_bs)] + ['cf%d' % i for i in range(n_cf)]
        remember(c, names)
        c.call((c.cls(SCALER), '_calculate_mean_diagonal'), bs_poses, cf_poses, c.list(samples))
        c.ensure('no-exception', 'raised is None')
        c.ensure('one-distance-per-diagonal', 'len(trace) == %d and all(e[0] == "dist" and len(e[2]) == 0 for e in trace)' % n)
        i = 0
        for s in range(n_cf):
            for j, b in enumerate(vis[s]):
                for (p, q) in ((0, 3), (1, 2)):
                    c.ensure('call%d-sample%d-bs%d-sensors-%d-%d' % (i, s, b, p, q),
                             'len(trace[%d][1]) == 4 and trace[%d][1][0] is VEC[%d][%d][%d] and trace[%d][1][1] is VEC[%d][%d][%d] '
                             'and trace[%d][1][2] is BS[%d] and trace[%d][1][3] is CF[%d]' % (i, i, s, j, p, i, s, j, q, i, b, i, s))
                    i += 1
        c.ensure('mean-of-the-distances', 'result * %d == %s' % (n, ' + '.join('dists[%d]' % j for j in range(n))))
        check_system_frame(c, n_bs, n_cf)
    return k


for _s in ((1, 1), (1, 2), (2, 1), (2, 2)):           # (samples, base stations): every sample sees every base station, in dictionary order
    _mean_diagonal('cf%d.bs%d' % _s, _s[1], [tuple(range(_s[1]))] * _s[0])
# the pose is looked up by the ID a sample reports: samples seeing different subsets, in another order than the system's dictionary,
# and a sample that sees nothing (contributes nothing)
_mean_diagonal('by-id.subset', 3, [(2,), (1, 0)])
_mean_diagonal('by-id.reversed', 3, [(2, 1, 0), (), (1,)])
_mean_diagonal('by-id.large', 6, [(5, 0, 3), (2,), (4, 1, 0, 5), (), (3, 2, 1)], thorough_only=True)
_mean_diagonal('cf4.bs4', 4, [tuple(range(4))] * 4, thorough_only=True)


@contract('C16', '_calculate_mean_diagonal.default-samples', [SCALER + '._calculate_mean_diagonal', LT + ':LhCfPoseSample.__init__'],
          float_mode='R',
          clause='the estimated sensor diagonal is the mean over the base stations seen IN THAT SAMPLE: samples created without angles '
                 'and filled in afterwards do not share what they see (a sample that was never filled in contributes nothing)',
          bounded='two base stations, two samples: the first sees base station 3 (filled in after construction), the second nothing')
def mean_diagonal_default_samples(c):
    helpers(c)
    bs_poses, cf_poses = system(c, 2, 2)
    c.floats('dists', 2, kind='tuple')
    vec = tuple(c.ext('v_%d' % j) for j in range(4))
    c.let('VEC', vec)
    s0 = c.new(LT + ':LhCfPoseSample')
    s1 = c.new(LT + ':LhCfPoseSample', 1.0)
    c.let('s0', s0), c.let('s1', s1)
    c.call((c.getfield(s0, 'angles_calibrated'), 'update'), c.dict([(BS_IDS[1], vec)]))
    c.ensure('samples-do-not-share-their-angles', 'raised is None and len(s0.angles_calibrated) == 1 and len(s1.angles_calibrated) == 0 '
                                                  'and s0.angles_calibrated is not s1.angles_calibrated')
    c.patch(SCALER + '.calc_intersection_distance',
            c.ext('dist', returns={'()': seq_returns([c.snapshot('_d', 'LT.np.float64(dists[%d])' % i) for i in range(2)])}))
    c.reset_trace()
    c.call((c.cls(SCALER), '_calculate_mean_diagonal'), bs_poses, cf_poses, c.list([s0, s1]))
    c.ensure('no-exception', 'raised is None')
    c.ensure('only-what-the-first-sample-sees', 'len(trace) == 2 and all(e[0] == "dist" and e[1][2] is BS[1] and e[1][3] is CF[0] for e in trace)')
    c.ensure('mean-of-the-distances', 'result * 2 == dists[0] + dists[1]')


# ------------------------------------------------------------------------- intersection geometry: homogeneity

@contract('C16', 'calc_intersection_point.homogeneous', [SCALER + '.calc_intersection_point', POSE + '.scale'], float_mode='R',
          clause='scaling the base-station and Crazyflie positions by s scales the ray/deck intersection point by s (so the '
                 'estimated diagonal scales by |s| and factor = expected / estimated corrects it)',
          ob_timeout_ms=60000)
def intersection_homogeneous(c):
    helpers(c)
    bs, cf = pose(c, 'bs'), pose(c, 'cf')
    c.floats('cart', 3, kind='tuple')
    c.float('s')
    vector = c.ext('vector', attrs={'cart': c.snapshot('cart_arr', 'LT.np.array(cart)')})
    # the ray is not parallel to the deck plane (otherwise numpy divides by zero: inf/nan, no intersection)
    c.require('LT.np.dot(LT.np.dot(bs.rot_matrix, cart), LT.np.dot(cf.rot_matrix, (0.0, 0.0, 1.0))) != 0')
    c.call((c.cls(SCALER), 'calc_intersection_point'), vector, bs, cf)
    c.ensure('no-exception', 'raised is None')
    c.let('p1', c.get('result'))
    c.call((bs, 'scale'), c.get('s'))
    c.call((cf, 'scale'), c.get('s'))
    c.call((c.cls(SCALER), 'calc_intersection_point'), vector, bs, cf)
    c.ensure('no-exception-scaled', 'raised is None')
    for i in range(3):
        c.ensure('component-%d-scaled' % i, 'result[%d] == s * p1[%d]' % (i, i))


def ray_inputs(c, names=('vector',)):
    """base-station pose bs, Crazyflie pose cf and one external LighthouseBsVector stub per name with a symbolic `cart`, none of
    the rays parallel to the deck plane (otherwise numpy divides by zero: inf/nan, no intersection)"""
    bs, cf = pose(c, 'bs'), pose(c, 'cf')
    vs = []
    for n in names:
        c.floats(n + '_cart', 3, kind='tuple')
        vs.append(c.ext(n, attrs={'cart': c.snapshot(n + '_cart_arr', 'LT.np.array(%s_cart)' % n)}))
        c.require('LT.np.dot(LT.np.dot(bs.rot_matrix, %s_cart), LT.np.dot(cf.rot_matrix, (0.0, 0.0, 1.0))) != 0' % n)
    return bs, cf, vs


@contract('C16', 'calc_intersection_point.on-the-ray-in-the-deck-plane', [SCALER + '.calc_intersection_point'], float_mode='R',
          clause='the sensor diagonal that scale_diagonals makes correct is measured between true ray/deck intersections: the point '
                 'returned lies on the line through the base-station position along bs.R . cart (cross product with the direction '
                 'is zero) and in the plane through the Crazyflie position whose normal is the Crazyflie Z axis cf.R . (0,0,1); '
                 'neither pose is modified',
          ob_timeout_ms=60000)
def intersection_true(c):
    helpers(c)
    bs, cf, (vector,) = ray_inputs(c)
    remember(c, ['bs', 'cf'])
    c.call((c.cls(SCALER), 'calc_intersection_point'), vector, bs, cf)
    c.ensure('no-exception', 'raised is None')
    c.snapshot('P', 'result.tolist()')
    c.snapshot('n', '[cf_R[r][2] for r in range(3)]')                     # cf.R . (0, 0, 1)
    c.snapshot('d', 'apply(bs_R, (0.0, 0.0, 0.0), vector_cart)')        # bs.R . cart
    c.snapshot('w', '[P[i] - bs_t[i] for i in range(3)]')
    c.ensure('three-coordinates', 'len(P) == 3')
    c.ensure('in-the-deck-plane', 'abs(sum((P[i] - cf_t[i]) * n[i] for i in range(3))) <= 1e-9')
    c.ensure('on-the-ray-x', 'abs(w[1] * d[2] - w[2] * d[1]) <= 1e-9')
    c.ensure('on-the-ray-y', 'abs(w[2] * d[0] - w[0] * d[2]) <= 1e-9')
    c.ensure('on-the-ray-z', 'abs(w[0] * d[1] - w[1] * d[0]) <= 1e-9')
    check_pose_frame(c, ['bs', 'cf'])
    c.ensure('ray-direction-not-modified', 'vector_cart_arr.tolist() == list(vector_cart)')


@contract('C16', 'calc_intersection_distance', [SCALER + '.calc_intersection_distance', SCALER + '.calc_intersection_point'],
          float_mode='R',
          clause='the estimated sensor diagonal is the (non-negative) distance between the deck intersections of the TWO rays given, '
                 'both taken for the same base-station and Crazyflie pose, whichever ray is given first; neither pose is modified (with '
                 'calc_intersection_point.homogeneous: scaling both positions by s scales this distance by |s|)',
          ob_timeout_ms=60000)
def intersection_distance(c):
    helpers(c)
    bs, cf, (v1, v2) = ray_inputs(c, ('v1', 'v2'))
    c.call((c.cls(SCALER), 'calc_intersection_point'), v1, bs, cf)
    c.snapshot('p1', 'result.tolist()')
    c.call((c.cls(SCALER), 'calc_intersection_point'), v2, bs, cf)
    c.snapshot('p2', 'result.tolist()')
    remember(c, ['bs', 'cf'])
    c.call((c.cls(SCALER), 'calc_intersection_distance'), v1, v2, bs, cf)
    c.ensure('no-exception', 'raised is None')
    c.ensure('non-negative', 'result >= 0')
    # exact in the reals (mode R); with a tolerance the solver needs minutes for the same fact
    c.ensure('distance-between-the-two-intersections', 'result * result == sumsq([p1[i] - p2[i] for i in range(3)])')
    check_pose_frame(c, ['bs', 'cf'])
    c.call((c.cls(SCALER), 'calc_intersection_distance'), v2, v1, bs, cf)
    c.ensure('symmetric', 'raised is None and result >= 0 and result * result == sumsq([p1[i] - p2[i] for i in range(3)])')


# ------------------------------------------------------------------------- deck constants

@contract('C16', 'LhDeck4SensorPositions.diagonal', [LT + ':LhDeck4SensorPositions'], float_mode='R',
          clause='the sensor diagonal used as scaling reference is the distance between the diagonal sensor pairs (0,3) and (1,2) '
                 'of the deck sensor positions')
def deck_constants(c):
    helpers(c)
    c.let('K', c.cls(LT + ':LhDeck4SensorPositions'))
    c.snapshot('P', 'K.positions.tolist()')
    c.snapshot('dd', 'K.diagonal_distance * K.diagonal_distance')
    c.ensure('four-sensors-in-the-deck-plane', 'len(P) == 4 and all(len(p) == 3 and p[2] == 0 for p in P)')
    c.ensure('positive', 'K.diagonal_distance > 0')
    c.ensure('diagonal-0-3', 'abs(dd - sumsq([P[0][i] - P[3][i] for i in range(3)])) <= 1e-12')
    c.ensure('diagonal-1-2', 'abs(dd - sumsq([P[1][i] - P[2][i] for i in range(3)])) <= 1e-12')
    c.ensure('centred', 'all(abs(P[0][i] + P[3][i]) <= 1e-12 and abs(P[1][i] + P[2][i]) <= 1e-12 for i in range(3))')


# ------------------------------------------------------------------------- align: one transformation for all

def points(c, name, n):
    pts = [c.floats('%s%d' % (name, i), 3, kind='tuple') for i in range(n)]
    c.let(name, c.list(pts))
    c.let(name + '_pts', tuple(pts))
    return c.get(name)


def bounded_inputs(c, names):
    """|coordinate| <= 10 (metres; matrix entries: every rotation matrix has entries in [-1, 1]): keeps the native
    replay of a counterexample well inside the 1e-9 tolerance of the post-conditions"""
    for n in names:
        c.require('all(-10 <= x <= 10 for x in %s)' % n)


def _align(n_bs, n_x, n_p, **opts):
    @contract('C16', 'align.one_transformation.bs%d.x%d.p%d' % (n_bs, n_x, n_p),
              [ALIGNER + '.align', ALIGNER + '._de_flip_transformation', POSE + '.rotate_translate_pose',
               POSE + '.rotate_translate'], float_mode='R',
              clause=CL_ALIGN + ' [the ONE transformation that is returned is applied to every base station: out.R == T.R . in.R, '
                                'out.t == T.R . in.t + T.t; _find_transformation (least squares) under a stub returning an '
                                'arbitrary pose]',
              bounded='%d base station(s), %d x-axis and %d plane sample(s)' % (n_bs, n_x, n_p), **opts)
    def k(c):
        helpers(c)
        bs_poses, _ = system(c, n_bs, 0)
        raw = pose(c, 'raw')
        c.floats('origin', 3, kind='tuple')
        x_axis, xy_plane = points(c, 'x_axis', n_x), points(c, 'xy_plane', n_p)
        for i in range(n_bs):
            bounded_inputs(c, ['bs%d_t' % i] + ['bs%d_R[%d]' % (i, r) for r in range(3)])
        bounded_inputs(c, ['raw_t', 'origin'] + ['raw_R[%d]' % r for r in range(3)] + ['x_axis_pts[%d]' % i for i in range(n_x)])
        c.patch(ALIGNER + '._find_transformation', c.ext('find', returns={'()': raw}))
        names = ['bs%d' % i for i in range(n_bs)] + ['raw']
        remember(c, names)
        c.call((c.cls(ALIGNER), 'align'), c.get('origin'), x_axis, xy_plane, bs_poses)
        c.ensure('no-exception', 'raised is None')
        c.ensure('least-squares-consulted-once-with-the-samples',
                 'len(trace) == 1 and trace[0][0] == "find" and len(trace[0][1]) == 3 and trace[0][1][0] == origin and '
                 'trace[0][1][1] is x_axis and trace[0][1][2] is xy_plane and len(trace[0][2]) == 0')
        c.ensure('result-shape', 'isinstance(result, tuple) and len(result) == 2 and isinstance(result[0], dict) and '
                                 'typename(result[1]) == "Pose"')
        c.ensure('same-base-stations', 'len(result[0]) == len(IDS) and all(k in result[0] for k in IDS)')
        c.snapshot('TR', 'result[1].rot_matrix.tolist()')
        c.snapshot('Tt', 'result[1].translation.tolist()')
        for i in range(n_bs):
            c.snapshot('out', 'result[0][IDS[%d]]' % i)
            c.ensure('bs%d-is-a-new-pose' % i, 'typename(out) == "Pose" and out is not bs%d' % i)
            c.ensure('bs%d-translation-transformed' % i, 'near(out.translation.tolist(), apply(TR, Tt, bs%d_t))' % i)
            c.ensure('bs%d-rotation-transformed' % i, 'near2(out.rot_matrix.tolist(), matmul(TR, bs%d_R))' % i)
        c.ensure('input-containers-not-modified', 'list(bs_poses.items()) == list(zip(IDS, BS)) and '
                                                  'list(x_axis) == list(x_axis_pts) and list(xy_plane) == list(xy_plane_pts)')
        check_pose_frame(c, names)
    return k


for _s in ((1, 1, 1), (2, 1, 1), (2, 2, 2), (3, 1, 2)):
    _align(*_s)
for _s in ((4, 3, 4), (8, 2, 3), (16, 4, 4)):
    _align(*_s, thorough_only=True)


@contract('C16', 'align.twice', [ALIGNER + '.align', ALIGNER + '._de_flip_transformation', POSE + '.rotate_translate_pose',
                                  POSE + '.rotate_translate'], float_mode='R',
          clause=CL_ALIGN + ' [history: a second alignment of the same system (the solver now answering differently) is decided by the '
                            'second answer alone - nothing is remembered from the first - and leaves the first result as it was]',
          bounded='two base stations, one x-axis and one plane sample, two consecutive calls with the same arguments')
def align_twice(c):
    helpers(c)
    bs_poses, _ = system(c, 2, 0)
    raw1, raw2 = pose(c, 'raw1'), pose(c, 'raw2')
    c.floats('origin', 3, kind='tuple')
    c.floats('probe', 3, kind='tuple')
    x_axis, xy_plane = points(c, 'x_axis', 1), points(c, 'xy_plane', 1)
    for i in range(2):
        bounded_inputs(c, ['bs%d_t' % i] + ['bs%d_R[%d]' % (i, r) for r in range(3)])
    bounded_inputs(c, ['raw1_t', 'raw2_t', 'origin', 'probe', 'x_axis_pts[0]'] + ['raw%d_R[%d]' % (k, r) for k in (1, 2) for r in range(3)])
    c.patch(ALIGNER + '._find_transformation', c.ext('find', returns={'()': seq_returns([raw1, raw2])}))
    names = ['bs0', 'bs1', 'raw1', 'raw2']
    remember(c, names)
    c.call((c.cls(ALIGNER), 'align'), c.get('origin'), x_axis, xy_plane, bs_poses)
    c.ensure('no-exception-first', 'raised is None')
    c.let('first', c.get('result'))
    c.snapshot('first_values', '([first[0][k].translation.tolist() for k in IDS], [first[0][k].rot_matrix.tolist() for k in IDS], '
                               'first[1].translation.tolist(), first[1].rot_matrix.tolist())')
    c.call((c.cls(ALIGNER), 'align'), c.get('origin'), x_axis, xy_plane, bs_poses)
    c.ensure('no-exception', 'raised is None')
    c.ensure('least-squares-consulted-for-each-call', 'len(sent("find")) == 2')
    c.snapshot('TR', 'result[1].rot_matrix.tolist()')
    c.snapshot('Tt', 'result[1].translation.tolist()')
    # the second transformation is the de-flipped SECOND answer
    c.snapshot('sx', '-1.0 if apply(raw2_R, raw2_t, x_axis_pts[0])[0] < 0 else 1.0')
    c.snapshot('sz', '-1.0 if apply(raw2_R, raw2_t, bs0_t)[2] < 0 else 1.0')
    c.snapshot('S', '(sx, sx * sz, sz)')
    c.snapshot('rp', 'apply(raw2_R, raw2_t, probe)')
    c.snapshot('fp', 'apply(TR, Tt, probe)')
    for i in range(3):
        c.ensure('second-transformation-from-the-second-answer-%s' % 'xyz'[i], 'abs(fp[%d] - S[%d] * rp[%d]) <= 1e-9' % (i, i, i))
    for i in range(2):
        c.snapshot('out', 'result[0][IDS[%d]]' % i)
        c.ensure('bs%d-translation-transformed' % i, 'near(out.translation.tolist(), apply(TR, Tt, bs%d_t))' % i)
        c.ensure('bs%d-rotation-transformed' % i, 'near2(out.rot_matrix.tolist(), matmul(TR, bs%d_R))' % i)
    c.ensure('first-result-not-touched', '([first[0][k].translation.tolist() for k in IDS], [first[0][k].rot_matrix.tolist() for k in IDS], '
                                         'first[1].translation.tolist(), first[1].rot_matrix.tolist()) == first_values')
    c.ensure('input-containers-not-modified', 'list(bs_poses.items()) == list(zip(IDS, BS)) and '
                                              'list(x_axis) == list(x_axis_pts) and list(xy_plane) == list(xy_plane_pts)')
    check_pose_frame(c, names)


def array_points(c, name, n):
    """like points(), but every sample is a numpy array (what position estimates usually are): name = list of the arrays,
    name_arrs = tuple of the same array objects, name_pts = their initial contents"""
    pts = [c.floats('%s%d' % (name, i), 3, kind='tuple') for i in range(n)]
    arrs = [c.snapshot('%s%d_arr' % (name, i), 'LT.np.array(%s%d)' % (name, i)) for i in range(n)]
    c.let(name, c.list(arrs))
    c.let(name + '_arrs', tuple(arrs))
    c.let(name + '_pts', tuple(pts))
    return c.get(name)


@contract('C16', 'align.array-samples-not-modified',
          [ALIGNER + '.align', ALIGNER + '._de_flip_transformation', POSE + '.rotate_translate_pose', POSE + '.rotate_translate'],
          float_mode='R',
          clause=CL_ALIGN + ' [the reference samples given as numpy arrays: the caller\'s arrays are neither replaced in the lists nor '
                            'written, and the answer is the same as for plain tuples; _find_transformation under a stub returning an '
                            'arbitrary pose]',
          bounded='two base stations, two x-axis and two plane samples')
def align_arrays(c):
    helpers(c)
    bs_poses, _ = system(c, 2, 0)
    raw = pose(c, 'raw')
    c.floats('origin', 3, kind='tuple')
    c.snapshot('origin_arr', 'LT.np.array(origin)')
    x_axis, xy_plane = array_points(c, 'x_axis', 2), array_points(c, 'xy_plane', 2)
    for i in range(2):
        bounded_inputs(c, ['bs%d_t' % i] + ['bs%d_R[%d]' % (i, r) for r in range(3)])
    bounded_inputs(c, ['raw_t', 'origin'] + ['raw_R[%d]' % r for r in range(3)] + ['x_axis_pts[%d]' % i for i in range(2)])
    c.patch(ALIGNER + '._find_transformation', c.ext('find', returns={'()': raw}))
    names = ['bs0', 'bs1', 'raw']
    remember(c, names)
    c.call((c.cls(ALIGNER), 'align'), c.get('origin_arr'), x_axis, xy_plane, bs_poses)
    c.ensure('no-exception', 'raised is None')
    c.ensure('least-squares-given-the-callers-samples',
             'len(sent("find")) == 1 and sent("find")[0][1][0] is origin_arr and sent("find")[0][1][1] is x_axis and sent("find")[0][1][2] is xy_plane')
    c.snapshot('TR', 'result[1].rot_matrix.tolist()')
    c.snapshot('Tt', 'result[1].translation.tolist()')
    c.snapshot('xmean', '[(x_axis_pts[0][k] + x_axis_pts[1][k]) / 2 for k in range(3)]')
    c.snapshot('sx', '-1.0 if apply(raw_R, raw_t, xmean)[0] < 0 else 1.0')
    c.snapshot('sz', '-1.0 if apply(raw_R, raw_t, bs0_t)[2] < 0 else 1.0')
    c.snapshot('S', '(sx, sx * sz, sz)')
    c.snapshot('rp', 'apply(raw_R, raw_t, origin)')
    c.snapshot('fp', 'apply(TR, Tt, origin)')
    for i in range(3):
        c.ensure('de-flipped-answer-%s' % 'xyz'[i], 'abs(fp[%d] - S[%d] * rp[%d]) <= 1e-9' % (i, i, i))
    for i in range(2):
        c.snapshot('out', 'result[0][IDS[%d]]' % i)
        c.ensure('bs%d-translation-transformed' % i, 'near(out.translation.tolist(), apply(TR, Tt, bs%d_t))' % i)
        c.ensure('bs%d-rotation-transformed' % i, 'near2(out.rot_matrix.tolist(), matmul(TR, bs%d_R))' % i)
    c.ensure('sample-lists-not-modified', 'len(x_axis) == 2 and len(xy_plane) == 2 and all(x_axis[i] is x_axis_arrs[i] and '
                                          'xy_plane[i] is xy_plane_arrs[i] for i in range(2))')
    c.ensure('sample-arrays-not-written', 'origin_arr.tolist() == list(origin) and all(x_axis_arrs[i].tolist() == list(x_axis_pts[i]) and '
                                          'xy_plane_arrs[i].tolist() == list(xy_plane_pts[i]) for i in range(2))')
    c.ensure('base-station-dictionary-not-modified', 'list(bs_poses.items()) == list(zip(IDS, BS))')
    check_pose_frame(c, names)


# ------------------------------------------------------------------------- rigidity of one transformation

@contract('C16', 'Pose.rotate_translate_pose.isometry', [POSE + '.rotate_translate_pose'], float_mode='R',
          clause='applying one transformation T to two poses changes their squared distance by exactly d^T (T.R^T T.R - I) d '
                 '(d the difference of the input positions) and their relative orientation a.R^T b.R by a.R^T (T.R^T T.R - I) b.R: '
                 'nothing when T.R is orthonormal (with align.one_transformation.*: distances and relative orientations between '
                 'base stations are preserved by a rigid transformation)')
def isometry(c):
    helpers(c)
    T, a, b = pose(c, 'T'), pose(c, 'a'), pose(c, 'b')
    c.call((T, 'rotate_translate_pose'), a)
    c.ensure('no-exception-a', 'raised is None')
    c.let('a2', c.get('result'))
    c.call((T, 'rotate_translate_pose'), b)
    c.ensure('no-exception-b', 'raised is None')
    c.let('b2', c.get('result'))
    c.snapshot('d_in', '[a_t[i] - b_t[i] for i in range(3)]')
    c.snapshot('d_out', '[a2.translation.tolist()[i] - b2.translation.tolist()[i] for i in range(3)]')
    c.snapshot('G', '[[T_R[0][k] * T_R[0][l] + T_R[1][k] * T_R[1][l] + T_R[2][k] * T_R[2][l] - (1 if k == l else 0) for l in range(3)] '
                    'for k in range(3)]')          # T.R^T T.R - I  (zero iff T.R is orthonormal)
    c.ensure('distance-change-is-the-quadratic-form-of-RtR-minus-I',
             'sumsq(d_out) - sumsq(d_in) == sum(d_in[k] * d_in[l] * G[k][l] for k in range(3) for l in range(3))')
    c.snapshot('Ra2', 'a2.rot_matrix.tolist()')
    c.snapshot('Rb2', 'b2.rot_matrix.tolist()')
    for i in range(3):
        # relative orientation a.R^T b.R: changes by a.R^T (T.R^T T.R - I) b.R
        c.ensure('relative-orientation-change-row-%d' % i,
                 'all(sum(Ra2[k][%d] * Rb2[k][j] for k in range(3)) - sum(a_R[k][%d] * b_R[k][j] for k in range(3)) == '
                 'sum(a_R[k][%d] * G[k][l] * b_R[l][j] for k in range(3) for l in range(3)) for j in range(3))' % (i, i, i))


# ------------------------------------------------------------------------- de-flip

def _de_flip(n_bs, n_x, **opts):
    @contract('C16', '_de_flip_transformation.bs%d.x%d' % (n_bs, n_x),
              [ALIGNER + '._de_flip_transformation', POSE + '.rotate_translate_pose', POSE + '.rotate_translate',
               POSE + '.from_rot_vec'], float_mode='R',
              clause=CL_ALIGN + ' [de-flip: result == S . raw with S = diag(sx, sx*sz, sz), sx = -1 iff raw maps the mean x-axis '
                                'sample to X < 0, sz = -1 iff raw maps the first base station to Z < 0; applied after raw, so the '
                                'origin / X axis / plane Z=0 of the raw solution are kept and the signs are corrected]',
              bounded='%d base station(s), %d x-axis sample(s)' % (n_bs, n_x), **opts)
    def k(c):
        helpers(c)
        bs_poses, _ = system(c, n_bs, 0)
        raw = pose(c, 'raw')
        x_axis = points(c, 'x_axis', n_x)
        c.floats('probe', 3, kind='tuple')
        c.floats('origin', 3, kind='tuple')
        for i in range(n_bs):
            bounded_inputs(c, ['bs%d_t' % i])
        bounded_inputs(c, ['raw_t', 'probe', 'origin'] + ['raw_R[%d]' % r for r in range(3)] + ['x_axis_pts[%d]' % i for i in range(n_x)])
        names = ['bs%d' % i for i in range(n_bs)] + ['raw']
        remember(c, names)
        c.call((c.cls(ALIGNER), '_de_flip_transformation'), raw, x_axis, bs_poses)
        c.ensure('no-exception', 'raised is None')
        c.ensure('result-is-a-pose', 'typename(result) == "Pose"')
        c.snapshot('FR', 'result.rot_matrix.tolist()')
        c.snapshot('Ft', 'result.translation.tolist()')
        c.snapshot('xmean', '[(%s) / %d for k in range(3)]' % (' + '.join('x_axis_pts[%d][k]' % i for i in range(n_x)), n_x))
        c.snapshot('sx', '-1.0 if apply(raw_R, raw_t, xmean)[0] < 0 else 1.0')
        c.snapshot('sz', '-1.0 if apply(raw_R, raw_t, bs0_t)[2] < 0 else 1.0')
        c.snapshot('S', '(sx, sx * sz, sz)')
        c.snapshot('rp', 'apply(raw_R, raw_t, probe)')
        c.snapshot('fp', 'apply(FR, Ft, probe)')
        for i in range(3):
            c.ensure('flip-applied-after-raw-%s' % 'xyz'[i], 'abs(fp[%d] - S[%d] * rp[%d]) <= 1e-9' % (i, i, i))
        c.ensure('proper-rotation-stays-proper', 'implies(orthonormal(raw_R), orthonormal(FR)) and det(FR) == det(raw_R)')
        c.ensure('x-axis-samples-on-positive-side', 'apply(FR, Ft, xmean)[0] >= -1e-9')
        c.ensure('first-base-station-above-floor', 'apply(FR, Ft, bs0_t)[2] >= -1e-9')
        c.snapshot('ro', 'apply(raw_R, raw_t, origin)')
        c.snapshot('fo', 'apply(FR, Ft, origin)')
        c.ensure('origin-kept', 'implies(ro[0] == 0 and ro[1] == 0 and ro[2] == 0, all(abs(v) <= 1e-9 for v in fo))')
        c.ensure('x-axis-kept', 'implies(ro[1] == 0 and ro[2] == 0, abs(fo[1]) <= 1e-9 and abs(fo[2]) <= 1e-9)')
        c.ensure('floor-plane-kept', 'implies(ro[2] == 0, abs(fo[2]) <= 1e-9)')
        c.ensure('input-containers-not-modified', 'list(bs_poses.items()) == list(zip(IDS, BS)) and list(x_axis) == list(x_axis_pts)')
        check_pose_frame(c, names)
    return k


for _s in ((1, 1), (2, 2), (3, 3)):
    _de_flip(*_s)
for _s in ((4, 5), (16, 8)):
    _de_flip(*_s, thorough_only=True)


# ------------------------------------------------------------------------- what the least-squares solver minimises

CL_RESIDUAL = ('the transformation maps the origin sample to (0,0,0), x-axis samples onto the X axis and plane samples into Z=0 '
               '[what "exact" means for the solver: the sum of squares of the residual handed to it is |T(origin)|^2 + sum over '
               'x-axis samples of T(x)_y^2 + T(x)_z^2 + sum over plane samples of T(p)_z^2, T the pose of the parameter vector; '
               'it is zero iff T maps the samples where the property wants them]')


def objective(T_R, T_t, n_x, n_p):
    """spec text of the least-squares objective of the transformation (T_R, T_t) on origin / x_axis_pts / xy_plane_pts"""
    terms = ['sumsq(apply(%s, %s, origin))' % (T_R, T_t)]
    for i in range(n_x):
        terms.append('sq(apply(%s, %s, x_axis_pts[%d])[1]) + sq(apply(%s, %s, x_axis_pts[%d])[2])' % (T_R, T_t, i, T_R, T_t, i))
    for i in range(n_p):
        terms.append('sq(apply(%s, %s, xy_plane_pts[%d])[2])' % (T_R, T_t, i))
    return ' + '.join(terms)


def _residual(n_x, n_p, **opts):
    @contract('C16', '_calc_residual.objective.x%d.p%d' % (n_x, n_p), [ALIGNER + '._calc_residual', POSE + '.rotate_translate'],
              float_mode='R', clause=CL_RESIDUAL + ' [_Pose_from_params under a stub returning an arbitrary pose T]',
              bounded='%d x-axis and %d plane sample(s)' % (n_x, n_p), **opts)
    def k(c):
        helpers(c)
        c.snapshot('sq', 'lambda v: v * v')
        T = pose(c, 'T')
        c.floats('origin', 3, kind='tuple')
        x_axis, xy_plane = points(c, 'x_axis', n_x), points(c, 'xy_plane', n_p)
        c.floats('params', 6, kind='tuple')
        params = c.snapshot('params_arr', 'LT.np.array(params)')
        bounded_inputs(c, ['T_t', 'origin', 'params'] + ['T_R[%d]' % r for r in range(3)] + ['x_axis_pts[%d]' % i for i in range(n_x)] +
                       ['xy_plane_pts[%d]' % i for i in range(n_p)])
        c.patch(ALIGNER + '._Pose_from_params', c.ext('pose_from_params', returns={'()': T}))
        remember(c, ['T'])
        c.call((c.cls(ALIGNER), '_calc_residual'), params, c.get('origin'), x_axis, xy_plane)
        c.ensure('no-exception', 'raised is None')
        c.ensure('the-pose-of-the-parameter-vector-is-judged',
                 'len(trace) == 1 and trace[0][0] == "pose_from_params" and len(trace[0][1]) == 1 and trace[0][1][0] is params_arr '
                 'and len(trace[0][2]) == 0')
        c.snapshot('res', 'LT.np.ravel(result).tolist()')
        c.ensure('sum-of-squares-is-the-alignment-error', 'abs(sum(sq(r) for r in res) - (%s)) <= 1e-9' % objective('T_R', 'T_t', n_x, n_p))
        c.ensure('inputs-not-modified', 'list(x_axis) == list(x_axis_pts) and list(xy_plane) == list(xy_plane_pts) and '
                                        'params_arr.tolist() == list(params)')
        check_pose_frame(c, ['T'])
    return k


for _s in ((1, 1), (2, 1), (1, 2), (3, 3)):
    _residual(*_s)


@contract('C16', '_calc_residual.array-samples', [ALIGNER + '._calc_residual', POSE + '.rotate_translate'], float_mode='R',
          clause=CL_RESIDUAL + ' [samples and origin given as numpy arrays: same objective, the arrays are not written - the solver '
                               'evaluates the residual many times on the same samples; _Pose_from_params under a stub returning an '
                               'arbitrary pose T]',
          bounded='two x-axis and two plane samples, two consecutive evaluations')
def residual_arrays(c):
    helpers(c)
    c.snapshot('sq', 'lambda v: v * v')
    T, T2 = pose(c, 'T'), pose(c, 'T2')
    c.floats('origin', 3, kind='tuple')
    c.snapshot('origin_arr', 'LT.np.array(origin)')
    x_axis, xy_plane = array_points(c, 'x_axis', 2), array_points(c, 'xy_plane', 2)
    c.floats('params', 6, kind='tuple')
    params = c.snapshot('params_arr', 'LT.np.array(params)')
    bounded_inputs(c, ['T_t', 'T2_t', 'origin', 'params'] + ['T_R[%d]' % r for r in range(3)] + ['T2_R[%d]' % r for r in range(3)] +
                   ['x_axis_pts[%d]' % i for i in range(2)] + ['xy_plane_pts[%d]' % i for i in range(2)])
    c.patch(ALIGNER + '._Pose_from_params', c.ext('pose_from_params', returns={'()': seq_returns([T, T2])}))
    c.call((c.cls(ALIGNER), '_calc_residual'), params, c.get('origin_arr'), x_axis, xy_plane)
    c.ensure('no-exception', 'raised is None')
    c.snapshot('res', 'LT.np.ravel(result).tolist()')
    c.ensure('sum-of-squares-is-the-alignment-error', 'abs(sum(sq(r) for r in res) - (%s)) <= 1e-9' % objective('T_R', 'T_t', 2, 2))
    c.let('first_result', c.get('result'))
    c.call((c.cls(ALIGNER), '_calc_residual'), params, c.get('origin_arr'), x_axis, xy_plane)
    c.ensure('no-exception-second-evaluation', 'raised is None')
    c.snapshot('res2', 'LT.np.ravel(result).tolist()')
    c.ensure('second-evaluation-judges-the-second-pose-on-the-same-samples',
             'abs(sum(sq(r) for r in res2) - (%s)) <= 1e-9' % objective('T2_R', 'T2_t', 2, 2))
    c.ensure('first-residual-not-overwritten', 'result is not first_result and LT.np.ravel(first_result).tolist() == res')
    c.ensure('sample-lists-not-modified', 'len(x_axis) == 2 and len(xy_plane) == 2 and all(x_axis[i] is x_axis_arrs[i] and '
                                          'xy_plane[i] is xy_plane_arrs[i] for i in range(2))')
    c.ensure('sample-arrays-not-written', 'origin_arr.tolist() == list(origin) and params_arr.tolist() == list(params) and '
                                          'all(x_axis_arrs[i].tolist() == list(x_axis_pts[i]) and '
                                          'xy_plane_arrs[i].tolist() == list(xy_plane_pts[i]) for i in range(2))')
_residual(5, 6, thorough_only=True)


# ------------------------------------------------------------------------- _find_transformation: the solver's answer is what is returned

def _find(n_x, n_p, **opts):
    @contract('C16', '_find_transformation.x%d.p%d' % (n_x, n_p),
              [ALIGNER + '._find_transformation', ALIGNER + '._calc_residual', ALIGNER + '._Pose_from_params', POSE + '.from_rot_vec',
               POSE + '.rotate_translate'], float_mode='R',
              clause=CL_RESIDUAL + ' [the pose returned is the pose of the solver\'s answer: the residual the solver is shown for its '
                                   'answer, on the samples it is given, is the alignment error of the RETURNED pose on the CALLER\'s '
                                   'samples - so a converged solver means an exact alignment; the search starts from the zero parameter '
                                   'vector (no rotation, no translation: "initial misalignment"); scipy.optimize.least_squares under a stub '
                                   'that evaluates the function it is given at an arbitrary answer; scipy Rotation.from_rotvec under a stub '
                                   'returning a matrix that is an arbitrary injective function of the rotation vector]',
              bounded='%d x-axis and %d plane sample(s)' % (n_x, n_p), **opts)
    def k(c):
        helpers(c)
        c.snapshot('sq', 'lambda v: v * v')
        c.let('Rm', mat(c, 'Rm'))
        c.floats('origin', 3, kind='tuple')
        x_axis, xy_plane = points(c, 'x_axis', n_x), points(c, 'xy_plane', n_p)
        c.floats('answer', 6, kind='tuple')
        c.snapshot('answer_arr', 'LT.np.array(answer)')
        bounded_inputs(c, ['origin', 'answer'] + ['Rm[%d]' % r for r in range(3)] + ['x_axis_pts[%d]' % i for i in range(n_x)] +
                       ['xy_plane_pts[%d]' % i for i in range(n_p)])

        def from_rotvec(_i, args, kwargs):
            # stand-in for scipy: the matrix is Rm with the rotation vector added to its first row (arbitrary, injective)
            c.let('_v', args[0])
            m = c.snapshot('_m', '[[Rm[0][j] + _v[j] for j in range(3)], list(Rm[1]), list(Rm[2])]')
            return c.ext('rotation', returns={'as_matrix': m})

        consulted = []

        def least_squares(_i, args, kwargs):
            consulted.append(1)
            c.let('solver_x0', args[1] if len(args) > 1 else kwargs.get('x0'))
            c.let('seen', c.invoke(args[0] if args else kwargs.get('fun'), c.get('answer_arr'), *tuple(kwargs.get('args', ()))))
            return c.ext('solution', attrs={'x': c.get('answer_arr')})
        c.patch(LT + ':Rotation', c.ext('Rotation', returns={'from_rotvec': from_rotvec}))
        # the solver is reached as scipy.optimize.least_squares; other import styles of the same function are stubbed alike
        names = module_names(c, AL)
        if 'scipy' in names:
            c.patch(AL + ':scipy', c.ext('scipy', returns={'optimize.least_squares': least_squares}))
        elif 'optimize' in names:
            c.patch(AL + ':optimize', c.ext('optimize', returns={'least_squares': least_squares}))
        else:
            c.patch(AL + ':least_squares', c.ext('least_squares', returns={'()': least_squares}))
        c.call((c.cls(ALIGNER), '_find_transformation'), c.get('origin'), x_axis, xy_plane)
        c.let('n_consulted', len(consulted))
        c.ensure('no-exception', 'raised is None')
        c.ensure('solver-consulted-once', 'n_consulted == 1')
        c.ensure('search-starts-from-the-zero-parameter-vector', 'len(solver_x0.tolist()) == 6 and all(v == 0 for v in solver_x0.tolist())')
        c.ensure('result-is-a-pose', 'typename(result) == "Pose"')
        c.snapshot('FR', 'result.rot_matrix.tolist()')
        c.snapshot('Ft', 'result.translation.tolist()')
        c.snapshot('res', 'LT.np.ravel(seen).tolist()')
        c.ensure('residual-shown-for-the-answer-is-the-alignment-error-of-the-returned-pose',
                 'abs(sum(sq(r) for r in res) - (%s)) <= 1e-9' % objective('FR', 'Ft', n_x, n_p))
        c.ensure('inputs-not-modified', 'list(x_axis) == list(x_axis_pts) and list(xy_plane) == list(xy_plane_pts) and '
                                        'answer_arr.tolist() == list(answer)')
    return k


for _s in ((1, 1), (2, 1), (1, 2)):
    _find(*_s)
_find(3, 3, thorough_only=True)


# ------------------------------------------------------------------------- align end to end: BOUNDED ONLY (never counted as proved)

@contract('C16', 'align.end-to-end.sampled', [ALIGNER + '.align', ALIGNER + '._find_transformation', ALIGNER + '._calc_residual',
                                             ALIGNER + '._de_flip_transformation'],
          clause=CL_ALIGN + ' [whenever the initial misalignment is below 30 degrees and 3 m: the REAL align() with the real scipy least-squares '
                            'solver, exact reference points]',
          bounded_only=True, samples={'quick': 1500, 'thorough': 20000},
          bounded='_find_transformation is scipy.optimize.least_squares on numpy code - outside the verifier; seeded boundary/random sampling of: '
                  'misalignment angle 0..29.99 degrees about any axis, offset 0..3 m in any direction, 1..3 x-axis and 1..3 plane reference '
                  'points (exact, at least 0.2 m from the origin / 0.3 m off the X axis), two base stations 1.5..4 m above the floor; '
                  'tolerance 1e-5 m / 1e-5 on rotation-matrix entries')
def align_end_to_end(c):
    """native only: the body uses numpy directly (the symbolic back end never runs a bounded_only contract)"""
    import warnings
    import numpy as np
    ang = c.int('angle_cdeg', 0, 2999)
    axis = [c.int('axis%d' % i, -100, 100) for i in range(3)]
    odir = [c.int('odir%d' % i, -100, 100) for i in range(3)]
    omag = c.int('offset_mm', 0, 3000)
    n_x, n_p = c.choice('n_x', [1, 2, 3]), c.choice('n_p', [1, 2, 3])
    xs = [c.int('x%d' % i, 200, 3000) for i in range(n_x)]
    pl = [(c.int('pa%d' % i, -3000, 3000), c.int('pb%d' % i, 300, 3000) * (1 if c.bool('pside%d' % i) else -1)) for i in range(n_p)]
    bs = [([c.int('bs%d_r%d' % (b, i), -3000, 3000) for i in range(3)],
           [c.int('bs%d_x' % b, -4000, 4000), c.int('bs%d_y' % b, -4000, 4000), c.int('bs%d_z' % b, 1500, 4000)]) for b in range(2)]
    c.require('any(a != 0 for a in (axis0, axis1, axis2)) and any(a != 0 for a in (odir0, odir1, odir2))')
    Pose = c.cls(POSE)
    ax = np.array(axis, dtype=float)
    ax /= np.linalg.norm(ax)
    od = np.array(odir, dtype=float)
    od /= np.linalg.norm(od)
    M = Pose.from_rot_vec(R_vec=ax * np.radians(ang / 100.0), t_vec=od * (omag / 1000.0))     # real world -> solved frame
    true_bs = {BS_IDS[b]: Pose.from_rot_vec(R_vec=np.array(r) / 1000.0, t_vec=np.array(t) / 1000.0) for b, (r, t) in enumerate(bs)}
    origin = M.rotate_translate((0.0, 0.0, 0.0))
    x_axis = [M.rotate_translate((x / 1000.0, 0.0, 0.0)) for x in xs]
    xy_plane = [M.rotate_translate((a / 1000.0, b / 1000.0, 0.0)) for a, b in pl]
    bs_poses = {i: M.rotate_translate_pose(p) for i, p in true_bs.items()}
    with warnings.catch_warnings():
        warnings.simplefilter('ignore')
        c.call((c.cls(ALIGNER), 'align'), origin, x_axis, xy_plane, bs_poses)
    c.ensure('no-exception', 'raised is None')
    if c.get('raised') is not None:
        return
    aligned, T = c.get('result')
    R = np.array(T.rot_matrix)
    c.let('rigid_err', float(max(np.abs(R.T @ R - np.eye(3)).max(), abs(np.linalg.det(R) - 1.0))))
    c.let('origin_err', float(np.abs(T.rotate_translate(origin)).max()))
    xq = [T.rotate_translate(p) for p in x_axis]
    c.let('x_axis_err', float(max(np.abs(q[1:]).max() for q in xq)))
    c.let('x_axis_min_x', float(min(q[0] for q in xq)))
    c.let('plane_err', float(max(abs(T.rotate_translate(p)[2]) for p in xy_plane)))
    c.let('bs_min_z', float(min(aligned[i].translation[2] for i in true_bs)))
    c.let('bs_err', float(max(max(np.abs(aligned[i].translation - true_bs[i].translation).max(),
                                  np.abs(aligned[i].rot_matrix - true_bs[i].rot_matrix).max()) for i in true_bs)))
    c.ensure('one-proper-rigid-transformation', 'rigid_err <= 1e-9')
    c.ensure('origin-sample-maps-to-origin', 'origin_err <= 1e-5')
    c.ensure('x-axis-samples-on-the-positive-x-axis', 'x_axis_err <= 1e-5 and x_axis_min_x > 0')
    c.ensure('plane-samples-in-z-0', 'plane_err <= 1e-5')
    c.ensure('base-stations-above-the-floor-at-their-true-poses', 'bs_min_z > 0 and bs_err <= 1e-5')
