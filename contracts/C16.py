"""C16 - system alignment is rigid and exact; scaling is uniform (decidable fragment, DESIGN.md section C16).

All contracts run in float mode R (machine floats treated as mathematical reals) on the numpy model of
pyvc/numpy_model.py (float arrays with identity: `a *= s` mutates, `a * s` / np.array(x) make new arrays; numpy scalars;
np.dot / np.mean / np.linalg.norm / np.sqrt; scipy's Rotation only for the two half turns the aligner uses).

Covered
  * Pose.scale, LighthouseSystemScaler._scale_system, scale_fixed_point, scale_diagonals: one factor for every base
    station and Crazyflie pose, returned as third result; every translation multiplied by it, every rotation unchanged;
    the factor makes the reference distance (|factor * actual| == |expected|) resp. the estimated sensor diagonal
    (factor * estimated == expected) correct; FRAME: neither input container, nor any input pose, nor the numpy arrays
    inside the input poses, nor `expected` / `actual` are modified (this is what fails for an in-place scale through
    the shallow copies).
  * LighthouseSystemScaler._calculate_mean_diagonal: the estimate is the mean over all samples and base stations of
    the two sensor diagonals (sensors 0-3 and 1-2) seen by the base station of that id from the Crazyflie pose of
    that sample (calc_intersection_distance under a stub).
  * calc_intersection_distance / calc_intersection_point: the ray/deck intersection is homogeneous of degree one in
    the translations (scaling base station and Crazyflie positions by s scales the intersection point by s), which is
    what makes "factor = expected / estimated" the factor that corrects the diagonal.
  * LhDeck4SensorPositions: diagonal_distance is the distance between sensors 0-3 and between sensors 1-2 of
    `positions` (the pairs _calculate_mean_diagonal measures), within 1e-12 m^2 on the squares.
  * LighthouseSystemAligner.align (with _find_transformation under a stub returning an arbitrary pose): ONE
    transformation - the one that is returned - is applied to every base station: out.R == T.R . in.R and
    out.t == T.R . in.t + T.t for every id, same id set, inputs not modified, _find_transformation consulted once
    with the caller's samples.
  * LighthouseSystemAligner._de_flip_transformation: the returned transformation is S . raw with S a diagonal sign
    matrix of determinant one (identity / half turn about Z / half turn about X / both) applied AFTER the raw
    transformation (in the aligned frame), chosen so that the mean x-axis sample lands at X >= 0 and the first base
    station at Z >= 0; hence what the raw solution maps to the origin / the X axis / the plane Z = 0 stays there
    (mirror-flipped answers are corrected without moving the origin).  Stated for an arbitrary probe point.  If the
    raw rotation matrix is orthonormal so is the result's, and the determinant is unchanged (proper stays proper).
  * Pose.rotate_translate_pose (rigidity of ONE transformation applied to two poses): the squared distance between
    the two positions changes by exactly d^T (T.R^T T.R - I) d and the relative orientation a.R^T b.R by exactly
    a.R^T (T.R^T T.R - I) b.R - polynomial identities; both vanish when T.R is orthonormal.  Together with the two
    aligner contracts: if the least-squares answer is a proper rigid transformation, distances and relative
    orientations between base stations are preserved by `align`.

Not covered (and why)
  * that _find_transformation (scipy.optimize.least_squares from a zero start, ten evaluations) returns a proper rigid
    transformation with zero residual for misalignments below 30 degrees: numerical convergence of an external
    optimiser, not a contract (DESIGN.md: N/A);
  * that the matrix of that answer is orthonormal with determinant one: contract of scipy's Rotation.as_matrix
    (external); the implication "orthonormal => distance preserved" as ONE solver goal is not decided by z3 (cvc5 needs
    25 s, above the budget), which is why rigidity is stated through the exact defect term (T.R^T T.R - I) instead;
  * calc_intersection_point being the true ray/plane intersection (geometry of LighthouseBsVector.cart, trigonometric)
    - only its homogeneity is proved;
  * float rounding (mode R), numpy broadcasting beyond scalar/equal shapes, integer arrays, non-finite values, a zero
    reference distance / zero estimated diagonal / a ray parallel to the deck (numpy yields inf/nan with a
    RuntimeWarning, no exception; excluded by pre-conditions);
  * empty sample lists / an empty base-station dictionary for the aligner (the property quantifies over one or more).

Stubs (c.patch, the same stub object runs natively): _find_transformation (returns an arbitrary pose),
_calculate_mean_diagonal (returns an arbitrary non-zero numpy scalar), calc_intersection_distance (returns arbitrary
numpy scalars) - each only in the contracts of their callers; the latter two have their own contracts below.
Base-station ids are the concrete keys 0, 3, 1 (the code only copies them).  Aligner inputs are bounded by 10 in
absolute value (metres / matrix entries) so that native replays stay inside the 1e-9 tolerance of those ensures.
"""
from pyvc.api import contract

LT = 'cflib.localization.lighthouse_types'
SC = 'cflib.localization.lighthouse_system_scaler'
AL = 'cflib.localization.lighthouse_system_aligner'
POSE = LT + ':Pose'
SCALER = SC + ':LighthouseSystemScaler'
ALIGNER = AL + ':LighthouseSystemAligner'

BS_IDS = (0, 3, 1)          # base-station ids are opaque dictionary keys for the code under contract

CL_SCALE = ('Scaling multiplies every translation by the single factor that makes the reference distance or the sensor '
            'diagonal correct and leaves rotations unchanged; it does not modify its inputs')
CL_ALIGN = ('Aligning applies one proper rigid transformation to all base stations ... maps the origin sample to (0,0,0), '
            'x-axis samples onto the positive X axis and plane samples into Z=0 with the base stations above the floor '
            '(mirror-flipped answers are corrected); it does not modify its inputs')


# ------------------------------------------------------------------------- shared builders

def helpers(c):
    c.let('LT', c.func(LT))                 # the module: LT.np is numpy (native) / the numpy model (symbolic)
    # M . v + t for a 3x3 nested sequence M and 3-sequences v, t; M . N for two 3x3 nested sequences
    c.snapshot('apply', 'lambda M, t, v: [M[r][0] * v[0] + M[r][1] * v[1] + M[r][2] * v[2] + t[r] for r in range(3)]')
    c.snapshot('matmul', 'lambda M, N: [[M[r][0] * N[0][k] + M[r][1] * N[1][k] + M[r][2] * N[2][k] for k in range(3)] '
                         'for r in range(3)]')
    c.snapshot('near', 'lambda a, b: all(abs(x - y) <= 1e-9 for x, y in zip(a, b))')
    c.snapshot('near2', 'lambda A, B: all(near(x, y) for x, y in zip(A, B))')
    c.snapshot('sumsq', 'lambda v: v[0] * v[0] + v[1] * v[1] + v[2] * v[2]')
    # M^T . M == I, and the determinant, of a 3x3 nested sequence
    c.snapshot('orthonormal', 'lambda M: all(M[0][i] * M[0][j] + M[1][i] * M[1][j] + M[2][i] * M[2][j] == (1 if i == j else 0) '
                              'for i in range(3) for j in range(i, 3))')
    c.snapshot('det', 'lambda M: M[0][0] * (M[1][1] * M[2][2] - M[1][2] * M[2][1]) - M[0][1] * (M[1][0] * M[2][2] - M[1][2] * M[2][0]) '
                      '+ M[0][2] * (M[1][0] * M[2][1] - M[1][1] * M[2][0])')


def mat(c, name):
    """a symbolic 3x3 matrix as a tuple of three row tuples"""
    return tuple(c.floats('%s_r%d' % (name, i), 3, kind='tuple') for i in range(3))


def pose(c, name):
    """a Pose built by its real constructor from a symbolic matrix and translation; registers name, name_R, name_t"""
    R = mat(c, name + '_R')
    t = c.floats(name + '_t', 3, kind='tuple')
    p = c.new(POSE, R, t)
    c.let(name, p)
    c.let(name + '_R', R)
    return p


def system(c, n_bs, n_cf):
    bs = [pose(c, 'bs%d' % i) for i in range(n_bs)]
    cf = [pose(c, 'cf%d' % i) for i in range(n_cf)]
    ids = BS_IDS[:n_bs]
    c.let('IDS', ids)
    c.let('BS', tuple(bs))
    c.let('CF', tuple(cf))
    c.let('bs_poses', c.dict(list(zip(ids, bs))))
    c.let('cf_poses', c.list(cf))
    return c.get('bs_poses'), c.get('cf_poses')


def remember(c, names):
    """ghost copy of the state of the poses `names` before the call: the array OBJECTS and their contents"""
    for n in names:
        c.snapshot('old_' + n, '(%s.rot_matrix, %s.translation, %s.rot_matrix.tolist(), %s.translation.tolist(), '
                               'sorted(%s.__dict__))' % (n, n, n, n, n))


def check_pose_frame(c, names):
    for n in names:
        c.ensure(n + '-not-modified',
                 '%s.rot_matrix is old_%s[0] and %s.translation is old_%s[1] and %s.rot_matrix.tolist() == old_%s[2] '
                 'and %s.translation.tolist() == old_%s[3] and old_%s[1].tolist() == old_%s[3] '
                 'and sorted(%s.__dict__) == old_%s[4]' % ((n, n) * 6))


def check_system_frame(c, n_bs, n_cf):
    c.ensure('input-containers-not-modified', 'list(bs_poses.items()) == list(zip(IDS, BS)) and list(cf_poses) == list(CF)')
    check_pose_frame(c, ['bs%d' % i for i in range(n_bs)] + ['cf%d' % i for i in range(n_cf)])


def check_scaled(c, n_bs, n_cf, factor):
    """result == (dict, list, factor): every pose scaled by `factor`, rotations unchanged"""
    c.ensure('result-shape', 'isinstance(result, tuple) and len(result) == 3 and isinstance(result[0], dict) and '
                             'isinstance(result[1], list)')
    c.ensure('same-base-stations', 'len(result[0]) == len(IDS) and all(k in result[0] for k in IDS)')
    c.ensure('same-number-of-cf-poses', 'len(result[1]) == len(CF)')
    for i in range(n_bs):
        c.snapshot('out', 'result[0][IDS[%d]]' % i)
        c.ensure('bs%d-translation-times-factor' % i, 'out.translation.tolist() == [%s * x for x in bs%d_t]' % (factor, i))
        c.ensure('bs%d-rotation-unchanged' % i, 'out.rot_matrix.tolist() == [list(r) for r in bs%d_R]' % i)
    for i in range(n_cf):
        c.snapshot('out', 'result[1][%d]' % i)
        c.ensure('cf%d-translation-times-factor' % i, 'out.translation.tolist() == [%s * x for x in cf%d_t]' % (factor, i))
        c.ensure('cf%d-rotation-unchanged' % i, 'out.rot_matrix.tolist() == [list(r) for r in cf%d_R]' % i)


SIZES = ((1, 0), (1, 1), (2, 1), (2, 2), (3, 2))
BOUND = '%d base station(s) and %d Crazyflie pose(s) (sizes (1,0) (1,1) (2,1) (2,2) (3,2) enumerated); matrices and vectors symbolic'


# ------------------------------------------------------------------------- Pose.scale

@contract('C16', 'Pose.scale', [POSE + '.scale', POSE + '.__init__'], float_mode='R',
          clause='scaling multiplies the translation by the factor and leaves the rotation unchanged; arrays handed out '
                 'before (what the shallow copies of _scale_system share) are not written')
def pose_scale(c):
    helpers(c)
    p = pose(c, 'p')
    c.float('s')
    c.snapshot('R_obj', 'p.rot_matrix')
    c.snapshot('t_obj', 'p.translation')
    c.call((p, 'scale'), c.get('s'))
    c.ensure('no-exception', 'raised is None and result is None')
    c.ensure('translation-scaled', 'p.translation.tolist() == [s * x for x in p_t]')
    c.ensure('rotation-same-object', 'p.rot_matrix is R_obj')
    c.ensure('rotation-unchanged', 'p.rot_matrix.tolist() == [list(r) for r in p_R]')
    c.ensure('old-translation-array-not-mutated', 't_obj.tolist() == list(p_t)')
    c.ensure('constructor-arguments-not-aliased', 'p.translation is not p_t and p.rot_matrix is not p_R')


# ------------------------------------------------------------------------- _scale_system

def _scale_system(n_bs, n_cf):
    @contract('C16', '_scale_system.bs%d.cf%d' % (n_bs, n_cf), [SCALER + '._scale_system', POSE + '.scale'], float_mode='R',
              clause=CL_SCALE + ' [the given factor is applied to every pose and returned]', bounded=BOUND % (n_bs, n_cf))
    def k(c):
        helpers(c)
        bs_poses, cf_poses = system(c, n_bs, n_cf)
        c.float('factor')
        names = ['bs%d' % i for i in range(n_bs)] + ['cf%d' % i for i in range(n_cf)]
        remember(c, names)
        c.call((c.cls(SCALER), '_scale_system'), bs_poses, cf_poses, c.get('factor'))
        c.ensure('no-exception', 'raised is None')
        c.ensure('factor-returned', 'result[2] == factor')
        check_scaled(c, n_bs, n_cf, 'factor')
        check_system_frame(c, n_bs, n_cf)
    return k


for _s in SIZES:
    _scale_system(*_s)


@contract('C16', '_scale_system.twice', [SCALER + '._scale_system', POSE + '.scale'], float_mode='R',
          clause=CL_SCALE + ' [history: the same input system scaled twice gives two independent answers]',
          bounded='two base stations and one Crazyflie pose, two consecutive calls on the same inputs')
def scale_twice(c):
    helpers(c)
    bs_poses, cf_poses = system(c, 2, 1)
    c.float('f1'), c.float('f2')
    c.call((c.cls(SCALER), '_scale_system'), bs_poses, cf_poses, c.get('f1'))
    c.let('first', c.get('result'))
    c.call((c.cls(SCALER), '_scale_system'), bs_poses, cf_poses, c.get('f2'))
    c.ensure('no-exception', 'raised is None')
    check_scaled(c, 2, 1, 'f2')
    c.ensure('first-answer-still-valid', 'first[0][IDS[0]].translation.tolist() == [f1 * x for x in bs0_t] and '
                                         'first[0][IDS[1]].translation.tolist() == [f1 * x for x in bs1_t] and '
                                         'first[1][0].translation.tolist() == [f1 * x for x in cf0_t]')


# ------------------------------------------------------------------------- scale_fixed_point

def _fixed_point(n_bs, n_cf, kind):
    @contract('C16', 'scale_fixed_point.bs%d.cf%d.%s' % (n_bs, n_cf, kind),
              [SCALER + '.scale_fixed_point', SCALER + '._scale_system', POSE + '.scale'], float_mode='R',
              clause=CL_SCALE + ' [fixed point: |factor * actual position| == |expected position|, factor >= 0; reference '
                                'position given as %s]' % kind,
              bounded=BOUND % (n_bs, n_cf))
    def k(c):
        helpers(c)
        bs_poses, cf_poses = system(c, n_bs, n_cf)
        actual = pose(c, 'actual')
        exp = c.floats('expected', 3, kind='list' if kind == 'list' else 'tuple')
        if kind == 'ndarray':
            exp = c.snapshot('expected_arr', 'LT.np.array(expected)')
        else:
            c.let('expected_arr', exp)
        c.snapshot('expected_vals', 'tuple(expected)')
        c.require('sumsq(actual_t) > 0')        # a reference point at the origin of the estimated system defines no scale
        names = ['bs%d' % i for i in range(n_bs)] + ['cf%d' % i for i in range(n_cf)] + ['actual']
        remember(c, names)
        c.call((c.cls(SCALER), 'scale_fixed_point'), bs_poses, cf_poses, exp, actual)
        c.ensure('no-exception', 'raised is None')
        c.snapshot('f', 'result[2]')
        c.ensure('factor-non-negative', 'f >= 0')
        c.ensure('factor-makes-reference-distance-correct', 'f * f * sumsq(actual_t) == sumsq(expected)')
        check_scaled(c, n_bs, n_cf, 'f')
        check_system_frame(c, n_bs, n_cf)
        check_pose_frame(c, ['actual'])
        c.ensure('expected-not-modified', 'list(expected_arr) == list(expected_vals) and list(expected) == list(expected_vals)')
    return k


for _s in SIZES:
    _fixed_point(_s[0], _s[1], 'tuple')
_fixed_point(2, 1, 'list')
_fixed_point(2, 1, 'ndarray')


# ------------------------------------------------------------------------- scale_diagonals

def _diagonals(n_bs, n_cf):
    @contract('C16', 'scale_diagonals.bs%d.cf%d' % (n_bs, n_cf),
              [SCALER + '.scale_diagonals', SCALER + '._scale_system', POSE + '.scale'], float_mode='R',
              clause=CL_SCALE + ' [sensor diagonal: factor * estimated mean diagonal == expected diagonal; the estimate is '
                                'taken once, from the system being scaled (own contract: _calculate_mean_diagonal.*)]',
              bounded=BOUND % (n_bs, n_cf))
    def k(c):
        helpers(c)
        bs_poses, cf_poses = system(c, n_bs, n_cf)
        c.float('estimated'), c.float('expected_diagonal')
        c.require('estimated != 0')
        est = c.snapshot('est', 'LT.np.float64(estimated)')         # np.mean returns a numpy scalar
        samples = c.list([c.ext('sample%d' % i) for i in range(n_cf)])
        c.let('samples', samples)
        c.patch(SCALER + '._calculate_mean_diagonal', c.ext('mean_diag', returns={'()': est}))
        names = ['bs%d' % i for i in range(n_bs)] + ['cf%d' % i for i in range(n_cf)]
        remember(c, names)
        c.call((c.cls(SCALER), 'scale_diagonals'), bs_poses, cf_poses, samples, c.get('expected_diagonal'))
        c.ensure('no-exception', 'raised is None')
        c.ensure('estimate-taken-once-from-the-inputs',
                 'len(trace) == 1 and trace[0][0] == "mean_diag" and len(trace[0][1]) == 3 and trace[0][1][0] is bs_poses '
                 'and trace[0][1][1] is cf_poses and trace[0][1][2] is samples and len(trace[0][2]) == 0')
        c.snapshot('f', 'result[2]')
        c.ensure('factor-makes-diagonal-correct', 'f * estimated == expected_diagonal')
        check_scaled(c, n_bs, n_cf, 'f')
        check_system_frame(c, n_bs, n_cf)
    return k


for _s in SIZES:
    _diagonals(*_s)


# ------------------------------------------------------------------------- _calculate_mean_diagonal

def seq_returns(values):
    it = iter(values)
    return lambda *_a: next(it)


def _mean_diagonal(n_cf, n_bs):
    n = 2 * n_cf * n_bs

    @contract('C16', '_calculate_mean_diagonal.cf%d.bs%d' % (n_cf, n_bs), [SCALER + '._calculate_mean_diagonal'], float_mode='R',
              clause='the estimated sensor diagonal is the mean, over all samples and the base stations seen in them, of the '
                     'distances between the deck intersections of the rays to sensors 0 and 3 and to sensors 1 and 2, for '
                     'the base-station pose of that id and the Crazyflie pose of that sample',
              bounded='%d sample(s) each seeing %d base station(s)' % (n_cf, n_bs))
    def k(c):
        helpers(c)
        bs_poses, cf_poses = system(c, n_bs, n_cf)
        d = c.floats('d', n, kind='tuple')
        c.let('dists', tuple(d))
        vec = [[tuple(c.ext('v_%d_%d_%d' % (s, b, j)) for j in range(4)) for b in range(n_bs)] for s in range(n_cf)]
        c.let('VEC', tuple(tuple(v) for v in vec))
        samples = [c.new(LT + ':LhCfPoseSample', 0.0, c.dict([(BS_IDS[b], vec[s][b]) for b in range(n_bs)])) for s in range(n_cf)]
        c.patch(SCALER + '.calc_intersection_distance',
                c.ext('dist', returns={'()': seq_returns([c.snapshot('_d', 'LT.np.float64(dists[%d])' % i) for i in range(n)])}))
        c.call((c.cls(SCALER), '_calculate_mean_diagonal'), bs_poses, cf_poses, c.list(samples))
        c.ensure('no-exception', 'raised is None')
        c.ensure('one-distance-per-diagonal', 'len(trace) == %d and all(e[0] == "dist" and len(e[2]) == 0 for e in trace)' % n)
        i = 0
        for s in range(n_cf):
            for b in range(n_bs):
                for (p, q) in ((0, 3), (1, 2)):
                    c.ensure('call%d-sample%d-bs%d-sensors-%d-%d' % (i, s, b, p, q),
                             'len(trace[%d][1]) == 4 and trace[%d][1][0] is VEC[%d][%d][%d] and trace[%d][1][1] is VEC[%d][%d][%d] '
                             'and trace[%d][1][2] is BS[%d] and trace[%d][1][3] is CF[%d]' % (i, i, s, b, p, i, s, b, q, i, b, i, s))
                    i += 1
        c.ensure('mean-of-the-distances', 'result * %d == %s' % (n, ' + '.join('dists[%d]' % j for j in range(n))))
    return k


for _s in ((1, 1), (1, 2), (2, 1), (2, 2)):
    _mean_diagonal(*_s)


# ------------------------------------------------------------------------- intersection geometry: homogeneity

@contract('C16', 'calc_intersection_point.homogeneous', [SCALER + '.calc_intersection_point', POSE + '.scale'], float_mode='R',
          clause='scaling the base-station and Crazyflie positions by s scales the ray/deck intersection point by s (so the '
                 'estimated diagonal scales by |s| and factor = expected / estimated corrects it)',
          ob_timeout_ms=60000)
def intersection_homogeneous(c):
    helpers(c)
    bs, cf = pose(c, 'bs'), pose(c, 'cf')
    c.floats('cart', 3, kind='tuple')
    c.float('s')
    vector = c.ext('vector', attrs={'cart': c.snapshot('cart_arr', 'LT.np.array(cart)')})
    # the ray is not parallel to the deck plane (otherwise numpy divides by zero: inf/nan, no intersection)
    c.require('LT.np.dot(LT.np.dot(bs.rot_matrix, cart), LT.np.dot(cf.rot_matrix, (0.0, 0.0, 1.0))) != 0')
    c.call((c.cls(SCALER), 'calc_intersection_point'), vector, bs, cf)
    c.ensure('no-exception', 'raised is None')
    c.let('p1', c.get('result'))
    c.call((bs, 'scale'), c.get('s'))
    c.call((cf, 'scale'), c.get('s'))
    c.call((c.cls(SCALER), 'calc_intersection_point'), vector, bs, cf)
    c.ensure('no-exception-scaled', 'raised is None')
    for i in range(3):
        c.ensure('component-%d-scaled' % i, 'result[%d] == s * p1[%d]' % (i, i))


# ------------------------------------------------------------------------- deck constants

@contract('C16', 'LhDeck4SensorPositions.diagonal', [LT + ':LhDeck4SensorPositions'], float_mode='R',
          clause='the sensor diagonal used as scaling reference is the distance between the diagonal sensor pairs (0,3) and (1,2) '
                 'of the deck sensor positions')
def deck_constants(c):
    helpers(c)
    c.let('K', c.cls(LT + ':LhDeck4SensorPositions'))
    c.snapshot('P', 'K.positions.tolist()')
    c.snapshot('dd', 'K.diagonal_distance * K.diagonal_distance')
    c.ensure('four-sensors-in-the-deck-plane', 'len(P) == 4 and all(len(p) == 3 and p[2] == 0 for p in P)')
    c.ensure('positive', 'K.diagonal_distance > 0')
    c.ensure('diagonal-0-3', 'abs(dd - sumsq([P[0][i] - P[3][i] for i in range(3)])) <= 1e-12')
    c.ensure('diagonal-1-2', 'abs(dd - sumsq([P[1][i] - P[2][i] for i in range(3)])) <= 1e-12')
    c.ensure('centred', 'all(abs(P[0][i] + P[3][i]) <= 1e-12 and abs(P[1][i] + P[2][i]) <= 1e-12 for i in range(3))')


# ------------------------------------------------------------------------- align: one transformation for all

def points(c, name, n):
    pts = [c.floats('%s%d' % (name, i), 3, kind='tuple') for i in range(n)]
    c.let(name, c.list(pts))
    c.let(name + '_pts', tuple(pts))
    return c.get(name)


def bounded_inputs(c, names):
    """|coordinate| <= 10 (metres; matrix entries: every rotation matrix has entries in [-1, 1]): keeps the native
    replay of a counterexample well inside the 1e-9 tolerance of the post-conditions"""
    for n in names:
        c.require('all(-10 <= x <= 10 for x in %s)' % n)


def _align(n_bs, n_x, n_p):
    @contract('C16', 'align.one_transformation.bs%d.x%d.p%d' % (n_bs, n_x, n_p),
              [ALIGNER + '.align', ALIGNER + '._de_flip_transformation', POSE + '.rotate_translate_pose',
               POSE + '.rotate_translate'], float_mode='R',
              clause=CL_ALIGN + ' [the ONE transformation that is returned is applied to every base station: out.R == T.R . in.R, '
                                'out.t == T.R . in.t + T.t; _find_transformation (least squares) under a stub returning an '
                                'arbitrary pose]',
              bounded='%d base station(s), %d x-axis and %d plane sample(s)' % (n_bs, n_x, n_p))
    def k(c):
        helpers(c)
        bs_poses, _ = system(c, n_bs, 0)
        raw = pose(c, 'raw')
        c.floats('origin', 3, kind='tuple')
        x_axis, xy_plane = points(c, 'x_axis', n_x), points(c, 'xy_plane', n_p)
        for i in range(n_bs):
            bounded_inputs(c, ['bs%d_t' % i] + ['bs%d_R[%d]' % (i, r) for r in range(3)])
        bounded_inputs(c, ['raw_t', 'origin'] + ['raw_R[%d]' % r for r in range(3)] + ['x_axis_pts[%d]' % i for i in range(n_x)])
        c.patch(ALIGNER + '._find_transformation', c.ext('find', returns={'()': raw}))
        names = ['bs%d' % i for i in range(n_bs)] + ['raw']
        remember(c, names)
        c.call((c.cls(ALIGNER), 'align'), c.get('origin'), x_axis, xy_plane, bs_poses)
        c.ensure('no-exception', 'raised is None')
        c.ensure('least-squares-consulted-once-with-the-samples',
                 'len(trace) == 1 and trace[0][0] == "find" and len(trace[0][1]) == 3 and trace[0][1][0] == origin and '
                 'trace[0][1][1] is x_axis and trace[0][1][2] is xy_plane and len(trace[0][2]) == 0')
        c.ensure('result-shape', 'isinstance(result, tuple) and len(result) == 2 and isinstance(result[0], dict) and '
                                 'typename(result[1]) == "Pose"')
        c.ensure('same-base-stations', 'len(result[0]) == len(IDS) and all(k in result[0] for k in IDS)')
        c.snapshot('TR', 'result[1].rot_matrix.tolist()')
        c.snapshot('Tt', 'result[1].translation.tolist()')
        for i in range(n_bs):
            c.snapshot('out', 'result[0][IDS[%d]]' % i)
            c.ensure('bs%d-is-a-new-pose' % i, 'typename(out) == "Pose" and out is not bs%d' % i)
            c.ensure('bs%d-translation-transformed' % i, 'near(out.translation.tolist(), apply(TR, Tt, bs%d_t))' % i)
            c.ensure('bs%d-rotation-transformed' % i, 'near2(out.rot_matrix.tolist(), matmul(TR, bs%d_R))' % i)
        c.ensure('input-containers-not-modified', 'list(bs_poses.items()) == list(zip(IDS, BS)) and '
                                                  'list(x_axis) == list(x_axis_pts) and list(xy_plane) == list(xy_plane_pts)')
        check_pose_frame(c, names)
    return k


for _s in ((1, 1, 1), (2, 1, 1), (2, 2, 2), (3, 1, 2)):
    _align(*_s)


# ------------------------------------------------------------------------- rigidity of one transformation

@contract('C16', 'Pose.rotate_translate_pose.isometry', [POSE + '.rotate_translate_pose'], float_mode='R',
          clause='applying one transformation T to two poses changes their squared distance by exactly d^T (T.R^T T.R - I) d '
                 '(d the difference of the input positions) and their relative orientation a.R^T b.R by a.R^T (T.R^T T.R - I) b.R: '
                 'nothing when T.R is orthonormal (with align.one_transformation.*: distances and relative orientations between '
                 'base stations are preserved by a rigid transformation)')
def isometry(c):
    helpers(c)
    T, a, b = pose(c, 'T'), pose(c, 'a'), pose(c, 'b')
    c.call((T, 'rotate_translate_pose'), a)
    c.ensure('no-exception-a', 'raised is None')
    c.let('a2', c.get('result'))
    c.call((T, 'rotate_translate_pose'), b)
    c.ensure('no-exception-b', 'raised is None')
    c.let('b2', c.get('result'))
    c.snapshot('d_in', '[a_t[i] - b_t[i] for i in range(3)]')
    c.snapshot('d_out', '[a2.translation.tolist()[i] - b2.translation.tolist()[i] for i in range(3)]')
    c.snapshot('G', '[[T_R[0][k] * T_R[0][l] + T_R[1][k] * T_R[1][l] + T_R[2][k] * T_R[2][l] - (1 if k == l else 0) for l in range(3)] '
                    'for k in range(3)]')          # T.R^T T.R - I  (zero iff T.R is orthonormal)
    c.ensure('distance-change-is-the-quadratic-form-of-RtR-minus-I',
             'sumsq(d_out) - sumsq(d_in) == sum(d_in[k] * d_in[l] * G[k][l] for k in range(3) for l in range(3))')
    c.snapshot('Ra2', 'a2.rot_matrix.tolist()')
    c.snapshot('Rb2', 'b2.rot_matrix.tolist()')
    for i in range(3):
        # relative orientation a.R^T b.R: changes by a.R^T (T.R^T T.R - I) b.R
        c.ensure('relative-orientation-change-row-%d' % i,
                 'all(sum(Ra2[k][%d] * Rb2[k][j] for k in range(3)) - sum(a_R[k][%d] * b_R[k][j] for k in range(3)) == '
                 'sum(a_R[k][%d] * G[k][l] * b_R[l][j] for k in range(3) for l in range(3)) for j in range(3))' % (i, i, i))


# ------------------------------------------------------------------------- de-flip

def _de_flip(n_bs, n_x):
    @contract('C16', '_de_flip_transformation.bs%d.x%d' % (n_bs, n_x),
              [ALIGNER + '._de_flip_transformation', POSE + '.rotate_translate_pose', POSE + '.rotate_translate',
               POSE + '.from_rot_vec'], float_mode='R',
              clause=CL_ALIGN + ' [de-flip: result == S . raw with S = diag(sx, sx*sz, sz), sx = -1 iff raw maps the mean x-axis '
                                'sample to X < 0, sz = -1 iff raw maps the first base station to Z < 0; applied after raw, so the '
                                'origin / X axis / plane Z=0 of the raw solution are kept and the signs are corrected]',
              bounded='%d base station(s), %d x-axis sample(s)' % (n_bs, n_x))
    def k(c):
        helpers(c)
        bs_poses, _ = system(c, n_bs, 0)
        raw = pose(c, 'raw')
        x_axis = points(c, 'x_axis', n_x)
        c.floats('probe', 3, kind='tuple')
        c.floats('origin', 3, kind='tuple')
        for i in range(n_bs):
            bounded_inputs(c, ['bs%d_t' % i])
        bounded_inputs(c, ['raw_t', 'probe', 'origin'] + ['raw_R[%d]' % r for r in range(3)] + ['x_axis_pts[%d]' % i for i in range(n_x)])
        names = ['bs%d' % i for i in range(n_bs)] + ['raw']
        remember(c, names)
        c.call((c.cls(ALIGNER), '_de_flip_transformation'), raw, x_axis, bs_poses)
        c.ensure('no-exception', 'raised is None')
        c.ensure('result-is-a-pose', 'typename(result) == "Pose"')
        c.snapshot('FR', 'result.rot_matrix.tolist()')
        c.snapshot('Ft', 'result.translation.tolist()')
        c.snapshot('xmean', '[(%s) / %d for k in range(3)]' % (' + '.join('x_axis_pts[%d][k]' % i for i in range(n_x)), n_x))
        c.snapshot('sx', '-1.0 if apply(raw_R, raw_t, xmean)[0] < 0 else 1.0')
        c.snapshot('sz', '-1.0 if apply(raw_R, raw_t, bs0_t)[2] < 0 else 1.0')
        c.snapshot('S', '(sx, sx * sz, sz)')
        c.snapshot('rp', 'apply(raw_R, raw_t, probe)')
        c.snapshot('fp', 'apply(FR, Ft, probe)')
        for i in range(3):
            c.ensure('flip-applied-after-raw-%s' % 'xyz'[i], 'abs(fp[%d] - S[%d] * rp[%d]) <= 1e-9' % (i, i, i))
        c.ensure('proper-rotation-stays-proper', 'implies(orthonormal(raw_R), orthonormal(FR)) and det(FR) == det(raw_R)')
        c.ensure('x-axis-samples-on-positive-side', 'apply(FR, Ft, xmean)[0] >= -1e-9')
        c.ensure('first-base-station-above-floor', 'apply(FR, Ft, bs0_t)[2] >= -1e-9')
        c.snapshot('ro', 'apply(raw_R, raw_t, origin)')
        c.snapshot('fo', 'apply(FR, Ft, origin)')
        c.ensure('origin-kept', 'implies(ro[0] == 0 and ro[1] == 0 and ro[2] == 0, all(abs(v) <= 1e-9 for v in fo))')
        c.ensure('x-axis-kept', 'implies(ro[1] == 0 and ro[2] == 0, abs(fo[1]) <= 1e-9 and abs(fo[2]) <= 1e-9)')
        c.ensure('floor-plane-kept', 'implies(ro[2] == 0, abs(fo[2]) <= 1e-9)')
        c.ensure('input-containers-not-modified', 'list(bs_poses.items()) == list(zip(IDS, BS)) and list(x_axis) == list(x_axis_pts)')
        check_pose_frame(c, names)
    return k


for _s in ((1, 1), (2, 2), (3, 3)):
    _de_flip(*_s)


# ------------------------------------------------------------------------- align end to end: BOUNDED ONLY (never counted as proved)

@contract('C16', 'align.end-to-end.sampled', [ALIGNER + '.align', ALIGNER + '._find_transformation', ALIGNER + '._calc_residual',
                                             ALIGNER + '._de_flip_transformation'],
          clause=CL_ALIGN + ' [whenever the initial misalignment is below 30 degrees and 3 m: the REAL align() with the real scipy least-squares '
                            'solver, exact reference points]',
          bounded_only=True, samples={'quick': 1500, 'thorough': 20000},
          bounded='_find_transformation is scipy.optimize.least_squares on numpy code - outside the verifier; seeded boundary/random sampling of: '
                  'misalignment angle 0..29.99 degrees about any axis, offset 0..3 m in any direction, 1..3 x-axis and 1..3 plane reference '
                  'points (exact, at least 0.2 m from the origin / 0.3 m off the X axis), two base stations 1.5..4 m above the floor; '
                  'tolerance 1e-5 m / 1e-5 on rotation-matrix entries')
def align_end_to_end(c):
    """native only: the body uses numpy directly (the symbolic back end never runs a bounded_only contract)"""
    import warnings
    import numpy as np
    ang = c.int('angle_cdeg', 0, 2999)
    axis = [c.int('axis%d' % i, -100, 100) for i in range(3)]
    odir = [c.int('odir%d' % i, -100, 100) for i in range(3)]
    omag = c.int('offset_mm', 0, 3000)
    n_x, n_p = c.choice('n_x', [1, 2, 3]), c.choice('n_p', [1, 2, 3])
    xs = [c.int('x%d' % i, 200, 3000) for i in range(n_x)]
    pl = [(c.int('pa%d' % i, -3000, 3000), c.int('pb%d' % i, 300, 3000) * (1 if c.bool('pside%d' % i) else -1)) for i in range(n_p)]
    bs = [([c.int('bs%d_r%d' % (b, i), -3000, 3000) for i in range(3)],
           [c.int('bs%d_x' % b, -4000, 4000), c.int('bs%d_y' % b, -4000, 4000), c.int('bs%d_z' % b, 1500, 4000)]) for b in range(2)]
    c.require('any(a != 0 for a in (axis0, axis1, axis2)) and any(a != 0 for a in (odir0, odir1, odir2))')
    Pose = c.cls(POSE)
    ax = np.array(axis, dtype=float)
    ax /= np.linalg.norm(ax)
    od = np.array(odir, dtype=float)
    od /= np.linalg.norm(od)
    M = Pose.from_rot_vec(R_vec=ax * np.radians(ang / 100.0), t_vec=od * (omag / 1000.0))     # real world -> solved frame
    true_bs = {BS_IDS[b]: Pose.from_rot_vec(R_vec=np.array(r) / 1000.0, t_vec=np.array(t) / 1000.0) for b, (r, t) in enumerate(bs)}
    origin = M.rotate_translate((0.0, 0.0, 0.0))
    x_axis = [M.rotate_translate((x / 1000.0, 0.0, 0.0)) for x in xs]
    xy_plane = [M.rotate_translate((a / 1000.0, b / 1000.0, 0.0)) for a, b in pl]
    bs_poses = {i: M.rotate_translate_pose(p) for i, p in true_bs.items()}
    with warnings.catch_warnings():
        warnings.simplefilter('ignore')
        c.call((c.cls(ALIGNER), 'align'), origin, x_axis, xy_plane, bs_poses)
    c.ensure('no-exception', 'raised is None')
    if c.get('raised') is not None:
        return
    aligned, T = c.get('result')
    R = np.array(T.rot_matrix)
    c.let('rigid_err', float(max(np.abs(R.T @ R - np.eye(3)).max(), abs(np.linalg.det(R) - 1.0))))
    c.let('origin_err', float(np.abs(T.rotate_translate(origin)).max()))
    xq = [T.rotate_translate(p) for p in x_axis]
    c.let('x_axis_err', float(max(np.abs(q[1:]).max() for q in xq)))
    c.let('x_axis_min_x', float(min(q[0] for q in xq)))
    c.let('plane_err', float(max(abs(T.rotate_translate(p)[2]) for p in xy_plane)))
    c.let('bs_min_z', float(min(aligned[i].translation[2] for i in true_bs)))
    c.let('bs_err', float(max(max(np.abs(aligned[i].translation - true_bs[i].translation).max(),
                                  np.abs(aligned[i].rot_matrix - true_bs[i].rot_matrix).max()) for i in true_bs)))
    c.ensure('one-proper-rigid-transformation', 'rigid_err <= 1e-9')
    c.ensure('origin-sample-maps-to-origin', 'origin_err <= 1e-5')
    c.ensure('x-axis-samples-on-the-positive-x-axis', 'x_axis_err <= 1e-5 and x_axis_min_x > 0')
    c.ensure('plane-samples-in-z-0', 'plane_err <= 1e-5')
    c.ensure('base-stations-above-the-floor-at-their-true-poses', 'bs_min_z > 0 and bs_err <= 1e-5')
