"""C19 - swarm actions run once per Crazyflie with the right arguments and error report.

What is decided here (functions of cflib/crazyflie/swarm.py, plus SyncCrazyflie for one integrated contract):

  init.*                 Swarm.__init__: one member per URI, built by factory.construct(uri), in the order of the URIs
  process_args_dict.*    Swarm._process_args_dict: [scf] followed by the member's own entry of the argument dictionary
  reporter               Swarm.Reporter: a fresh reporter holds no error; errors are kept in report order; two reporters
                         never share state
  thread_function_wrapper.*  the per-member thread body calls func(*args[2:]) exactly once; an Exception is appended to
                         the reporter and does not escape
  sequential.*           one action per member, one at a time, in the order of the URIs, with the member's arguments
  parallel_safe.*        over ALL schedules of the member threads and ALL subsets of failing actions: every action runs
                         exactly once with its member's connection and arguments, all of them have finished when the call
                         returns, it raises iff at least one action raised, and the raised Exception chains one of the
                         errors raised by THIS call (history contracts `parallel_safe.twice.*`: not an error of an earlier
                         call or of another swarm)
  parallel.*             the same, and never raises
  open_links.*           every link opened once; failure of any subset => every link closed once, after every open attempt
                         has finished, the swarm is not open and the failure is raised (chained); success => swarm open,
                         nothing closed; `open_links.twice`: a second open raises and touches no link
  open_links.sync.*      the same with REAL SyncCrazyflie members over stub Crazyflie objects: after a failed open no
                         member link is left open
  close_links.* / context-manager   every link closed once in order; `with Swarm(..)` opens and closes

  (extension round)
  init.order / sequential.order   every order in which three URIs can be given (the fixed URIS are neither ascending nor descending)
  factory.default / factory.cached   _Factory / CachedCfFactory: one connection and one Crazyflie of its own per URI; opening member i
                         connects exactly its own Crazyflie to its own URI
  parallel*.overlapping-actions.*   explicit schedule in which the actions really overlap in time (stack-like pre-emption of every action
                         by the next member's whole thread body) - see nested_threads
  parallel_safe.overlapping-calls.*   two swarm-wide calls on one swarm that overlap in time (the second is made from inside an action
                         of the first): each call reports its own errors only
  open_links.sync.retry  history: failed open_links, then a successful one, then a refused one (real SyncCrazyflie members); a link
                         fails by connection_failed or by a disconnected before the connection was established
  get_estimated_positions.* / reset_estimators.real-wait.* / wait_for_position_estimator*   the library's own swarm-wide actions over the
                         REAL SyncLogger (stub Crazyflie / LogConfig): once per member, on that member's Crazyflie, logging removed
                         before return, raise iff a member failed, positions = first sample of the member's own Crazyflie
  parallel_safe.missing-entry.n2   thorough tier, RED on the unchanged tree (candidate finding): a dictionary without the entry of a later
                         member ends the call with KeyError while the threads of the earlier members are not joined
  *.n4.failing-<subset>  thorough tier: swarm size 4, one contract per subset of failing members, every schedule (1270 each)

Thread model (assumption of the design section: "Thread(target=f,args=a).start(); join() runs f(*a) exactly once and
completes before join returns; list.append is atomic"): c.model_threads replaces threading.Thread in both back ends by a
model whose target runs atomically at a scheduler-chosen point between start() and the return of join(); the symbolic
back end explores every such schedule (every order of the thread bodies, every placement relative to the main thread's
start()/join() calls), the native back end replays the chosen schedule deterministically.

NOT covered (and why):
  * arbitrary pre-emption INSIDE a thread body: beyond the atomic bodies only the stack-like overlap of the actions is run
    (overlapping-actions: action i is pre-empted on entry by the whole body of the next thread).  A pre-emption between two
    statements of Reporter.report_error (flag store, list.append - both atomic under the GIL, assumption) cannot be
    scheduled through a stub because nothing external is called there; real OS threads / timing are never run;
  * swarm sizes above 4 for the threaded calls (3 in the quick tier; 6 for __init__ / sequential / close_links) and argument lists
    longer than 3 (bounded, see `bounded=` of each contract): the member loops iterate a dictionary of members, for which the
    engine has no loop-invariant rule (only `while` and `for .. in range`), so the size stays enumerated;
  * URIs are fixed concrete distinct strings (the code only hashes/compares them); duplicate URIs only for __init__; the URIs given
    as a set (iteration order chosen by the interpreter) are not passed in - every order of a list/tuple of three is;
  * actions raising a BaseException that is not an Exception (SystemExit, KeyboardInterrupt): such an error is not reported by the
    member thread, parallel_safe does not raise - outside the failure model of the property as read here;
  * close_link of a member raising during the clean-up of a failed open_links (the remaining links are then not closed): SyncCrazyflie's
    close_link does not raise in the modelled environment;
  * sequential() with a failing action: the property gives no error rule; the code behaviour (abort at the first
    failing member) is recorded in `sequential.failing-action.n3`;
  * the variance sequences of wait_for_position_estimator are concrete (plus one contract with symbolic constant levels); SyncLogger and
    LogConfig themselves are under contract in C05;
  * SyncCrazyflie.is_params_updated / wait_for_params: not used by Swarm; under contract in C02.
"""
from pyvc.api import contract

SWM = 'cflib.crazyflie.swarm'
SCF = 'cflib.crazyflie.syncCrazyflie'
# the given order is deliberately neither ascending nor descending (an implementation that sorts the URIs, or iterates a set of them,
# does not keep "the iteration order of the given URIs"); members 3.. are only used by the larger (mostly thorough-tier) sizes
URIS = ['radio://0/80/2M/E7E7E7E702', 'radio://0/80/2M/E7E7E7E701', 'radio://0/80/2M/E7E7E7E703',
        'radio://1/40/1M/E7E7E7E7E0', 'usb://0', 'radio://0/80/2M/E7E7E7E700']
ARGLENS = [2, 0, 1, 3, 1, 2]          # length of the argument-dictionary entry of member i
ACT_EXC = ['RuntimeError', 'Exception', 'KeyError', 'ValueError', 'OSError', 'RuntimeError']   # class of the error raised by member i's action

P_ONCE = ('a swarm-wide action runs exactly once per Crazyflie, receiving that Crazyflie\'s connection as first argument '
          'followed by its own entry of the argument dictionary')
P_SEQ = P_ONCE + '; sequential actions run one at a time in the iteration order of the given URIs'
P_PAR = P_ONCE + '; parallel_safe returns only after every action has finished and raises iff at least one action raised, chaining one of the raised errors'
P_OPEN = 'if opening any link fails, every link is closed again and the failure is raised; a swarm cannot be opened twice'
B_N = 'swarm size %d (sizes 0..3 enumerated, 4 in the thorough tier); argument-dictionary entries of length 2, 0, 1, 3; fixed distinct URIs'
B_SMALL = 'swarm size %d (sizes 0..4 enumerated, 6 in the thorough tier); argument-dictionary entries of length 2, 0, 1, 3, 1, 2; fixed distinct URIs'


def decide(I, v):
    """branch on a contract input inside a stub body: forks symbolically (I = interpreter), concrete natively (I = None)"""
    return bool(v) if (I is None or isinstance(v, bool)) else I.decide(v)


def make_factory(c, n, uris=None, members=None):
    """a stub factory that hands out the member stubs scf0..scf<n-1> in construction order"""
    uris = URIS[:n] if uris is None else uris
    scfs = members if members is not None else [c.ext('scf%d' % i) for i in range(len(uris))]
    it = iter(scfs)
    factory = c.ext('factory', returns={'construct': lambda *_a: next(it)})
    c.let('uris', list(uris))
    return factory, uris, scfs


def new_swarm(c, n, members=None):
    """a Swarm built by its REAL constructor"""
    factory, uris, scfs = make_factory(c, n, members=members)
    swarm = c.new(SWM + ':Swarm', c.list(uris), factory)
    c.let('swarm', swarm)
    c.reset_trace()
    return swarm, uris, scfs


def args_dict(c, n, uris, prefix='a', kind='list'):
    """argument dictionary with one list (or tuple) of symbolic ints per member; registers a<i> in the spec namespace"""
    lists = [c.ints('%s%d' % (prefix, i), ARGLENS[i], kind=kind) for i in range(n)]
    return c.dict([(uris[i], lists[i]) for i in range(n)]), lists


def expected_args(i, prefix='a'):
    """spec text of the tuple the action of member i must receive"""
    return '(scf%d, %s)' % (i, ''.join('%s%d[%d], ' % (prefix, i, j) for j in range(ARGLENS[i])))


def action_stub(c, scfs, name='action', tag='act', failing=True, fails=None, classes=ACT_EXC):
    """the swarm-wide action: a recording stub; member i's invocation raises ACT_EXC[i]('<tag>:<i>') iff <tag>_fail<i> (different
    Exception classes, so that an implementation that only reports some classes of errors is seen)"""
    if fails is None:
        fails = [c.bool('%s_fail%d' % (tag, i)) for i in range(len(scfs))] if failing else []

    def body(I, args, kwargs):
        if not failing:
            return None
        i = [k for k, s in enumerate(scfs) if s is args[0]][0]
        if decide(I, fails[i]):
            c.raiser(classes[i], '%s:%d' % (tag, i))()
    return c.ext(name, returns={'()': body})


def any_fail(n, tag='act'):
    return '(%s)' % (' or '.join('%s_fail%d' % (tag, i) for i in range(n)) or 'False')


def cause_is_raised_here(n, tag='act', cls=None):
    """the chained error is the error raised by a member that failed in this call (member i's action raises ACT_EXC[i])"""
    return '(%s)' % (' or '.join("(%s_fail%d and isinstance(exc.__cause__, %s) and exc.__cause__.args == ('%s:%d',))"
                                 % (tag, i, cls or ACT_EXC[i], tag, i) for i in range(n)) or 'False')


def ensure_each_action_once(c, n, name='action', prefix='a', with_args=True):
    c.let('ACT', name)
    c.ensure('exactly-one-action-per-member', 'len(sent(ACT)) == %d' % n)
    for i in range(n):
        want = expected_args(i, prefix) if with_args else '(scf%d,)' % i
        c.ensure('member-%d-action-once-with-its-connection-and-arguments' % i,
                 '[(e[1], e[2]) for e in sent(ACT) if len(e[1]) > 0 and e[1][0] is scf%d] == [(%s, {})]' % (i, want))


def ensure_threads(c, n, name='action', prefix='a', with_args=True):
    """one thread per member, started once, run to completion and joined before the call returned"""
    c.ensure('one-thread-per-member', 'len(sent("Thread")) == %d' % n)
    if len([e for e in c.get('trace') if e[0] == 'Thread']) == n:
        for i in range(n):
            c.snapshot('th', 'sent("Thread")[%d][2]' % i)
            want = ('[%s]' % expected_args(i, prefix)[1:-1]) if with_args else '[scf%d]' % i
            c.ensure('thread-%d-target-and-args' % i,
                     "th['target'] == swarm._thread_function_wrapper and th['args'][0] is %s and "
                     "typename(th['args'][1]) == 'Reporter' and th['args'][1] is sent('Thread')[0][2]['args'][1] and "
                     "list(th['args'][2:]) == %s" % (name, want))
    for i in range(n):
        c.ensure('thread-%d-started-once-ran-once-finished-and-joined-before-return' % i,
                 ' and '.join("calls('thread!%d.').count('thread!%d.%s') %s" % (i, i, ev, cnt)
                              for ev, cnt in (('start', '== 1'), ('run', '== 1'), ('end', '== 1'), ('join', '>= 1'), ('uncaught', '== 0'))))


# ------------------------------------------------------------------------- __init__

def _init(n, **opts):
    @contract('C19', 'init.n%d' % n, [SWM + ':Swarm.__init__'],
              clause='the swarm has exactly one member per given URI, constructed by the factory from that URI, kept in the '
                     'iteration order of the given URIs, and is not open', bounded=B_SMALL % n, **opts)
    def k(c):
        factory, uris, scfs = make_factory(c, n)
        c.call(SWM + ':Swarm', c.list(uris), factory)
        c.ensure('no-exception', 'raised is None')
        c.ensure('one-construct-per-uri-in-order', '[e[1] for e in sent("factory.construct")] == [(u,) for u in uris] and len(trace) == %d' % n)
        c.ensure('members-keyed-by-uri-in-order', 'list(result._cfs.keys()) == uris')
        for i in range(n):
            c.ensure('member-%d-is-the-constructed-connection' % i, 'list(result._cfs.values())[%d] is scf%d' % (i, i))
        c.ensure('not-open', 'result._is_open is False')
    return k


for _n in (0, 1, 2, 3):
    _init(_n)


@contract('C19', 'init.duplicate-uri', [SWM + ':Swarm.__init__'],
          clause='a URI given twice yields ONE member (no action can run twice on one Crazyflie); order = first occurrence')
def init_dup(c):
    factory, uris, scfs = make_factory(c, 3, uris=[URIS[0], URIS[1], URIS[0]])
    c.call(SWM + ':Swarm', c.list(uris), factory)
    c.ensure('no-exception', 'raised is None')
    c.ensure('two-members-in-first-occurrence-order', 'list(result._cfs.keys()) == [uris[0], uris[1]]')
    c.ensure('member-objects', 'list(result._cfs.values())[0] is scf2 and list(result._cfs.values())[1] is scf1')


# ------------------------------------------------------------------------- _process_args_dict

def _process(shape):
    @contract('C19', 'process_args_dict.' + shape, [SWM + ':Swarm._process_args_dict'],
              clause='the argument list of a member is its connection followed by its own entry of the argument dictionary '
                     '(no dictionary / empty dictionary: the connection only); the dictionary and its entries are not modified',
              bounded='two-member swarm, entries of length 2 and 0; member index enumerated')
    def k(c):
        swarm, uris, scfs = new_swarm(c, 2)
        j = c.choice('member', [0, 1])
        c.let('scf', scfs[j])
        if shape == 'none':
            ad = None
        elif shape == 'empty':
            ad = c.dict([])
        else:
            ad, lists = args_dict(c, 2, uris, kind='tuple' if shape == 'dict-of-tuples' else 'list')
            c.snapshot('before0', 'list(a0)')
            c.snapshot('before1', 'list(a1)')
        c.let('ad', ad)
        c.call((swarm, '_process_args_dict'), scfs[j], uris[j], ad)
        c.ensure('no-exception', 'raised is None')
        c.ensure('is-list-starting-with-the-connection', "typename(result) == 'list' and len(result) >= 1 and result[0] is scf")
        if shape in ('dict', 'dict-of-tuples'):
            c.ensure('followed-by-own-entry', 'result[1:] == before%d' % j)
            c.ensure('fresh-list', 'result is not a0 and result is not a1')
            c.ensure('dictionary-unchanged', 'list(ad.keys()) == uris and ad[uris[0]] is a0 and ad[uris[1]] is a1 and '
                                             'list(a0) == before0 and list(a1) == before1')
        else:
            c.ensure('connection-only', 'len(result) == 1')
        c.ensure('no-external-effect', 'len(trace) == 0')
    return k


for _s in ('none', 'empty', 'dict', 'dict-of-tuples'):
    _process(_s)


@contract('C19', 'process_args_dict.missing-entry', [SWM + ':Swarm._process_args_dict'],
          clause='(code behaviour, outside the property) a dictionary without the entry of the member raises KeyError')
def process_missing(c):
    swarm, uris, scfs = new_swarm(c, 2)
    a0 = c.ints('a0', 2)
    c.call((swarm, '_process_args_dict'), scfs[1], uris[1], c.dict([(uris[0], a0)]))
    c.ensure('KeyError', "raised == 'KeyError'")


# ------------------------------------------------------------------------- Reporter

def an_error(c, name, msg):
    """an exception object of the world we run in, registered as `name`"""
    thrower = c.ext('thrower_' + name, returns={'()': c.raiser('ValueError', msg)})
    c.call(thrower)
    return c.let(name, c.get('exc'))


@contract('C19', 'reporter', [SWM + ':Swarm.Reporter.__init__', SWM + ':Swarm.Reporter.errors', SWM + ':Swarm.Reporter.report_error',
                              SWM + ':Swarm.Reporter.is_error_reported'],
          clause='the error report of one parallel call: empty when created, holds exactly the reported errors in report order, '
                 'and is private to that call (a reporter created later starts empty and neither sees nor changes an earlier one)')
def reporter(c):
    e1, e2, e3 = an_error(c, 'e1', 'one'), an_error(c, 'e2', 'two'), an_error(c, 'e3', 'three')
    c.call(SWM + ':Swarm.Reporter')
    r1 = c.let('r1', c.get('result'))
    c.ensure('created', 'raised is None and typename(r1) == "Reporter"')
    c.ensure('fresh-reporter-has-no-error', 'r1.is_error_reported() is False and list(r1.errors) == []')
    c.call((r1, 'report_error'), e1)
    c.ensure('report-1', 'raised is None and r1.is_error_reported() is True and len(r1.errors) == 1 and r1.errors[0] is e1')
    c.call((r1, 'report_error'), e2)
    c.ensure('report-2-keeps-order', 'raised is None and r1.is_error_reported() is True and len(r1.errors) == 2 and '
                                     'r1.errors[0] is e1 and r1.errors[1] is e2')
    c.call(SWM + ':Swarm.Reporter')
    r2 = c.let('r2', c.get('result'))
    c.ensure('later-reporter-starts-empty', 'r2.is_error_reported() is False and list(r2.errors) == []')
    c.ensure('reporters-do-not-share-the-list', 'r2.errors is not r1.errors')
    c.call((r2, 'report_error'), e3)
    c.ensure('report-to-second', 'r2.is_error_reported() is True and [e for e in r2.errors if e is not e3] == [] and len(r2.errors) == 1')
    c.ensure('first-unchanged', '[e for e in r1.errors if e is e3] == [] and len(r1.errors) == 2')
    c.call((r1, 'is_error_reported'))
    c.ensure('query-is-pure', 'result is True and len(r1.errors) == 2')


# ------------------------------------------------------------------------- _thread_function_wrapper

def _wrapper(nargs):
    @contract('C19', 'thread_function_wrapper.args%d' % nargs, [SWM + ':Swarm._thread_function_wrapper', SWM + ':Swarm.Reporter.report_error'],
              clause='the body of a member thread calls the action exactly once with the connection and the member\'s arguments; '
                     'an Exception raised by the action (of whatever class: RuntimeError, Exception itself, KeyError, StopIteration) is appended to '
                     'the reporter of this call and does not escape the thread',
              bounded='%d member arguments (0..2 enumerated)' % nargs)
    def k(c):
        swarm, uris, scfs = new_swarm(c, 1)
        e0 = an_error(c, 'e0', 'earlier')
        with_earlier = c.choice('earlier_error', [False, True])
        fail = c.choice('action_fails', [False, True])
        ecls = c.choice('error_class', ['RuntimeError', 'Exception', 'KeyError', 'StopIteration']) if fail else 'RuntimeError'
        rep = c.new(SWM + ':Swarm.Reporter')
        c.let('rep', rep)
        if with_earlier:
            c.call((rep, 'report_error'), e0)
        c.let('base', 1 if with_earlier else 0)
        c.let('fail', fail)
        action = action_stub(c, scfs, fails=[fail], classes=[ecls])
        xs = [c.int('x%d' % i) for i in range(nargs)]
        c.reset_trace()
        c.call((swarm, '_thread_function_wrapper'), action, rep, scfs[0], *xs)
        c.ensure('nothing-escapes', 'raised is None and result is None')
        c.ensure('action-called-exactly-once-with-connection-and-arguments',
                 'len(trace) == 1 and trace[0][0] == "action" and trace[0][1] == (scf0, %s) and trace[0][2] == {}'
                 % ''.join('x%d, ' % i for i in range(nargs)))
        c.ensure('reported-iff-raised', 'len(rep.errors) == base + (1 if fail else 0)')
        c.ensure('flag', 'rep.is_error_reported() is (fail or base == 1)')
        if with_earlier:
            c.ensure('earlier-error-kept-first', 'rep.errors[0] is e0')
        c.ensure('the-raised-error-is-appended',
                 "[(isinstance(e, %s), e.args) for e in rep.errors[base:]] == ([(True, ('act:0',))] if fail else [])" % ecls)
    return k


for _k in (0, 1, 2):
    _wrapper(_k)


# ------------------------------------------------------------------------- sequential

def _sequential(n, with_args, **opts):
    @contract('C19', 'sequential.%sn%d' % ('' if with_args else 'noargs.', n), [SWM + ':Swarm.sequential', SWM + ':Swarm._process_args_dict'],
              clause=P_SEQ, bounded=B_SMALL % n, **opts)
    def k(c):
        swarm, uris, scfs = new_swarm(c, n)
        ad = args_dict(c, n, uris)[0] if with_args else None
        action = action_stub(c, scfs, failing=False)
        c.call((swarm, 'sequential'), action, ad)
        c.ensure('no-exception', 'raised is None and result is None')
        want = '[%s]' % ', '.join(expected_args(i) if with_args else '(scf%d,)' % i for i in range(n))
        c.ensure('one-action-per-member-in-uri-order-with-its-arguments', '[e[1] for e in sent("action")] == ' + want)
        c.ensure('no-keyword-arguments', 'all(e[2] == {} for e in sent("action"))')
        c.ensure('one-at-a-time-nothing-else-happens', 'len(trace) == %d and len(sent("Thread")) == 0' % n)
    return k


for _n in (0, 1, 2, 3):
    _sequential(_n, True)
_sequential(2, False)


@contract('C19', 'sequential.failing-action.n3', [SWM + ':Swarm.sequential'],
          clause='(code behaviour; the property states no error rule for sequential) an exception of an action propagates to the '
                 'caller unchanged; members before it ran once in order, members after it do not run',
          bounded='swarm size 3')
def sequential_failing(c):
    swarm, uris, scfs = new_swarm(c, 3)
    ad = args_dict(c, 3, uris)[0]
    action = action_stub(c, scfs)
    c.call((swarm, 'sequential'), action, ad)
    k = len(c.get('trace'))
    c.ensure('a-prefix-in-order-each-at-most-once', '[e[1] for e in trace] == [%s]' % ', '.join(expected_args(i) for i in range(min(k, 3))))
    c.ensure('earlier-actions-did-not-fail', 'not %s' % any_fail(max(k - 1, 0)))
    if c.get('raised') is not None:
        c.ensure('the-actions-own-exception', "raised == '%s' and exc.args == ('act:%d',) and act_fail%d" % (ACT_EXC[k - 1], k - 1, k - 1))
    else:
        c.ensure('all-ran', 'len(trace) == 3 and not %s' % any_fail(3))


# ------------------------------------------------------------------------- parallel_safe / parallel

def _parallel(which, n, with_args=True):
    safe = which == 'parallel_safe'

    @contract('C19', '%s.%sn%d' % (which, '' if with_args else 'noargs.', n),
              [SWM + ':Swarm.' + which, SWM + ':Swarm._thread_function_wrapper', SWM + ':Swarm._process_args_dict',
               SWM + ':Swarm.Reporter.report_error', SWM + ':Swarm.Reporter.is_error_reported'] + ([] if safe else [SWM + ':Swarm.parallel_safe']),
              clause=(P_PAR if safe else P_ONCE + '; parallel returns only after every action has finished and never raises') +
              ' - for every subset of failing members and every schedule of the member threads',
              bounded=B_N % n)
    def k(c):
        c.model_threads(SWM)
        swarm, uris, scfs = new_swarm(c, n)
        ad = args_dict(c, n, uris)[0] if with_args else None
        action = action_stub(c, scfs)
        c.call((swarm, which), action, ad)
        ensure_each_action_once(c, n, with_args=with_args)
        ensure_threads(c, n, with_args=with_args)
        c.ensure('every-action-finished-before-return', 'len(calls("action")) == %d and calls().count("action") == len([x for x in calls() if x.endswith(".end")])' % n)
        if safe:
            c.ensure('raises-iff-some-action-raised', 'iff(raised is not None, %s)' % any_fail(n))
            if c.get('raised') is not None:
                c.ensure('raises-Exception', "raised == 'Exception'")
                c.ensure('chains-one-of-the-errors-raised-by-this-call', cause_is_raised_here(n))
            else:
                c.ensure('returns-None', 'result is None')
        else:
            c.ensure('never-raises', 'raised is None and result is None')
    return k


for _n in (0, 1, 2, 3):
    _parallel('parallel_safe', _n)
    _parallel('parallel', _n)
_parallel('parallel_safe', 2, with_args=False)


def _twice(n, other_swarm):
    @contract('C19', 'parallel_safe.twice.%sn%d' % ('other-swarm.' if other_swarm else '', n),
              [SWM + ':Swarm.parallel_safe', SWM + ':Swarm.Reporter.__init__', SWM + ':Swarm.Reporter.errors', SWM + ':Swarm.Reporter.report_error'],
              clause='history: a parallel call that follows an earlier (possibly failing) parallel call %s raises iff one of ITS actions '
                     'raised and chains one of the errors raised by ITS actions, not a stale one' % ('on another swarm' if other_swarm else 'on the same swarm'),
              bounded='swarm size %d; two calls' % n)
    def k(c):
        c.model_threads(SWM)
        swarm, uris, scfs = new_swarm(c, n)
        first, firstmembers = swarm, scfs       # the earlier call: on this swarm, or on another one-member swarm
        if other_swarm:
            scfx = c.ext('scfX')
            c.call(SWM + ':Swarm', c.list([URIS[2]]), c.ext('factory1', returns={'construct': lambda *_a: scfx}))
            first, firstmembers = c.get('result'), [scfx]
            c.reset_trace()
        one = action_stub(c, firstmembers, name='action1', tag='c1')
        c.call((first, 'parallel_safe'), one)
        c.ensure('first-call-raises-iff-its-action-raised', 'iff(raised is not None, %s)' % any_fail(len(firstmembers), 'c1'))
        c.reset_trace()
        ad = args_dict(c, n, uris)[0]
        two = action_stub(c, scfs, name='action2', tag='c2')
        c.call((swarm, 'parallel_safe'), two, ad)
        ensure_each_action_once(c, n, name='action2')
        c.ensure('first-action-not-run-again', 'len(sent("action1")) == 0')
        c.ensure('raises-iff-one-of-its-own-actions-raised', 'iff(raised is not None, %s)' % any_fail(n, 'c2'))
        if c.get('raised') is not None:
            c.ensure('raises-Exception', "raised == 'Exception'")
            c.ensure('chains-an-error-of-this-call-not-a-stale-one', cause_is_raised_here(n, 'c2'))
    return k


_twice(1, False)
_twice(2, False)
_twice(2, True)


# ------------------------------------------------------------------------- open_links / close_links

def link_members(c, n):
    """member stubs whose open_link raises Exception('open:<i>') iff open_fail<i>"""
    fails = [c.bool('open_fail%d' % i) for i in range(n)]

    def opener(i):
        def body(I, args, kwargs):
            if decide(I, fails[i]):
                c.raiser('Exception', 'open:%d' % i)()
        return body
    return [c.ext('scf%d' % i, returns={'open_link': opener(i)}) for i in range(n)]


CLOSE_AFTER_OPENS = ('max([i for i, x in enumerate(calls()) if x.endswith(".open_link") or x.endswith(".end")] + [-1]) < '
                     'min([i for i, x in enumerate(calls()) if x.endswith(".close_link")] + [10 ** 6])')


def ensure_open_outcome(c, n):
    for i in range(n):
        c.ensure('link-%d-open-attempted-exactly-once' % i, '[e[1:] for e in sent("scf%d.open_link")] == [((), {})]' % i)
    c.ensure('raises-iff-some-link-failed-to-open', 'iff(raised is not None, %s)' % any_fail(n, 'open'))
    if c.get('raised') is None:
        c.ensure('success-swarm-is-open', 'swarm._is_open is True and result is None')
        c.ensure('success-nothing-closed', 'len(calls("scf")) == %d' % n)
    else:
        c.ensure('failure-is-raised', "raised == 'Exception'")
        c.ensure('failure-chains-one-of-the-open-errors', cause_is_raised_here(n, 'open', 'Exception'))
        for i in range(n):
            c.ensure('failure-link-%d-closed-exactly-once' % i, '[e[1:] for e in sent("scf%d.close_link")] == [((), {})]' % i)
        c.ensure('failure-links-closed-only-after-every-open-attempt-finished', CLOSE_AFTER_OPENS)
        c.ensure('failure-swarm-is-not-open', 'swarm._is_open is False')
        c.ensure('nothing-else-done-to-the-links', 'len(calls("scf")) == %d' % (2 * n))


def _open_links(n):
    @contract('C19', 'open_links.n%d' % n, [SWM + ':Swarm.open_links', SWM + ':Swarm.close_links', SWM + ':Swarm.parallel_safe',
                                             SWM + ':Swarm._thread_function_wrapper'],
              clause=P_OPEN + ' - for every subset of links that fail to open and every schedule of the opening threads',
              bounded='swarm size %d (sizes 0..3 enumerated)' % n)
    def k(c):
        c.model_threads(SWM)
        swarm, uris, scfs = new_swarm(c, n, members=link_members(c, n))
        c.call((swarm, 'open_links'))
        ensure_open_outcome(c, n)
    return k


for _n in (0, 1, 2, 3):
    _open_links(_n)


@contract('C19', 'open_links.twice', [SWM + ':Swarm.open_links', SWM + ':Swarm.close_links'],
          clause='a swarm cannot be opened twice: open_links on an open swarm raises, touches no link and leaves the swarm open; '
                 '(code behaviour) after close_links it can be opened again',
          bounded='swarm size 2')
def open_twice(c):
    c.model_threads(SWM)
    swarm, uris, scfs = new_swarm(c, 2)
    c.call((swarm, 'open_links'))
    c.ensure('first-open-succeeds', 'raised is None and swarm._is_open is True')
    c.reset_trace()
    c.call((swarm, 'open_links'))
    c.ensure('second-open-raises', "raised == 'Exception'")
    c.ensure('second-open-touches-nothing', 'len(trace) == 0')
    c.ensure('still-open', 'swarm._is_open is True')
    c.call((swarm, 'close_links'))
    c.ensure('closed', 'raised is None and swarm._is_open is False')
    c.reset_trace()
    c.call((swarm, 'open_links'))
    c.ensure('reopen-after-close', 'raised is None and swarm._is_open is True and len(sent("scf0.open_link")) == 1 and len(sent("scf1.open_link")) == 1')


def _close_links(n, **opts):
    @contract('C19', 'close_links.n%d' % n, [SWM + ':Swarm.close_links', SWM + ':Swarm.__exit__'],
              clause='closing - by close_links or by leaving the `with` block, normally or by an exception - closes the link of every member '
                     'exactly once (in the order of the URIs) and leaves the swarm not open; an exception in flight is not swallowed',
              bounded='swarm size %d (sizes 0..4 enumerated, 6 in the thorough tier)' % n, **opts)
    def k(c):
        swarm, uris, scfs = new_swarm(c, n)
        how = c.choice('how', ['close_links', '__exit__', '__exit__-by-exception'])
        if how == 'close_links':
            c.call((swarm, 'close_links'))
        elif how == '__exit__':
            c.call((swarm, '__exit__'), None, None, None)
        else:       # the with block is left by an exception: the links are closed all the same and the exception is not swallowed
            c.call((swarm, '__exit__'), c.ext('exc_type'), c.ext('exc_value'), c.ext('exc_traceback'))
        c.ensure('no-exception', 'raised is None')
        c.ensure('every-link-closed-once-in-order', 'calls() == (%s)' % ''.join('"scf%d.close_link", ' % i for i in range(n)))
        c.ensure('no-arguments', 'all(e[1:] == ((), {}) for e in trace)')
        c.ensure('not-open', 'swarm._is_open is False')
        if how != 'close_links':
            c.ensure('exit-does-not-swallow-exceptions', 'not result')
    return k


for _n in (0, 1, 2, 3):
    _close_links(_n)


@contract('C19', 'context-manager', [SWM + ':Swarm.__enter__', SWM + ':Swarm.__exit__', SWM + ':Swarm.open_links', SWM + ':Swarm.close_links'],
          clause='entering the swarm context opens every link (or closes all again and raises) and yields the swarm itself; leaving closes every link',
          bounded='swarm size 2')
def context_manager(c):
    c.model_threads(SWM)
    swarm, uris, scfs = new_swarm(c, 2, members=link_members(c, 2))
    c.call((swarm, '__enter__'))
    if c.get('raised') is None:
        c.ensure('enter-yields-the-swarm', 'result is swarm')
        c.ensure('enter-opens', 'swarm._is_open is True and len(sent("scf0.open_link")) == 1 and len(sent("scf1.open_link")) == 1 and len(calls("scf")) == 2')
        c.ensure('only-when-nothing-failed', 'not %s' % any_fail(2, 'open'))
        c.reset_trace()
        c.call((swarm, '__exit__'), None, None, None)
        c.ensure('exit-closes-every-link-once', 'raised is None and calls() == ("scf0.close_link", "scf1.close_link") and swarm._is_open is False')
    else:
        ensure_open_outcome(c, 2)


# ------------------------------------------------------------------------- open_links over real SyncCrazyflie members

def sync_members(c, n, st):
    """n REAL SyncCrazyflie members scf<i> over stub Crazyflie objects cf<i> with real callback lists.  cf<i>.open_link answers through the
    callbacks SyncCrazyflie registered: in attempt st['attempt'] == 0 it fails iff open_fail<i> - by connection_failed, or (st['failmode'] == 'disconnected') by a
    disconnected before the connection was established; in later attempts it succeeds.  cf<i>.close_link answers with disconnected."""
    fails = [c.bool('open_fail%d' % i) for i in range(n)]
    members = []
    signals = []         # per Crazyflie its REAL callback lists (cflib.utils.callbacks.Caller): only what SyncCrazyflie registered is told

    def opener(i):
        def body(I, args, kwargs):
            if st['attempt'] == 0 and decide(I, fails[i]):
                if st['failmode'] == 'disconnected':
                    c.invoke((signals[i]['disconnected'], 'call'), args[0])
                else:
                    c.invoke((signals[i]['connection_failed'], 'call'), args[0], 'open:%d' % i)
            else:
                c.invoke((signals[i]['connected'], 'call'), args[0])
        return body

    def closer(i):
        def body(I, args, kwargs):
            c.invoke((signals[i]['disconnected'], 'call'), URIS[i])
        return body
    for i in range(n):
        signals.append({k: c.new('cflib.utils.callbacks:Caller') for k in ('connected', 'connection_failed', 'disconnected', 'fully_connected')})
        cf = c.ext('cf%d' % i, attrs=signals[i], returns={'open_link': opener(i), 'close_link': closer(i)})
        members.append(c.new(SCF + ':SyncCrazyflie', URIS[i], cf))
        c.let('scf%d' % i, members[i])
    return members


SYNC_F = [SWM + ':Swarm.open_links', SWM + ':Swarm.close_links', SWM + ':Swarm.parallel_safe',
          SCF + ':SyncCrazyflie.__init__', SCF + ':SyncCrazyflie._add_callbacks', SCF + ':SyncCrazyflie._remove_callbacks', SCF + ':SyncCrazyflie.open_link', SCF + ':SyncCrazyflie.close_link', SCF + ':SyncCrazyflie.is_link_open',
          SCF + ':SyncCrazyflie._connected', SCF + ':SyncCrazyflie._connection_failed', SCF + ':SyncCrazyflie._disconnected']


def ensure_sync_open_outcome(c, n, failmode):
    c.ensure('raises-iff-some-link-failed-to-open', 'iff(raised is not None, %s)' % any_fail(n, 'open'))
    for i in range(n):
        c.ensure('crazyflie-%d-asked-to-connect-exactly-once-to-its-uri' % i,
                 '[e[1] for e in sent("cf%d.open_link")] == [(uris[%d],)]' % (i, i))
    if c.get('raised') is None:
        c.ensure('success-swarm-open-and-every-link-open', 'swarm._is_open is True and ' + ' and '.join('scf%d.is_link_open() is True' % i for i in range(n)))
        c.ensure('success-nothing-closed', ' and '.join('len(sent("cf%d.close_link")) == 0' % i for i in range(n)))
    else:
        c.ensure('failure-is-raised', "raised == 'Exception'")
        if failmode == 'connection_failed':
            c.ensure('failure-chains-one-of-the-open-errors', cause_is_raised_here(n, 'open', 'Exception'))
        else:
            c.ensure('failure-chains-the-open-error-of-a-link-that-failed', 'isinstance(exc.__cause__, Exception) and exc.__cause__ is not exc and (%s)' %
                     ' or '.join('(open_fail%d and uris[%d] in str(exc.__cause__.args[0]))' % (i, i) for i in range(n)))
        c.ensure('failure-no-link-left-open', ' and '.join('scf%d.is_link_open() is False' % i for i in range(n)))
        for i in range(n):
            c.ensure('failure-link-%d-closed-once-iff-it-had-opened' % i, 'len(sent("cf%d.close_link")) == (0 if open_fail%d else 1)' % (i, i))
        c.ensure('failure-swarm-is-not-open', 'swarm._is_open is False')


def _open_sync(n, **opts):
    @contract('C19', 'open_links.sync.n%d' % n, SYNC_F,
              clause=P_OPEN + ' - with real SyncCrazyflie members: after a failed open_links no member link is open (every link that '
                     'did open is closed on its Crazyflie exactly once), after a successful one every member link is open; a link fails to open by a '
                     'connection_failed or by a disconnected that arrives before the connection is established',
              bounded='swarm size %d; all failing links fail the same way' % n, **opts)
    def k(c):
        c.model_threads(SWM)
        st = {'attempt': 0, 'failmode': c.choice('failmode', ['connection_failed', 'disconnected'])}
        members = sync_members(c, n, st)
        swarm, uris, scfs = new_swarm(c, n, members=members)
        c.call((swarm, 'open_links'))
        ensure_sync_open_outcome(c, n, st['failmode'])
    return k


_open_sync(2)
_open_sync(3, thorough_only=True)


@contract('C19', 'open_links.sync.retry.n2', SYNC_F,
          clause=P_OPEN + ' - history with real SyncCrazyflie members: a failed open_links leaves the swarm and every member as if it had never been '
                 'opened, so that a second open_links (now every Crazyflie answers) opens every link exactly once more and the swarm is open; a third '
                 'open_links is refused',
          bounded='swarm size 2; the first attempt fails for every non-empty subset of the links; every schedule of the opening threads of both attempts')
def open_sync_retry(c):
    c.model_threads(SWM)
    st = {'attempt': 0, 'failmode': c.choice('failmode', ['connection_failed', 'disconnected'])}
    members = sync_members(c, 2, st)
    swarm, uris, scfs = new_swarm(c, 2, members=members)
    c.require(any_fail(2, 'open'))
    c.call((swarm, 'open_links'))
    c.ensure('first-attempt-fails-and-leaves-nothing-open', "raised == 'Exception' and swarm._is_open is False and scf0.is_link_open() is False and scf1.is_link_open() is False")
    st['attempt'] = 1
    c.reset_trace()
    c.call((swarm, 'open_links'))
    c.ensure('second-attempt-succeeds', 'raised is None and swarm._is_open is True')
    for i in range(2):
        c.ensure('second-attempt-connects-crazyflie-%d-exactly-once-to-its-uri' % i, '[e[1] for e in sent("cf%d.open_link")] == [(uris[%d],)]' % (i, i))
        c.ensure('second-attempt-link-%d-open-and-not-closed' % i, 'scf%d.is_link_open() is True and len(sent("cf%d.close_link")) == 0' % (i, i))
    c.reset_trace()
    c.call((swarm, 'open_links'))
    c.ensure('third-open-is-refused-and-touches-nothing', "raised == 'Exception' and len(trace) == 0 and swarm._is_open is True")


# ------------------------------------------------------------------------- built-in swarm-wide action: reset_estimators

def _reset_estimators(n):
    @contract('C19', 'reset_estimators.n%d' % n, [SWM + ':Swarm.reset_estimators', SWM + ':Swarm._Swarm__reset_estimator', SWM + ':Swarm.parallel_safe',
                                                 SWM + ':Swarm._thread_function_wrapper'],
              clause=P_PAR + ' - the library\'s own swarm-wide action reset_estimators: the estimator reset (resetEstimation 1, then 0, then the wait '
                             'for a stable position) runs exactly once per member, and the call raises iff the reset of at least one member raised',
              bounded=(B_N % n) + '; the wait for a stable position (SyncLogger on the variance log) is a stub that fails for a chosen subset')
    def k(c):
        c.model_threads(SWM)
        c.virtual_time()
        fails = [c.bool('act_fail%d' % i) for i in range(n)]
        members = []
        for i in range(n):
            cf = c.ext('cf%d' % i)
            members.append(c.ext('scf%d' % i, attrs={'cf': cf}))
        swarm, uris, scfs = new_swarm(c, n, members=members)

        def wait(I, args, kwargs):
            i = [k for k, s in enumerate(scfs) if s is args[-1]][0]
            if decide(I, fails[i]):
                c.raiser(ACT_EXC[i], 'act:%d' % i)()
        c.patch(SWM + ':Swarm._Swarm__wait_for_position_estimator', c.ext('wait_stable', returns={'()': wait}))
        c.call((swarm, 'reset_estimators'))
        for i in range(n):
            c.ensure('member-%d-reset-once-1-then-0' % i,
                     "[e[1] for e in sent('cf%d.param.set_value')] == [('kalman.resetEstimation', '1'), ('kalman.resetEstimation', '0')]" % i)
            c.ensure('member-%d-waited-for-once' % i, "len([e for e in sent('wait_stable') if e[1][-1] is scf%d]) == 1" % i)
        c.ensure('raises-iff-some-reset-raised', 'iff(raised is not None, %s)' % any_fail(n))
        if c.get('raised') is not None:
            c.ensure('chains-one-of-the-errors-raised-by-this-call', cause_is_raised_here(n))
    return k


for _n in (1, 2, 3):
    _reset_estimators(_n)


# =========================================================================================================================
# extension round: given order, default factories, overlapping actions / overlapping calls (explicit schedules), histories,
# the built-in action get_estimated_positions and the estimator wait over the real SyncLogger, larger sizes (thorough tier)
# =========================================================================================================================

PERMS3 = [(0, 1, 2), (0, 2, 1), (1, 0, 2), (1, 2, 0), (2, 0, 1), (2, 1, 0)]


@contract('C19', 'init.order.n3', [SWM + ':Swarm.__init__'],
          clause='the members are kept in the iteration order of the GIVEN URIs - for every order in which three URIs can be given '
                 '(ascending, descending and the four mixed ones), as a list or as a tuple',
          bounded='three URIs, all 6 orders; list or tuple')
def init_order(c):
    perm = c.choice('perm', PERMS3)
    kind = c.choice('kind', ['list', 'tuple'])
    given = [URIS[k] for k in perm]
    factory, uris, scfs = make_factory(c, 3, uris=given)
    c.call(SWM + ':Swarm', c.list(uris) if kind == 'list' else tuple(uris), factory)
    c.ensure('no-exception', 'raised is None')
    c.ensure('one-construct-per-uri-in-the-given-order', '[e[1] for e in sent("factory.construct")] == [(u,) for u in uris] and len(trace) == 3')
    c.ensure('members-keyed-by-uri-in-the-given-order', 'list(result._cfs.keys()) == uris')
    c.ensure('member-objects-in-the-given-order', 'all(list(result._cfs.values())[i] is [scf0, scf1, scf2][i] for i in range(3))')


@contract('C19', 'sequential.order.n3', [SWM + ':Swarm.sequential', SWM + ':Swarm._process_args_dict'],
          clause=P_SEQ + ' - for every order in which three URIs can be given, and whatever the order of the argument dictionary',
          bounded='three URIs, all 6 orders; the argument dictionary is built in the fixed order of URIS (not the given order)')
def sequential_order(c):
    perm = c.choice('perm', PERMS3)
    given = [URIS[k] for k in perm]
    factory, uris, scfs = make_factory(c, 3, uris=given)      # scf<i> = member of the i-th GIVEN uri
    swarm = c.new(SWM + ':Swarm', c.list(uris), factory)
    c.let('swarm', swarm)
    # entry of the member that was given at position i: a<i>; the dictionary itself is ordered by URIS
    lists = [c.ints('a%d' % i, ARGLENS[i]) for i in range(3)]
    ad = c.dict([(URIS[k], lists[perm.index(k)]) for k in range(3)])
    action = action_stub(c, scfs, failing=False)
    c.reset_trace()
    c.call((swarm, 'sequential'), action, ad)
    c.ensure('no-exception', 'raised is None and result is None')
    c.ensure('one-action-per-member-in-the-given-order-with-its-arguments',
             '[e[1] for e in sent("action")] == [%s]' % ', '.join(expected_args(i) for i in range(3)))
    c.ensure('one-at-a-time-nothing-else-happens', 'len(trace) == 3')


# ------------------------------------------------------------------------- default factories

def crazyflie_class_stub(c, members):
    """stub for the class Crazyflie: every construction yields a fresh stub cf<k> whose open_link answers 'connected' through the
    callbacks of the SyncCrazyflie that owns it (members[k], filled in by the contract)"""
    created = []

    def opener(k):
        def body(I, args, kwargs):
            c.invoke((members[k], '_connected'), args[0])
        return body

    def construct(I, args, kwargs):
        k = len(created)
        cf = c.ext('cf%d' % k, returns={'open_link': opener(k)})
        created.append(cf)
        return cf
    return c.ext('Crazyflie', returns={'()': construct}), created


@contract('C19', 'factory.default', [SWM + ':_Factory.construct', SWM + ':Swarm.__init__', SCF + ':SyncCrazyflie.__init__', SCF + ':SyncCrazyflie.open_link'],
          clause='a swarm built without a factory has, per given URI and in the given order, one connection (SyncCrazyflie) of its own with a '
                 'Crazyflie of its own: opening member i connects exactly the i-th Crazyflie object to the i-th URI (no two members share a '
                 'connection or a Crazyflie, so an action cannot reach one Crazyflie twice)',
          bounded='swarm size 3; the class Crazyflie is a stub that hands out fresh objects')
def factory_default(c):
    members = []
    cfcls, created = crazyflie_class_stub(c, members)
    c.patch(SCF + ':Crazyflie', cfcls)
    c.let('uris', list(URIS[:3]))
    c.call(SWM + ':Swarm', c.list(URIS[:3]))
    c.ensure('no-exception', 'raised is None')
    c.let('swarm', c.get('result'))
    c.ensure('members-keyed-by-uri-in-order', 'list(swarm._cfs.keys()) == uris')
    c.ensure('three-crazyflie-objects-constructed', "len(sent('Crazyflie')) == 3")
    for i in range(3):
        members.append(c.snapshot('m%d' % i, 'list(swarm._cfs.values())[%d]' % i))
    c.ensure('members-are-distinct-connections', "all(typename(m) == 'SyncCrazyflie' for m in (m0, m1, m2)) and m0 is not m1 and m0 is not m2 and m1 is not m2")
    c.ensure('each-member-has-its-own-crazyflie', 'm0.cf is cf0 and m1.cf is cf1 and m2.cf is cf2')
    for i in range(3):
        c.reset_trace()
        c.call((members[i], 'open_link'))
        c.ensure('opening-member-%d-connects-its-own-crazyflie-to-its-own-uri' % i,
                 "raised is None and [(e[0], e[1]) for e in trace if e[0].endswith('.open_link')] == [('cf%d.open_link', (uris[%d],))]" % (i, i))
        c.ensure('member-%d-open-others-as-before' % i, ' and '.join('m%d.is_link_open() is %s' % (j, j <= i) for j in range(3)))


@contract('C19', 'factory.cached', [SWM + ':CachedCfFactory.__init__', SWM + ':CachedCfFactory.construct', SCF + ':SyncCrazyflie.__init__',
                                   SCF + ':SyncCrazyflie.open_link'],
          clause='the caching factory yields, per construct(uri) call, a new connection (SyncCrazyflie) for that URI around a new Crazyflie built with '
                 'the factory\'s read-only and read-write cache locations: opening member i connects exactly its own Crazyflie to its own URI, and '
                 'members never share a Crazyflie',
          bounded='two construct calls on one factory; caches given / defaulted; the class Crazyflie is a stub that hands out fresh objects')
def factory_cached(c):
    members = []
    cfcls, created = crazyflie_class_stub(c, members)
    c.patch(SWM + ':Crazyflie', cfcls)
    c.patch(SCF + ':Crazyflie', c.ext('CrazyflieOfSync'))        # must not be used: the factory supplies the Crazyflie
    given = c.choice('caches', ['both', 'keywords', 'none'])
    ro, rw = c.let('ro', './ro-cache'), c.let('rw', './rw-cache')
    if given == 'both':
        factory = c.new(SWM + ':CachedCfFactory', ro, rw)
    elif given == 'keywords':
        factory = c.new(SWM + ':CachedCfFactory', rw_cache=rw, ro_cache=ro)
    else:
        factory = c.new(SWM + ':CachedCfFactory')
        c.let('ro', None)
        c.let('rw', None)
    c.let('uris', list(URIS[:2]))
    c.reset_trace()
    for i in range(2):
        c.call((factory, 'construct'), URIS[i])
        c.ensure('construct-%d-no-exception' % i, 'raised is None')
        members.append(c.let('m%d' % i, c.get('result')))
    c.ensure('one-crazyflie-per-construct', "len(sent('Crazyflie')) == 2 and len(sent('CrazyflieOfSync')) == 0")
    # Crazyflie(link=None, ro_cache=None, rw_cache=None): by keyword or by position
    c.ensure('crazyflie-built-with-the-factory-caches',
             "all((e[2]['ro_cache'] if 'ro_cache' in e[2] else (e[1][1] if len(e[1]) > 1 else None)) == ro and "
             "(e[2]['rw_cache'] if 'rw_cache' in e[2] else (e[1][2] if len(e[1]) > 2 else None)) == rw for e in sent('Crazyflie'))")
    c.ensure('members-are-distinct-connections', "typename(m0) == 'SyncCrazyflie' and typename(m1) == 'SyncCrazyflie' and m0 is not m1")
    c.ensure('each-member-has-its-own-crazyflie', 'm0.cf is cf0 and m1.cf is cf1')
    for i in range(2):
        c.reset_trace()
        c.call((members[i], 'open_link'))
        c.ensure('opening-member-%d-connects-its-own-crazyflie-to-its-own-uri' % i,
                 "raised is None and [(e[0], e[1]) for e in trace if e[0].endswith('.open_link')] == [('cf%d.open_link', (uris[%d],))]" % (i, i))


# ------------------------------------------------------------------------- explicit schedules: overlapping actions, overlapping calls

def nested_threads(c, order):
    """Explicit schedule that the atomic-body thread model (c.model_threads) cannot produce: the actions OVERLAP in time.
    `swarm.Thread` is replaced by a stub written here.  start() only registers the thread; at the first untimed join() of the
    main thread the body of the first registered thread (in `order`) begins, and every action, while it is executing (entered, not
    yet returned or raised), is pre-empted by the body of the next thread - so action 0 is still running while action 1 runs,
    which is still running while action 2 runs.  A thread that is never joined (or only with a time-out) never gets to run in this
    schedule.  Returns (hook, log): the action stub must call hook(I) on entry; log lists ('enter'|'exit', thread index)."""
    threads, pending, log = [], [], []
    st = {'started': False}

    def items_of(I, v):
        return list(v) if I is None else I.iterate_all(v)

    def run_next(I):
        if pending:
            k = pending.pop(0)
            th = threads[k]
            log.append(('enter', k))
            try:
                c.invoke(th['target'], *items_of(I, th['args']))
            finally:
                log.append(('exit', k))

    def make(I, args, kwargs):
        k = len(threads)
        th = {'target': kwargs.get('target'), 'args': kwargs.get('args', ()), 'state': 'new'}
        threads.append(th)

        def start(I_, a, kw):
            if th['state'] != 'new':
                return c.raiser('RuntimeError', 'threads can only be started once')()
            th['state'] = 'started'
            return None

        def join(I_, a, kw):
            if th['state'] == 'new':
                return c.raiser('RuntimeError', 'cannot join thread before it is started')()
            timed = (len(a) > 0 and a[0] is not None) or kw.get('timeout') is not None
            if not timed and not st['started']:
                st['started'] = True
                pending.extend(j for j in order if j < len(threads) and threads[j]['state'] == 'started')
                pending.extend(j for j in range(len(threads)) if j not in pending and threads[j]['state'] == 'started')
                run_next(I_)
            return None
        return c.ext('th%d' % k, returns={'start': start, 'join': join, 'is_alive': lambda *_a: False})
    c.patch(SWM + ':Thread', c.ext('Thread', returns={'()': make}))
    return run_next, log


def _overlapping_actions(which, n, **opts):
    safe = which == 'parallel_safe'

    @contract('C19', '%s.overlapping-actions.n%d' % (which, n),
              [SWM + ':Swarm.' + which, SWM + ':Swarm._thread_function_wrapper', SWM + ':Swarm._process_args_dict', SWM + ':Swarm.Reporter.report_error'],
              clause=(P_PAR if safe else P_ONCE + '; parallel never raises') +
              ' - when the actions really overlap in time (every action is still executing while the next member\'s action runs from start to end), '
              'for every subset of failing members: nothing the library keeps per action is shared between two running actions, and no action '
              'has to wait for another one to finish',
              bounded='swarm size %d; explicit schedule: stack-like overlap (action i is pre-empted on entry by the whole body of the next thread), '
                      'threads entered in start order or in reverse start order' % n, **opts)
    def k(c):
        order = c.choice('entered', ['start-order', 'reverse'])
        idx = list(range(n)) if order == 'start-order' else list(reversed(range(n)))
        hook, log = nested_threads(c, idx)
        swarm, uris, scfs = new_swarm(c, n)
        ad = args_dict(c, n, uris)[0]
        fails = [c.bool('act_fail%d' % i) for i in range(n)]

        def body(I, args, kwargs):
            i = [k_ for k_, s in enumerate(scfs) if s is args[0]][0]
            hook(I)                                   # pre-empted here: the next member's thread body runs to its end
            if decide(I, fails[i]):
                c.raiser(ACT_EXC[i], 'act:%d' % i)()
        action = c.ext('action', returns={'()': body})
        c.call((swarm, which), action, ad)
        ensure_each_action_once(c, n)
        c.let('log', list(log))
        c.ensure('every-thread-body-ran-once-and-finished-before-return',
                 "sorted(e[1] for e in log if e[0] == 'enter') == list(range(%d)) and sorted(e[1] for e in log if e[0] == 'exit') == list(range(%d))" % (n, n))
        if safe:
            c.ensure('raises-iff-some-action-raised', 'iff(raised is not None, %s)' % any_fail(n))
            if c.get('raised') is not None:
                c.ensure('raises-Exception', "raised == 'Exception'")
                c.ensure('chains-one-of-the-errors-raised-by-this-call', cause_is_raised_here(n))
        else:
            c.ensure('never-raises', 'raised is None and result is None')
    return k


_overlapping_actions('parallel_safe', 2)
_overlapping_actions('parallel_safe', 3)
_overlapping_actions('parallel', 2)


def simple_threads(c, when):
    """explicit schedule: `swarm.Thread` is a stub whose body runs inside start() (when='eager': the thread is faster than its creator) or
    inside the first untimed join() of that thread (when='lazy': the thread only gets the processor when somebody waits for it)"""
    def items_of(I, v):
        return list(v) if I is None else I.iterate_all(v)

    def make(I, args, kwargs):
        th = {'state': 'new'}

        def run(I_):
            th['state'] = 'done'
            exc = c.invoke_catch(kwargs.get('target'), *items_of(I_, kwargs.get('args', ())))
            if exc in ('Deadlock', 'StopLoop'):
                c.raiser(exc, 'in a member thread')()

        def start(I_, a, kw):
            if th['state'] != 'new':
                return c.raiser('RuntimeError', 'threads can only be started once')()
            th['state'] = 'started'
            if when == 'eager':
                run(I_)
            return None

        def join(I_, a, kw):
            if th['state'] == 'new':
                return c.raiser('RuntimeError', 'cannot join thread before it is started')()
            timed = (len(a) > 0 and a[0] is not None) or kw.get('timeout') is not None
            if th['state'] == 'started' and not timed:
                run(I_)
            return None
        return c.ext('th', returns={'start': start, 'join': join, 'is_alive': lambda *_a: th['state'] == 'started'})
    c.patch(SWM + ':Thread', c.ext('Thread', returns={'()': make}))


def _overlapping_calls(n, every_schedule=False, **opts):
    @contract('C19', 'parallel_safe.overlapping-calls.%sn%d' % ('every-schedule.' if every_schedule else '', n),
              [SWM + ':Swarm.parallel_safe', SWM + ':Swarm._thread_function_wrapper', SWM + ':Swarm.Reporter.__init__', SWM + ':Swarm.Reporter.report_error',
               SWM + ':Swarm.Reporter.is_error_reported'],
              clause='two swarm-wide calls on ONE swarm that overlap in time (the second is made while an action of the first is still running, e.g. '
                     'from that action or from another application thread) do not disturb each other: in each call every action runs exactly once with '
                     'its member\'s connection and arguments, and each call raises iff one of ITS OWN actions raised, chaining one of ITS errors',
              bounded=('swarm size %d; the inner call is made from inside the action of member 0 of the outer call and only its member 0 may fail; every '
                       'schedule of the member threads of both calls (atomic bodies)' % n) if every_schedule else
                      ('swarm size %d; the inner call is made from inside the action of member 0 or member %d of the outer call; two explicit schedules: every '
                       'thread body runs inside start(), or inside the join() of its thread' % (n, n - 1)), **opts)
    def k(c):
        if every_schedule:
            c.model_threads(SWM)
        else:
            simple_threads(c, c.choice('threads_run', ['eager', 'lazy']))
        swarm, uris, scfs = new_swarm(c, n)
        ad = args_dict(c, n, uris)[0]
        who = 0 if every_schedule else c.choice('inner_call_made_by_member', sorted({0, n - 1}))
        if every_schedule:
            infails = [c.bool('in_fail0')] + [c.let('in_fail%d' % i, False) for i in range(1, n)]
            inner = action_stub(c, scfs, name='inner', tag='in', fails=infails)
        else:
            inner = action_stub(c, scfs, name='inner', tag='in')
        fails = [c.bool('act_fail%d' % i) for i in range(n)]
        got = {'inner': 'not-called'}

        def body(I, args, kwargs):
            i = [k_ for k_, s in enumerate(scfs) if s is args[0]][0]
            if i == who:
                got['inner'] = c.invoke_catch((swarm, 'parallel_safe'), inner)
            if decide(I, fails[i]):
                c.raiser(ACT_EXC[i], 'act:%d' % i)()
        action = c.ext('action', returns={'()': body})
        c.call((swarm, 'parallel_safe'), action, ad)
        ensure_each_action_once(c, n)
        ensure_each_action_once(c, n, name='inner', with_args=False)
        c.ensure('outer-call-raises-iff-one-of-its-own-actions-raised', 'iff(raised is not None, %s)' % any_fail(n))
        if c.get('raised') is not None:
            c.ensure('outer-call-chains-one-of-its-own-errors', "raised == 'Exception' and " + cause_is_raised_here(n))
        c.let('inner_raised', got['inner'])
        c.ensure('inner-call-raises-iff-one-of-its-own-actions-raised', "iff(inner_raised == 'Exception', %s) and inner_raised in (None, 'Exception')" % any_fail(n, 'in'))
    return k


_overlapping_calls(2)
_overlapping_calls(3)
_overlapping_calls(2, every_schedule=True, thorough_only=True)


# ------------------------------------------------------------------------- built-in swarm-wide actions over the REAL SyncLogger

SYN = 'cflib.crazyflie.syncLogger'
SYNC_LOGGER_F = [SYN + ':SyncLogger.__init__', SYN + ':SyncLogger.connect', SYN + ':SyncLogger.disconnect', SYN + ':SyncLogger.__enter__',
                 SYN + ':SyncLogger.__exit__', SYN + ':SyncLogger.__iter__', SYN + ':SyncLogger.__next__', SYN + ':SyncLogger._log_callback']


class LogWorld:
    """n REAL SyncCrazyflie members over stub Crazyflie objects cf<i> (cf<i>.link_uri = URI i) and a stub for the class LogConfig.  The log
    subsystem of Crazyflie i is played here: cf<i>.log.add_config(conf) raises ACT_EXC[i]('act:<i>') iff fails[i] (the variable is not in the
    TOC of that Crazyflie), otherwise remembers that conf belongs to member i; conf.start() then delivers entries(i) - a list of
    (timestamp, data-dict) - through the callbacks registered on conf.data_received_cb, i.e. into the REAL SyncLogger the library built."""

    def __init__(self, c, n, entries, fails=None, lazy=False):
        self.c, self.n = c, n
        self.lazy = lazy         # lazy: a sample is only delivered when the reader is waiting for one (see _new_queue)
        self.active = []
        self.gets = []           # per queue the library created: number of samples the reader took
        self.fails = fails if fails is not None else [c.bool('act_fail%d' % i) for i in range(n)]
        self.confs = []          # every LogConfig the library created: {'ext', 'cbs', 'owner', 'kwargs'}
        self.members = []
        for i in range(n):
            cf = c.ext('cf%d' % i, attrs={'link_uri': URIS[i]}, returns={'log.add_config': self._add_config(i)})
            self.members.append(c.new(SCF + ':SyncCrazyflie', URIS[i], cf))
            c.let('scf%d' % i, self.members[i])
        self.entries = entries
        c.patch(SWM + ':LogConfig', c.ext('LogConfig', returns={'()': self._new_config}))
        if lazy:
            c.patch(SYN + ':Queue', c.ext('Queue', returns={'()': self._new_queue}))

    def _new_queue(self, I, args, kwargs):
        """the queue of a SyncLogger under an explicit schedule: when the reader finds it empty, the incoming-packet thread delivers the next
        sample of the configuration that is running (started last, not stopped); with no sample left the reader blocks for ever"""
        c = self.c
        items = []
        q = len(self.gets)
        self.gets.append(0)

        def put(I_, a, kw):
            items.append(a[0])

        def get(I_, a, kw):
            if not items and self.active:
                k = self.active[-1]
                es = self.entries(k['owner'])
                if k['cursor'] < len(es):
                    ts, data = es[k['cursor']]
                    k['cursor'] += 1
                    for cb in list(k['cbs']):
                        c.invoke(cb, ts, data, k['ext'])
            if not items:
                return c.raiser('Deadlock', 'the reader waits for a sample that never comes')()
            self.gets[q] += 1
            return items.pop(0)
        return c.ext('queue%d' % q, returns={'put': put, 'get': get, 'empty': lambda *_a: not items, 'qsize': lambda *_a: len(items)})

    def _conf_of(self, ext):
        return [k for k in self.confs if k['ext'] is ext][0]

    def _add_config(self, i):
        def body(I, args, kwargs):
            if decide(I, self.fails[i]):
                self.c.raiser(ACT_EXC[i], 'act:%d' % i)()
            self._conf_of(args[0])['owner'] = i
        return body

    def _new_config(self, I, args, kwargs):
        c = self.c
        k = {'cbs': [], 'owner': None, 'args': args, 'kwargs': kwargs, 'cursor': 0}

        def add_cb(I_, a, kw):
            k['cbs'].append(a[0])

        def remove_cb(I_, a, kw):
            k['cbs'][:] = k['cbs'][1:] if k['cbs'] else c.raiser('ValueError', 'callback not registered')()

        def start(I_, a, kw):
            if k['owner'] is None:
                c.raiser('AttributeError', 'configuration was not added to a Crazyflie')()
            if self.lazy:
                self.active.append(k)
                return
            for ts, data in self.entries(k['owner']):
                for cb in list(k['cbs']):
                    c.invoke(cb, ts, data, k['ext'])

        def stop(I_, a, kw):
            if k in self.active:
                self.active.remove(k)
        k['ext'] = c.ext('conf%d' % len(self.confs), returns={'data_received_cb.add_callback': add_cb, 'data_received_cb.remove_callback': remove_cb,
                                                              'start': start, 'stop': stop})
        self.confs.append(k)
        return k['ext']

    def swarm(self):
        return new_swarm(self.c, self.n, members=self.members)

    def conf_index_of_member(self, i):
        ks = [j for j, k in enumerate(self.confs) if k['owner'] == i]
        return ks


def ensure_threads_finished(c, n):
    for i in range(n):
        c.ensure('thread-%d-started-once-ran-once-finished-and-joined-before-return' % i,
                 ' and '.join("calls('thread!%d.').count('thread!%d.%s') %s" % (i, i, ev, cnt)
                              for ev, cnt in (('start', '== 1'), ('run', '== 1'), ('end', '== 1'), ('join', '>= 1'), ('uncaught', '== 0'))))


def _estimated_positions(n, **opts):
    @contract('C19', 'get_estimated_positions.n%d' % n,
              [SWM + ':Swarm.get_estimated_positions', SWM + ':Swarm._Swarm__get_estimated_position', SWM + ':Swarm.parallel_safe',
               SWM + ':Swarm._thread_function_wrapper'] + SYNC_LOGGER_F,
              clause=P_PAR + ' - the library\'s own swarm-wide action get_estimated_positions: the position of every member is logged exactly once '
                             '(one log configuration with the three stateEstimate variables, added to THAT member\'s Crazyflie, started once and stopped and '
                             'deleted again before the call returns); the call raises iff logging failed for at least one member, otherwise it returns, per '
                             'URI, the first position sample of that member\'s own Crazyflie',
              bounded=(B_N % n) + '; real SyncCrazyflie members and the real SyncLogger over stub Crazyflie / LogConfig objects; two samples per member '
                                  '(symbolic floats); logging fails (add_config raises) for every subset of the members; every schedule of the member threads', **opts)
    def k(c):
        c.model_threads(SWM)
        pos = [[c.float('p%d%s' % (i, ax)) for ax in 'xyz'] for i in range(n)]
        later = [[c.float('q%d%s' % (i, ax)) for ax in 'xyz'] for i in range(n)]

        def entries(i):
            return [(10 * (j + 1), c.dict([('stateEstimate.' + ax, v) for ax, v in zip('xyz', vals)])) for j, vals in enumerate((pos[i], later[i]))]
        w = LogWorld(c, n, entries)
        swarm, uris, scfs = w.swarm()
        c.call((swarm, 'get_estimated_positions'))
        c.ensure('one-log-configuration-per-member', "len(sent('LogConfig')) == %d" % n)
        for i in range(n):
            c.ensure('member-%d-configuration-added-to-its-own-crazyflie-exactly-once' % i, "len(sent('cf%d.log.add_config')) == 1" % i)
            ks = w.conf_index_of_member(i)
            c.let('ok%d' % i, len(ks) == 1)
            c.ensure('member-%d-logged-iff-its-log-works' % i, 'ok%d is (not act_fail%d)' % (i, i))
            if len(ks) == 1:
                j = ks[0]
                c.ensure('member-%d-logs-the-three-position-variables' % i,
                         "sorted(e[1][0] for e in sent('conf%d.add_variable')) == ['stateEstimate.x', 'stateEstimate.y', 'stateEstimate.z']" % j)
                c.ensure('member-%d-logging-started-once-then-stopped-and-deleted-before-return' % i,
                         "[x for x in calls('conf%d.') if x.split('.')[-1] in ('start', 'stop', 'delete')] == ['conf%d.start', 'conf%d.stop', 'conf%d.delete']" % (j, j, j, j))
        ensure_threads_finished(c, n)
        c.ensure('raises-iff-logging-failed-for-some-member', 'iff(raised is not None, %s)' % any_fail(n))
        if c.get('raised') is not None:
            c.ensure('raises-Exception', "raised == 'Exception'")
            c.ensure('chains-one-of-the-errors-raised-by-this-call', cause_is_raised_here(n))
        else:
            c.ensure('one-position-per-uri', "typename(result) == 'dict' and sorted(result.keys()) == sorted(uris)")
            for i in range(n):
                c.ensure('member-%d-position-is-the-first-sample-of-its-own-crazyflie' % i,
                         "typename(result[uris[%d]]) == 'SwarmPosition' and same_float(result[uris[%d]].x, p%dx) and "
                         "same_float(result[uris[%d]].y, p%dy) and same_float(result[uris[%d]].z, p%dz)" % (i, i, i, i, i, i, i))
    return k


_estimated_positions(1)
_estimated_positions(2)


VAR_BASE = 0.5


def variance_script(jump_at, jump_axis, step, total):
    """`total` samples of the three Kalman variances: VAR_BASE everywhere, except that `jump_axis` is VAR_BASE + step from sample number
    jump_at (1-based) on; jump_at = 0: no jump"""
    out = []
    for j in range(1, total + 1):
        vals = {ax: VAR_BASE + (step if (jump_at and ax == jump_axis and j >= jump_at) else 0.0) for ax in 'XYZ'}
        out.append((500 * j, vals))
    return out


@contract('C19', 'wait_for_position_estimator', [SWM + ':Swarm._Swarm__wait_for_position_estimator'] + SYNC_LOGGER_F,
          clause='(part of the library\'s own swarm-wide action reset_estimators) the wait for a stable position of one member logs the three Kalman '
                 'variances of THAT member\'s Crazyflie and ends - the action finishes - exactly at the first sample at which each variance has varied by '
                 'less than 0.001 over its last ten samples (the history starts as ten times 1000), not earlier and not later; the logging is stopped '
                 'and deleted again when it ends',
          bounded='concrete variance sequences: constant 0.5, or one axis (x, y or z) stepping at sample 3 or 9 by 0.0005 (inside the threshold: '
                  'no restart) or 0.002 (outside: ten more samples are needed); explicit schedule: a sample arrives when the reader waits for it')
def wait_for_position_estimator(c):
    jump_at = c.choice('jump_at', [0, 3, 9])
    axis = c.choice('jump_axis', ['X', 'Y', 'Z']) if jump_at else 'X'
    step = c.choice('step', [0.0005, 0.002]) if jump_at else 0.0
    expected = 10 if (jump_at == 0 or step < 0.001) else jump_at + 9
    script = variance_script(jump_at, axis, step, expected + 3)

    def entries(i):
        return [(ts, c.dict([('kalman.varP' + ax, vals[ax]) for ax in 'XYZ'])) for ts, vals in script]
    w = LogWorld(c, 1, entries, fails=[False], lazy=True)
    swarm, uris, scfs = w.swarm()
    c.call((swarm, '_Swarm__wait_for_position_estimator'), scfs[0])
    c.ensure('the-wait-ends', 'raised is None and result is None')
    c.let('taken', list(w.gets))
    c.ensure('ends-exactly-at-the-first-stable-sample', 'taken == [%d]' % expected)
    c.ensure('one-configuration-on-the-members-crazyflie', "len(sent('LogConfig')) == 1 and len(sent('cf0.log.add_config')) == 1")
    c.ensure('logs-the-three-variances', "sorted(e[1][0] for e in sent('conf0.add_variable')) == ['kalman.varPX', 'kalman.varPY', 'kalman.varPZ']")
    c.ensure('logging-started-once-then-stopped-and-deleted',
             "[x for x in calls('conf0.') if x.split('.')[-1] in ('start', 'stop', 'delete')] == ['conf0.start', 'conf0.stop', 'conf0.delete']")


@contract('C19', 'wait_for_position_estimator.any-level', [SWM + ':Swarm._Swarm__wait_for_position_estimator'] + SYNC_LOGGER_F,
          clause='(part of reset_estimators) whatever the level of the three variances: when they do not change, the wait ends exactly at the tenth '
                 'sample (the initial history of ten times 1000 has then left the window)',
          bounded='variances constant over time at symbolic levels in [0, 998]')
def wait_any_level(c):
    lv = {ax: c.float('v' + ax, finite=True) for ax in 'XYZ'}
    for ax in 'XYZ':
        c.require('0.0 <= v%s and v%s <= 998.0' % (ax, ax))

    def entries(i):
        return [(500 * j, c.dict([('kalman.varP' + ax, lv[ax]) for ax in 'XYZ'])) for j in range(1, 14)]
    w = LogWorld(c, 1, entries, fails=[False], lazy=True)
    swarm, uris, scfs = w.swarm()
    c.call((swarm, '_Swarm__wait_for_position_estimator'), scfs[0])
    c.ensure('the-wait-ends', 'raised is None and result is None')
    c.let('taken', list(w.gets))
    c.ensure('ends-exactly-at-the-tenth-sample', 'taken == [10]')


def _reset_real_wait(n, **opts):
    @contract('C19', 'reset_estimators.real-wait.n%d' % n,
              [SWM + ':Swarm.reset_estimators', SWM + ':Swarm._Swarm__reset_estimator', SWM + ':Swarm._Swarm__wait_for_position_estimator',
               SWM + ':Swarm.parallel_safe', SWM + ':Swarm._thread_function_wrapper'] + SYNC_LOGGER_F,
              clause=P_PAR + ' - the library\'s own swarm-wide action reset_estimators with its real wait: per member the estimator is reset once (1, then 0) on '
                             'THAT member\'s Crazyflie, its variances are logged until they are stable and the logging is removed again before the call returns; '
                             'the call raises iff the action of at least one member raised',
              bounded=(B_N % n) + '; real SyncCrazyflie members and the real SyncLogger over stub Crazyflie / LogConfig objects; constant variances (stable at '
                                  'the tenth sample); the variance log cannot be set up (add_config raises) for every subset of the members; every schedule of '
                                  'the member threads', **opts)
    def k(c):
        c.model_threads(SWM)
        c.virtual_time()
        script = variance_script(0, 'X', 0.0, 12)

        def entries(i):
            return [(ts, c.dict([('kalman.varP' + ax, vals[ax]) for ax in 'XYZ'])) for ts, vals in script]
        w = LogWorld(c, n, entries, lazy=True)
        swarm, uris, scfs = w.swarm()
        c.call((swarm, 'reset_estimators'))
        for i in range(n):
            c.ensure('member-%d-reset-once-1-then-0-on-its-own-crazyflie' % i,
                     "[e[1] for e in sent('cf%d.param.set_value')] == [('kalman.resetEstimation', '1'), ('kalman.resetEstimation', '0')]" % i)
            c.ensure('member-%d-variance-log-set-up-once-on-its-own-crazyflie' % i, "len(sent('cf%d.log.add_config')) == 1" % i)
            ks = w.conf_index_of_member(i)
            c.let('ok%d' % i, len(ks) == 1)
            c.ensure('member-%d-waited-iff-its-log-works' % i, 'ok%d is (not act_fail%d)' % (i, i))
            if len(ks) == 1:
                j = ks[0]
                c.ensure('member-%d-logging-started-once-then-stopped-and-deleted-before-return' % i,
                         "[x for x in calls('conf%d.') if x.split('.')[-1] in ('start', 'stop', 'delete')] == ['conf%d.start', 'conf%d.stop', 'conf%d.delete']" % (j, j, j, j))
        c.let('taken', sorted(w.gets))
        c.let('nfail', sum(1 for i in range(n) if len(w.conf_index_of_member(i)) != 1))
        c.ensure('every-working-member-waited-until-stable', 'taken == [0] * nfail + [10] * (%d - nfail)' % n)
        ensure_threads_finished(c, n)
        c.ensure('raises-iff-some-reset-raised', 'iff(raised is not None, %s)' % any_fail(n))
        if c.get('raised') is not None:
            c.ensure('raises-Exception', "raised == 'Exception'")
            c.ensure('chains-one-of-the-errors-raised-by-this-call', cause_is_raised_here(n))
    return k


_reset_real_wait(2)


# ------------------------------------------------------------------------- argument dictionary without the entry of a member

@contract('C19', 'parallel_safe.missing-entry.n2', [SWM + ':Swarm.parallel_safe', SWM + ':Swarm._process_args_dict', SWM + ':Swarm._thread_function_wrapper'],
          clause='parallel_safe returns only after every action has finished - "for all argument dictionaries": also when the dictionary lacks the entry of '
                 'a member (the call then ends with KeyError), no action that was started is still running when the call is over',
          bounded='swarm size 2; the dictionary has the entry of the first member only; every schedule of the member threads')
# (was RED on the pinned tree: the started thread was never joined - repaired by fix commit 069d9ab; quick tier since then)
def parallel_missing_entry(c):
    c.model_threads(SWM)
    swarm, uris, scfs = new_swarm(c, 2)
    a0 = c.ints('a0', 2)
    action = action_stub(c, scfs, failing=False)
    c.call((swarm, 'parallel_safe'), action, c.dict([(uris[0], a0)]))
    c.ensure('the-call-reports-the-missing-entry', "raised == 'KeyError'")
    c.ensure('no-action-for-the-member-without-entry', "len([e for e in sent('action') if e[1][0] is scf1]) == 0")
    c.ensure('every-started-action-has-finished-when-the-call-is-over',
             "len([x for x in calls('thread!') if x.endswith('.start')]) == len([x for x in calls('thread!') if x.endswith('.end')])")


@contract('C19', 'parallel_safe.missing-first-entry.n2', [SWM + ':Swarm.parallel_safe', SWM + ':Swarm._process_args_dict'],
          clause='(code behaviour, outside the property) an argument dictionary that lacks the entry of the FIRST member: KeyError before any action is started',
          bounded='swarm size 2')
def parallel_missing_first_entry(c):
    c.model_threads(SWM)
    swarm, uris, scfs = new_swarm(c, 2)
    a1 = c.ints('a1', 1)
    action = action_stub(c, scfs, failing=False)
    c.call((swarm, 'parallel_safe'), action, c.dict([(uris[1], a1)]))
    c.ensure('KeyError-and-nothing-started', "raised == 'KeyError' and len(sent('action')) == 0 and len([x for x in calls('thread!') if x.endswith('.start')]) == 0")


# ------------------------------------------------------------------------- larger sizes

for _n in (4,):
    _init(_n)
    _sequential(_n, True)
    _close_links(_n)
for _n in (6,):
    _init(_n, thorough_only=True)
    _sequential(_n, True, thorough_only=True)
    _close_links(_n, thorough_only=True)


def fixed_fails(c, n, mask, tag='act'):
    """the failing members are fixed by the contract (bit i of mask), registered under the usual names <tag>_fail<i>"""
    return [c.let('%s_fail%d' % (tag, i), bool(mask >> i & 1)) for i in range(n)]


def _parallel_mask(which, n, mask):
    safe = which == 'parallel_safe'
    who = ''.join(str(i) for i in range(n) if mask >> i & 1) or 'none'

    @contract('C19', '%s.n%d.failing-%s' % (which, n, who),
              [SWM + ':Swarm.' + which, SWM + ':Swarm._thread_function_wrapper', SWM + ':Swarm._process_args_dict',
               SWM + ':Swarm.Reporter.report_error', SWM + ':Swarm.Reporter.is_error_reported'],
              clause=(P_PAR if safe else P_ONCE + '; parallel returns only after every action has finished and never raises') +
              ' - for every schedule of the member threads; the actions of the members {%s} raise' % who,
              bounded='swarm size %d, one contract per subset of failing members%s; argument-dictionary entries of length 2, 0, 1, 3' %
                      (n, '' if safe else ' (none, one in the middle, all)'), thorough_only=True, max_paths=20000)
    def k(c):
        c.model_threads(SWM)
        swarm, uris, scfs = new_swarm(c, n)
        ad = args_dict(c, n, uris)[0]
        action = action_stub(c, scfs, fails=fixed_fails(c, n, mask))
        c.call((swarm, which), action, ad)
        ensure_each_action_once(c, n)
        ensure_threads(c, n)
        c.ensure('every-action-finished-before-return', 'len(calls("action")) == %d and calls().count("action") == len([x for x in calls() if x.endswith(".end")])' % n)
        if safe:
            c.ensure('raises-iff-some-action-raised', 'iff(raised is not None, %s)' % any_fail(n))
            if c.get('raised') is not None:
                c.ensure('raises-Exception', "raised == 'Exception'")
                c.ensure('chains-one-of-the-errors-raised-by-this-call', cause_is_raised_here(n))
            else:
                c.ensure('returns-None', 'result is None')
        else:
            c.ensure('never-raises', 'raised is None and result is None')
    return k


for _mask in range(16):
    _parallel_mask('parallel_safe', 4, _mask)
for _mask in (0, 4, 15):
    _parallel_mask('parallel', 4, _mask)


def _open_links_mask(n, mask):
    who = ''.join(str(i) for i in range(n) if mask >> i & 1) or 'none'

    @contract('C19', 'open_links.n%d.failing-%s' % (n, who), [SWM + ':Swarm.open_links', SWM + ':Swarm.close_links', SWM + ':Swarm.parallel_safe',
                                                             SWM + ':Swarm._thread_function_wrapper'],
              clause=P_OPEN + ' - for every schedule of the opening threads; the links {%s} fail to open' % who,
              bounded='swarm size %d, one contract per subset of failing links' % n, thorough_only=True, max_paths=20000)
    def k(c):
        c.model_threads(SWM)
        fails = fixed_fails(c, n, mask, 'open')

        def opener(i):
            def body(I, args, kwargs):
                if fails[i]:
                    c.raiser('Exception', 'open:%d' % i)()
            return body
        members = [c.ext('scf%d' % i, returns={'open_link': opener(i)}) for i in range(n)]
        swarm, uris, scfs = new_swarm(c, n, members=members)
        c.call((swarm, 'open_links'))
        ensure_open_outcome(c, n)
    return k


for _mask in range(16):
    _open_links_mask(4, _mask)


_estimated_positions(3, thorough_only=True)
_reset_real_wait(3, thorough_only=True)
_overlapping_actions('parallel_safe', 4, thorough_only=True)
_overlapping_actions('parallel_safe', 5, thorough_only=True)
