"""C19 - swarm actions run once per Crazyflie with the right arguments and error report.

What is decided here (functions of cflib/crazyflie/swarm.py, plus SyncCrazyflie for one integrated contract):

  init.*                 Swarm.__init__: one member per URI, built by factory.construct(uri), in the order of the URIs
  process_args_dict.*    Swarm._process_args_dict: [scf] followed by the member's own entry of the argument dictionary
  reporter               Swarm.Reporter: a fresh reporter holds no error; errors are kept in report order; two reporters
                         never share state
  thread_function_wrapper.*  the per-member thread body calls func(*args[2:]) exactly once; an Exception is appended to
                         the reporter and does not escape
  sequential.*           one action per member, one at a time, in the order of the URIs, with the member's arguments
  parallel_safe.*        over ALL schedules of the member threads and ALL subsets of failing actions: every action runs
                         exactly once with its member's connection and arguments, all of them have finished when the call
                         returns, it raises iff at least one action raised, and the raised Exception chains one of the
                         errors raised by THIS call (history contracts `parallel_safe.twice.*`: not an error of an earlier
                         call or of another swarm)
  parallel.*             the same, and never raises
  open_links.*           every link opened once; failure of any subset => every link closed once, after every open attempt
                         has finished, the swarm is not open and the failure is raised (chained); success => swarm open,
                         nothing closed; `open_links.twice`: a second open raises and touches no link
  open_links.sync.*      the same with REAL SyncCrazyflie members over stub Crazyflie objects: after a failed open no
                         member link is left open
  close_links.* / context-manager   every link closed once in order; `with Swarm(..)` opens and closes

Thread model (assumption of the design section: "Thread(target=f,args=a).start(); join() runs f(*a) exactly once and
completes before join returns; list.append is atomic"): c.model_threads replaces threading.Thread in both back ends by a
model whose target runs atomically at a scheduler-chosen point between start() and the return of join(); the symbolic
back end explores every such schedule (every order of the thread bodies, every placement relative to the main thread's
start()/join() calls), the native back end replays the chosen schedule deterministically.

NOT covered (and why):
  * pre-emption INSIDE a thread body (two members interleaving statement by statement): the bodies only share the
    reporter (flag store + list.append, both atomic under the GIL - assumption), so body-level atomicity loses no
    outcome, but this is an argument, not a proof; real OS threads / timing are never run;
  * swarm sizes above 3 and argument lists longer than 2 (bounded, see `bounded=` of each contract);
  * URIs are three concrete distinct strings (the code only hashes/compares them); duplicate URIs only for __init__;
  * argument dictionaries that lack the entry of a member (KeyError in the calling thread - shown for
    _process_args_dict only) and actions raising a BaseException that is not an Exception;
  * sequential() with a failing action: the property gives no error rule; the code behaviour (abort at the first
    failing member) is recorded in `sequential.failing-action.n3`;
  * get_estimated_positions / reset_estimators (not part of the property; need SyncLogger).
"""
from pyvc.api import contract

SWM = 'cflib.crazyflie.swarm'
SCF = 'cflib.crazyflie.syncCrazyflie'
URIS = ['radio://0/80/2M/E7E7E7E701', 'radio://0/80/2M/E7E7E7E702', 'radio://0/80/2M/E7E7E7E703']
ARGLENS = [2, 0, 1]          # length of the argument-dictionary entry of member i

P_ONCE = ('a swarm-wide action runs exactly once per Crazyflie, receiving that Crazyflie\'s connection as first argument '
          'followed by its own entry of the argument dictionary')
P_SEQ = P_ONCE + '; sequential actions run one at a time in the iteration order of the given URIs'
P_PAR = P_ONCE + '; parallel_safe returns only after every action has finished and raises iff at least one action raised, chaining one of the raised errors'
P_OPEN = 'if opening any link fails, every link is closed again and the failure is raised; a swarm cannot be opened twice'
B_N = 'swarm size %d (sizes 0..3 enumerated); argument-dictionary entries of length 2, 0, 1; three fixed distinct URIs'


def decide(I, v):
    """branch on a contract input inside a stub body: forks symbolically (I = interpreter), concrete natively (I = None)"""
    return bool(v) if (I is None or isinstance(v, bool)) else I.decide(v)


def make_factory(c, n, uris=None, members=None):
    """a stub factory that hands out the member stubs scf0..scf<n-1> in construction order"""
    uris = URIS[:n] if uris is None else uris
    scfs = members if members is not None else [c.ext('scf%d' % i) for i in range(len(uris))]
    it = iter(scfs)
    factory = c.ext('factory', returns={'construct': lambda *_a: next(it)})
    c.let('uris', list(uris))
    return factory, uris, scfs


def new_swarm(c, n, members=None):
    """a Swarm built by its REAL constructor"""
    factory, uris, scfs = make_factory(c, n, members=members)
    swarm = c.new(SWM + ':Swarm', c.list(uris), factory)
    c.let('swarm', swarm)
    c.reset_trace()
    return swarm, uris, scfs


def args_dict(c, n, uris, prefix='a', kind='list'):
    """argument dictionary with one list (or tuple) of symbolic ints per member; registers a<i> in the spec namespace"""
    lists = [c.ints('%s%d' % (prefix, i), ARGLENS[i], kind=kind) for i in range(n)]
    return c.dict([(uris[i], lists[i]) for i in range(n)]), lists


def expected_args(i, prefix='a'):
    """spec text of the tuple the action of member i must receive"""
    return '(scf%d, %s)' % (i, ''.join('%s%d[%d], ' % (prefix, i, j) for j in range(ARGLENS[i])))


def action_stub(c, scfs, name='action', tag='act', failing=True, fails=None):
    """the swarm-wide action: a recording stub; member i's invocation raises RuntimeError('<tag>:<i>') iff <tag>_fail<i>"""
    if fails is None:
        fails = [c.bool('%s_fail%d' % (tag, i)) for i in range(len(scfs))] if failing else []

    def body(I, args, kwargs):
        if not failing:
            return None
        i = [k for k, s in enumerate(scfs) if s is args[0]][0]
        if decide(I, fails[i]):
            c.raiser('RuntimeError', '%s:%d' % (tag, i))()
    return c.ext(name, returns={'()': body})


def any_fail(n, tag='act'):
    return '(%s)' % (' or '.join('%s_fail%d' % (tag, i) for i in range(n)) or 'False')


def cause_is_raised_here(n, tag='act', cls='RuntimeError'):
    """the chained error is the error raised by a member that failed in this call"""
    return '(%s)' % (' or '.join("(%s_fail%d and isinstance(exc.__cause__, %s) and exc.__cause__.args == ('%s:%d',))"
                                 % (tag, i, cls, tag, i) for i in range(n)) or 'False')


def ensure_each_action_once(c, n, name='action', prefix='a', with_args=True):
    c.let('ACT', name)
    c.ensure('exactly-one-action-per-member', 'len(sent(ACT)) == %d' % n)
    for i in range(n):
        want = expected_args(i, prefix) if with_args else '(scf%d,)' % i
        c.ensure('member-%d-action-once-with-its-connection-and-arguments' % i,
                 '[(e[1], e[2]) for e in sent(ACT) if len(e[1]) > 0 and e[1][0] is scf%d] == [(%s, {})]' % (i, want))


def ensure_threads(c, n, name='action', prefix='a', with_args=True):
    """one thread per member, started once, run to completion and joined before the call returned"""
    c.ensure('one-thread-per-member', 'len(sent("Thread")) == %d' % n)
    if len([e for e in c.get('trace') if e[0] == 'Thread']) == n:
        for i in range(n):
            c.snapshot('th', 'sent("Thread")[%d][2]' % i)
            want = ('[%s]' % expected_args(i, prefix)[1:-1]) if with_args else '[scf%d]' % i
            c.ensure('thread-%d-target-and-args' % i,
                     "th['target'] == swarm._thread_function_wrapper and th['args'][0] is %s and "
                     "typename(th['args'][1]) == 'Reporter' and th['args'][1] is sent('Thread')[0][2]['args'][1] and "
                     "list(th['args'][2:]) == %s" % (name, want))
    for i in range(n):
        c.ensure('thread-%d-started-once-ran-once-finished-and-joined-before-return' % i,
                 ' and '.join("calls('thread!%d.').count('thread!%d.%s') %s" % (i, i, ev, cnt)
                              for ev, cnt in (('start', '== 1'), ('run', '== 1'), ('end', '== 1'), ('join', '>= 1'), ('uncaught', '== 0'))))


# ------------------------------------------------------------------------- __init__

def _init(n):
    @contract('C19', 'init.n%d' % n, [SWM + ':Swarm.__init__'],
              clause='the swarm has exactly one member per given URI, constructed by the factory from that URI, kept in the '
                     'iteration order of the given URIs, and is not open', bounded=B_N % n)
    def k(c):
        factory, uris, scfs = make_factory(c, n)
        c.call(SWM + ':Swarm', c.list(uris), factory)
        c.ensure('no-exception', 'raised is None')
        c.ensure('one-construct-per-uri-in-order', '[e[1] for e in sent("factory.construct")] == [(u,) for u in uris] and len(trace) == %d' % n)
        c.ensure('members-keyed-by-uri-in-order', 'list(result._cfs.keys()) == uris')
        for i in range(n):
            c.ensure('member-%d-is-the-constructed-connection' % i, 'list(result._cfs.values())[%d] is scf%d' % (i, i))
        c.ensure('not-open', 'result._is_open is False')
    return k


for _n in (0, 1, 2, 3):
    _init(_n)


@contract('C19', 'init.duplicate-uri', [SWM + ':Swarm.__init__'],
          clause='a URI given twice yields ONE member (no action can run twice on one Crazyflie); order = first occurrence')
def init_dup(c):
    factory, uris, scfs = make_factory(c, 3, uris=[URIS[0], URIS[1], URIS[0]])
    c.call(SWM + ':Swarm', c.list(uris), factory)
    c.ensure('no-exception', 'raised is None')
    c.ensure('two-members-in-first-occurrence-order', 'list(result._cfs.keys()) == [uris[0], uris[1]]')
    c.ensure('member-objects', 'list(result._cfs.values())[0] is scf2 and list(result._cfs.values())[1] is scf1')


# ------------------------------------------------------------------------- _process_args_dict

def _process(shape):
    @contract('C19', 'process_args_dict.' + shape, [SWM + ':Swarm._process_args_dict'],
              clause='the argument list of a member is its connection followed by its own entry of the argument dictionary '
                     '(no dictionary / empty dictionary: the connection only); the dictionary and its entries are not modified',
              bounded='two-member swarm, entries of length 2 and 0; member index enumerated')
    def k(c):
        swarm, uris, scfs = new_swarm(c, 2)
        j = c.choice('member', [0, 1])
        c.let('scf', scfs[j])
        if shape == 'none':
            ad = None
        elif shape == 'empty':
            ad = c.dict([])
        else:
            ad, lists = args_dict(c, 2, uris, kind='tuple' if shape == 'dict-of-tuples' else 'list')
            c.snapshot('before0', 'list(a0)')
            c.snapshot('before1', 'list(a1)')
        c.let('ad', ad)
        c.call((swarm, '_process_args_dict'), scfs[j], uris[j], ad)
        c.ensure('no-exception', 'raised is None')
        c.ensure('is-list-starting-with-the-connection', "typename(result) == 'list' and len(result) >= 1 and result[0] is scf")
        if shape in ('dict', 'dict-of-tuples'):
            c.ensure('followed-by-own-entry', 'result[1:] == before%d' % j)
            c.ensure('fresh-list', 'result is not a0 and result is not a1')
            c.ensure('dictionary-unchanged', 'list(ad.keys()) == uris and ad[uris[0]] is a0 and ad[uris[1]] is a1 and '
                                             'list(a0) == before0 and list(a1) == before1')
        else:
            c.ensure('connection-only', 'len(result) == 1')
        c.ensure('no-external-effect', 'len(trace) == 0')
    return k


for _s in ('none', 'empty', 'dict', 'dict-of-tuples'):
    _process(_s)


@contract('C19', 'process_args_dict.missing-entry', [SWM + ':Swarm._process_args_dict'],
          clause='(code behaviour, outside the property) a dictionary without the entry of the member raises KeyError')
def process_missing(c):
    swarm, uris, scfs = new_swarm(c, 2)
    a0 = c.ints('a0', 2)
    c.call((swarm, '_process_args_dict'), scfs[1], uris[1], c.dict([(uris[0], a0)]))
    c.ensure('KeyError', "raised == 'KeyError'")


# ------------------------------------------------------------------------- Reporter

def an_error(c, name, msg):
    """an exception object of the world we run in, registered as `name`"""
    thrower = c.ext('thrower_' + name, returns={'()': c.raiser('ValueError', msg)})
    c.call(thrower)
    return c.let(name, c.get('exc'))


@contract('C19', 'reporter', [SWM + ':Swarm.Reporter.__init__', SWM + ':Swarm.Reporter.errors', SWM + ':Swarm.Reporter.report_error',
                              SWM + ':Swarm.Reporter.is_error_reported'],
          clause='the error report of one parallel call: empty when created, holds exactly the reported errors in report order, '
                 'and is private to that call (a reporter created later starts empty and neither sees nor changes an earlier one)')
def reporter(c):
    e1, e2, e3 = an_error(c, 'e1', 'one'), an_error(c, 'e2', 'two'), an_error(c, 'e3', 'three')
    c.call(SWM + ':Swarm.Reporter')
    r1 = c.let('r1', c.get('result'))
    c.ensure('created', 'raised is None and typename(r1) == "Reporter"')
    c.ensure('fresh-reporter-has-no-error', 'r1.is_error_reported() is False and list(r1.errors) == []')
    c.call((r1, 'report_error'), e1)
    c.ensure('report-1', 'raised is None and r1.is_error_reported() is True and len(r1.errors) == 1 and r1.errors[0] is e1')
    c.call((r1, 'report_error'), e2)
    c.ensure('report-2-keeps-order', 'raised is None and r1.is_error_reported() is True and len(r1.errors) == 2 and '
                                     'r1.errors[0] is e1 and r1.errors[1] is e2')
    c.call(SWM + ':Swarm.Reporter')
    r2 = c.let('r2', c.get('result'))
    c.ensure('later-reporter-starts-empty', 'r2.is_error_reported() is False and list(r2.errors) == []')
    c.ensure('reporters-do-not-share-the-list', 'r2.errors is not r1.errors')
    c.call((r2, 'report_error'), e3)
    c.ensure('report-to-second', 'r2.is_error_reported() is True and [e for e in r2.errors if e is not e3] == [] and len(r2.errors) == 1')
    c.ensure('first-unchanged', '[e for e in r1.errors if e is e3] == [] and len(r1.errors) == 2')
    c.call((r1, 'is_error_reported'))
    c.ensure('query-is-pure', 'result is True and len(r1.errors) == 2')


# ------------------------------------------------------------------------- _thread_function_wrapper

def _wrapper(nargs):
    @contract('C19', 'thread_function_wrapper.args%d' % nargs, [SWM + ':Swarm._thread_function_wrapper', SWM + ':Swarm.Reporter.report_error'],
              clause='the body of a member thread calls the action exactly once with the connection and the member\'s arguments; '
                     'an Exception raised by the action is appended to the reporter of this call and does not escape the thread',
              bounded='%d member arguments (0..2 enumerated)' % nargs)
    def k(c):
        swarm, uris, scfs = new_swarm(c, 1)
        e0 = an_error(c, 'e0', 'earlier')
        with_earlier = c.choice('earlier_error', [False, True])
        fail = c.choice('action_fails', [False, True])
        rep = c.new(SWM + ':Swarm.Reporter')
        c.let('rep', rep)
        if with_earlier:
            c.call((rep, 'report_error'), e0)
        c.let('base', 1 if with_earlier else 0)
        c.let('fail', fail)
        action = action_stub(c, scfs, fails=[fail])
        xs = [c.int('x%d' % i) for i in range(nargs)]
        c.reset_trace()
        c.call((swarm, '_thread_function_wrapper'), action, rep, scfs[0], *xs)
        c.ensure('nothing-escapes', 'raised is None and result is None')
        c.ensure('action-called-exactly-once-with-connection-and-arguments',
                 'len(trace) == 1 and trace[0][0] == "action" and trace[0][1] == (scf0, %s) and trace[0][2] == {}'
                 % ''.join('x%d, ' % i for i in range(nargs)))
        c.ensure('reported-iff-raised', 'len(rep.errors) == base + (1 if fail else 0)')
        c.ensure('flag', 'rep.is_error_reported() is (fail or base == 1)')
        if with_earlier:
            c.ensure('earlier-error-kept-first', 'rep.errors[0] is e0')
        c.ensure('the-raised-error-is-appended',
                 "[(isinstance(e, RuntimeError), e.args) for e in rep.errors[base:]] == ([(True, ('act:0',))] if fail else [])")
    return k


for _k in (0, 1, 2):
    _wrapper(_k)


# ------------------------------------------------------------------------- sequential

def _sequential(n, with_args):
    @contract('C19', 'sequential.%sn%d' % ('' if with_args else 'noargs.', n), [SWM + ':Swarm.sequential', SWM + ':Swarm._process_args_dict'],
              clause=P_SEQ, bounded=B_N % n)
    def k(c):
        swarm, uris, scfs = new_swarm(c, n)
        ad = args_dict(c, n, uris)[0] if with_args else None
        action = action_stub(c, scfs, failing=False)
        c.call((swarm, 'sequential'), action, ad)
        c.ensure('no-exception', 'raised is None and result is None')
        want = '[%s]' % ', '.join(expected_args(i) if with_args else '(scf%d,)' % i for i in range(n))
        c.ensure('one-action-per-member-in-uri-order-with-its-arguments', '[e[1] for e in sent("action")] == ' + want)
        c.ensure('no-keyword-arguments', 'all(e[2] == {} for e in sent("action"))')
        c.ensure('one-at-a-time-nothing-else-happens', 'len(trace) == %d and len(sent("Thread")) == 0' % n)
    return k


for _n in (0, 1, 2, 3):
    _sequential(_n, True)
_sequential(2, False)


@contract('C19', 'sequential.failing-action.n3', [SWM + ':Swarm.sequential'],
          clause='(code behaviour; the property states no error rule for sequential) an exception of an action propagates to the '
                 'caller unchanged; members before it ran once in order, members after it do not run',
          bounded='swarm size 3')
def sequential_failing(c):
    swarm, uris, scfs = new_swarm(c, 3)
    ad = args_dict(c, 3, uris)[0]
    action = action_stub(c, scfs)
    c.call((swarm, 'sequential'), action, ad)
    k = len(c.get('trace'))
    c.ensure('a-prefix-in-order-each-at-most-once', '[e[1] for e in trace] == [%s]' % ', '.join(expected_args(i) for i in range(min(k, 3))))
    c.ensure('earlier-actions-did-not-fail', 'not %s' % any_fail(max(k - 1, 0)))
    if c.get('raised') is not None:
        c.ensure('the-actions-own-exception', "raised == 'RuntimeError' and exc.args == ('act:%d',) and act_fail%d" % (k - 1, k - 1))
    else:
        c.ensure('all-ran', 'len(trace) == 3 and not %s' % any_fail(3))


# ------------------------------------------------------------------------- parallel_safe / parallel

def _parallel(which, n, with_args=True):
    safe = which == 'parallel_safe'

    @contract('C19', '%s.%sn%d' % (which, '' if with_args else 'noargs.', n),
              [SWM + ':Swarm.' + which, SWM + ':Swarm._thread_function_wrapper', SWM + ':Swarm._process_args_dict',
               SWM + ':Swarm.Reporter.report_error', SWM + ':Swarm.Reporter.is_error_reported'] + ([] if safe else [SWM + ':Swarm.parallel_safe']),
              clause=(P_PAR if safe else P_ONCE + '; parallel returns only after every action has finished and never raises') +
              ' - for every subset of failing members and every schedule of the member threads',
              bounded=B_N % n)
    def k(c):
        c.model_threads(SWM)
        swarm, uris, scfs = new_swarm(c, n)
        ad = args_dict(c, n, uris)[0] if with_args else None
        action = action_stub(c, scfs)
        c.call((swarm, which), action, ad)
        ensure_each_action_once(c, n, with_args=with_args)
        ensure_threads(c, n, with_args=with_args)
        c.ensure('every-action-finished-before-return', 'len(calls("action")) == %d and calls().count("action") == len([x for x in calls() if x.endswith(".end")])' % n)
        if safe:
            c.ensure('raises-iff-some-action-raised', 'iff(raised is not None, %s)' % any_fail(n))
            if c.get('raised') is not None:
                c.ensure('raises-Exception', "raised == 'Exception'")
                c.ensure('chains-one-of-the-errors-raised-by-this-call', cause_is_raised_here(n))
            else:
                c.ensure('returns-None', 'result is None')
        else:
            c.ensure('never-raises', 'raised is None and result is None')
    return k


for _n in (0, 1, 2, 3):
    _parallel('parallel_safe', _n)
    _parallel('parallel', _n)
_parallel('parallel_safe', 2, with_args=False)


def _twice(n, other_swarm):
    @contract('C19', 'parallel_safe.twice.%sn%d' % ('other-swarm.' if other_swarm else '', n),
              [SWM + ':Swarm.parallel_safe', SWM + ':Swarm.Reporter.__init__', SWM + ':Swarm.Reporter.errors', SWM + ':Swarm.Reporter.report_error'],
              clause='history: a parallel call that follows an earlier (possibly failing) parallel call %s raises iff one of ITS actions '
                     'raised and chains one of the errors raised by ITS actions, not a stale one' % ('on another swarm' if other_swarm else 'on the same swarm'),
              bounded='swarm size %d; two calls' % n)
    def k(c):
        c.model_threads(SWM)
        swarm, uris, scfs = new_swarm(c, n)
        first, firstmembers = swarm, scfs       # the earlier call: on this swarm, or on another one-member swarm
        if other_swarm:
            scfx = c.ext('scfX')
            c.call(SWM + ':Swarm', c.list([URIS[2]]), c.ext('factory1', returns={'construct': lambda *_a: scfx}))
            first, firstmembers = c.get('result'), [scfx]
            c.reset_trace()
        one = action_stub(c, firstmembers, name='action1', tag='c1')
        c.call((first, 'parallel_safe'), one)
        c.ensure('first-call-raises-iff-its-action-raised', 'iff(raised is not None, %s)' % any_fail(len(firstmembers), 'c1'))
        c.reset_trace()
        ad = args_dict(c, n, uris)[0]
        two = action_stub(c, scfs, name='action2', tag='c2')
        c.call((swarm, 'parallel_safe'), two, ad)
        ensure_each_action_once(c, n, name='action2')
        c.ensure('first-action-not-run-again', 'len(sent("action1")) == 0')
        c.ensure('raises-iff-one-of-its-own-actions-raised', 'iff(raised is not None, %s)' % any_fail(n, 'c2'))
        if c.get('raised') is not None:
            c.ensure('raises-Exception', "raised == 'Exception'")
            c.ensure('chains-an-error-of-this-call-not-a-stale-one', cause_is_raised_here(n, 'c2'))
    return k


_twice(1, False)
_twice(2, False)
_twice(2, True)


# ------------------------------------------------------------------------- open_links / close_links

def link_members(c, n):
    """member stubs whose open_link raises Exception('open:<i>') iff open_fail<i>"""
    fails = [c.bool('open_fail%d' % i) for i in range(n)]

    def opener(i):
        def body(I, args, kwargs):
            if decide(I, fails[i]):
                c.raiser('Exception', 'open:%d' % i)()
        return body
    return [c.ext('scf%d' % i, returns={'open_link': opener(i)}) for i in range(n)]


CLOSE_AFTER_OPENS = ('max([i for i, x in enumerate(calls()) if x.endswith(".open_link") or x.endswith(".end")] + [-1]) < '
                     'min([i for i, x in enumerate(calls()) if x.endswith(".close_link")] + [10 ** 6])')


def ensure_open_outcome(c, n):
    for i in range(n):
        c.ensure('link-%d-open-attempted-exactly-once' % i, '[e[1:] for e in sent("scf%d.open_link")] == [((), {})]' % i)
    c.ensure('raises-iff-some-link-failed-to-open', 'iff(raised is not None, %s)' % any_fail(n, 'open'))
    if c.get('raised') is None:
        c.ensure('success-swarm-is-open', 'swarm._is_open is True and result is None')
        c.ensure('success-nothing-closed', 'len(calls("scf")) == %d' % n)
    else:
        c.ensure('failure-is-raised', "raised == 'Exception'")
        c.ensure('failure-chains-one-of-the-open-errors', cause_is_raised_here(n, 'open', 'Exception'))
        for i in range(n):
            c.ensure('failure-link-%d-closed-exactly-once' % i, '[e[1:] for e in sent("scf%d.close_link")] == [((), {})]' % i)
        c.ensure('failure-links-closed-only-after-every-open-attempt-finished', CLOSE_AFTER_OPENS)
        c.ensure('failure-swarm-is-not-open', 'swarm._is_open is False')
        c.ensure('nothing-else-done-to-the-links', 'len(calls("scf")) == %d' % (2 * n))


def _open_links(n):
    @contract('C19', 'open_links.n%d' % n, [SWM + ':Swarm.open_links', SWM + ':Swarm.close_links', SWM + ':Swarm.parallel_safe',
                                             SWM + ':Swarm._thread_function_wrapper'],
              clause=P_OPEN + ' - for every subset of links that fail to open and every schedule of the opening threads',
              bounded='swarm size %d (sizes 0..3 enumerated)' % n)
    def k(c):
        c.model_threads(SWM)
        swarm, uris, scfs = new_swarm(c, n, members=link_members(c, n))
        c.call((swarm, 'open_links'))
        ensure_open_outcome(c, n)
    return k


for _n in (0, 1, 2, 3):
    _open_links(_n)


@contract('C19', 'open_links.twice', [SWM + ':Swarm.open_links', SWM + ':Swarm.close_links'],
          clause='a swarm cannot be opened twice: open_links on an open swarm raises, touches no link and leaves the swarm open; '
                 '(code behaviour) after close_links it can be opened again',
          bounded='swarm size 2')
def open_twice(c):
    c.model_threads(SWM)
    swarm, uris, scfs = new_swarm(c, 2)
    c.call((swarm, 'open_links'))
    c.ensure('first-open-succeeds', 'raised is None and swarm._is_open is True')
    c.reset_trace()
    c.call((swarm, 'open_links'))
    c.ensure('second-open-raises', "raised == 'Exception'")
    c.ensure('second-open-touches-nothing', 'len(trace) == 0')
    c.ensure('still-open', 'swarm._is_open is True')
    c.call((swarm, 'close_links'))
    c.ensure('closed', 'raised is None and swarm._is_open is False')
    c.reset_trace()
    c.call((swarm, 'open_links'))
    c.ensure('reopen-after-close', 'raised is None and swarm._is_open is True and len(sent("scf0.open_link")) == 1 and len(sent("scf1.open_link")) == 1')


def _close_links(n):
    @contract('C19', 'close_links.n%d' % n, [SWM + ':Swarm.close_links', SWM + ':Swarm.__exit__'],
              clause='closing closes the link of every member exactly once (in the order of the URIs) and leaves the swarm not open',
              bounded='swarm size %d (sizes 0..3 enumerated)' % n)
    def k(c):
        swarm, uris, scfs = new_swarm(c, n)
        how = c.choice('how', ['close_links', '__exit__'])
        if how == 'close_links':
            c.call((swarm, 'close_links'))
        else:
            c.call((swarm, '__exit__'), None, None, None)
        c.ensure('no-exception', 'raised is None')
        c.ensure('every-link-closed-once-in-order', 'calls() == (%s)' % ''.join('"scf%d.close_link", ' % i for i in range(n)))
        c.ensure('no-arguments', 'all(e[1:] == ((), {}) for e in trace)')
        c.ensure('not-open', 'swarm._is_open is False')
        if how == '__exit__':
            c.ensure('exit-does-not-swallow-exceptions', 'not result')
    return k


for _n in (0, 1, 2, 3):
    _close_links(_n)


@contract('C19', 'context-manager', [SWM + ':Swarm.__enter__', SWM + ':Swarm.__exit__', SWM + ':Swarm.open_links', SWM + ':Swarm.close_links'],
          clause='entering the swarm context opens every link (or closes all again and raises) and yields the swarm itself; leaving closes every link',
          bounded='swarm size 2')
def context_manager(c):
    c.model_threads(SWM)
    swarm, uris, scfs = new_swarm(c, 2, members=link_members(c, 2))
    c.call((swarm, '__enter__'))
    if c.get('raised') is None:
        c.ensure('enter-yields-the-swarm', 'result is swarm')
        c.ensure('enter-opens', 'swarm._is_open is True and len(sent("scf0.open_link")) == 1 and len(sent("scf1.open_link")) == 1 and len(calls("scf")) == 2')
        c.ensure('only-when-nothing-failed', 'not %s' % any_fail(2, 'open'))
        c.reset_trace()
        c.call((swarm, '__exit__'), None, None, None)
        c.ensure('exit-closes-every-link-once', 'raised is None and calls() == ("scf0.close_link", "scf1.close_link") and swarm._is_open is False')
    else:
        ensure_open_outcome(c, 2)


# ------------------------------------------------------------------------- open_links over real SyncCrazyflie members

def _open_sync(n):
    @contract('C19', 'open_links.sync.n%d' % n,
              [SWM + ':Swarm.open_links', SWM + ':Swarm.close_links', SWM + ':Swarm.parallel_safe',
               SCF + ':SyncCrazyflie.__init__', SCF + ':SyncCrazyflie.open_link', SCF + ':SyncCrazyflie.close_link', SCF + ':SyncCrazyflie.is_link_open',
               SCF + ':SyncCrazyflie._connected', SCF + ':SyncCrazyflie._connection_failed', SCF + ':SyncCrazyflie._disconnected'],
              clause=P_OPEN + ' - with real SyncCrazyflie members: after a failed open_links no member link is open (every link that '
                     'did open is closed on its Crazyflie exactly once), after a successful one every member link is open',
              bounded='swarm size %d' % n)
    def k(c):
        c.model_threads(SWM)
        fails = [c.bool('open_fail%d' % i) for i in range(n)]
        members = []

        def opener(i):
            def body(I, args, kwargs):
                # the Crazyflie answers the connection request through the callbacks SyncCrazyflie registered
                if decide(I, fails[i]):
                    c.invoke((members[i], '_connection_failed'), args[0], 'open:%d' % i)
                else:
                    c.invoke((members[i], '_connected'), args[0])
            return body

        def closer(i):
            def body(I, args, kwargs):
                c.invoke((members[i], '_disconnected'), URIS[i])
            return body
        for i in range(n):
            cf = c.ext('cf%d' % i, returns={'open_link': opener(i), 'close_link': closer(i)})
            members.append(c.new(SCF + ':SyncCrazyflie', URIS[i], cf))
            c.let('scf%d' % i, members[i])
        swarm, uris, scfs = new_swarm(c, n, members=members)
        c.call((swarm, 'open_links'))
        c.ensure('raises-iff-some-link-failed-to-open', 'iff(raised is not None, %s)' % any_fail(n, 'open'))
        for i in range(n):
            c.ensure('crazyflie-%d-asked-to-connect-exactly-once-to-its-uri' % i,
                     '[e[1] for e in sent("cf%d.open_link")] == [(uris[%d],)]' % (i, i))
        if c.get('raised') is None:
            c.ensure('success-swarm-open-and-every-link-open', 'swarm._is_open is True and ' + ' and '.join('scf%d.is_link_open() is True' % i for i in range(n)))
            c.ensure('success-nothing-closed', ' and '.join('len(sent("cf%d.close_link")) == 0' % i for i in range(n)))
        else:
            c.ensure('failure-is-raised', "raised == 'Exception'")
            c.ensure('failure-chains-one-of-the-open-errors', cause_is_raised_here(n, 'open', 'Exception'))
            c.ensure('failure-no-link-left-open', ' and '.join('scf%d.is_link_open() is False' % i for i in range(n)))
            for i in range(n):
                c.ensure('failure-link-%d-closed-once-iff-it-had-opened' % i, 'len(sent("cf%d.close_link")) == (0 if open_fail%d else 1)' % (i, i))
            c.ensure('failure-swarm-is-not-open', 'swarm._is_open is False')
    return k


_open_sync(2)


# ------------------------------------------------------------------------- built-in swarm-wide action: reset_estimators

def _reset_estimators(n):
    @contract('C19', 'reset_estimators.n%d' % n, [SWM + ':Swarm.reset_estimators', SWM + ':Swarm._Swarm__reset_estimator', SWM + ':Swarm.parallel_safe',
                                                 SWM + ':Swarm._thread_function_wrapper'],
              clause=P_PAR + ' - the library\'s own swarm-wide action reset_estimators: the estimator reset (resetEstimation 1, then 0, then the wait '
                             'for a stable position) runs exactly once per member, and the call raises iff the reset of at least one member raised',
              bounded=(B_N % n) + '; the wait for a stable position (SyncLogger on the variance log) is a stub that fails for a chosen subset')
    def k(c):
        c.model_threads(SWM)
        c.virtual_time()
        fails = [c.bool('act_fail%d' % i) for i in range(n)]
        members = []
        for i in range(n):
            cf = c.ext('cf%d' % i)
            members.append(c.ext('scf%d' % i, attrs={'cf': cf}))
        swarm, uris, scfs = new_swarm(c, n, members=members)

        def wait(I, args, kwargs):
            i = [k for k, s in enumerate(scfs) if s is args[-1]][0]
            if decide(I, fails[i]):
                c.raiser('RuntimeError', 'act:%d' % i)()
        c.patch(SWM + ':Swarm._Swarm__wait_for_position_estimator', c.ext('wait_stable', returns={'()': wait}))
        c.call((swarm, 'reset_estimators'))
        for i in range(n):
            c.ensure('member-%d-reset-once-1-then-0' % i,
                     "[e[1] for e in sent('cf%d.param.set_value')] == [('kalman.resetEstimation', '1'), ('kalman.resetEstimation', '0')]" % i)
            c.ensure('member-%d-waited-for-once' % i, "len([e for e in sent('wait_stable') if e[1][-1] is scf%d]) == 1" % i)
        c.ensure('raises-iff-some-reset-raised', 'iff(raised is not None, %s)' % any_fail(n))
        if c.get('raised') is not None:
            c.ensure('chains-one-of-the-errors-raised-by-this-call', cause_is_raised_here(n))
    return k


for _n in (1, 2, 3):
    _reset_estimators(_n)
