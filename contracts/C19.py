"""C19 - swarm (prototype)."""
from pyvc.api import contract

SWM = 'cflib.crazyflie.swarm'
URIS = ['radio://0/80/2M/E7E7E7E701', 'radio://0/80/2M/E7E7E7E702', 'radio://0/80/2M/E7E7E7E703']


def decide(I, v):
    return bool(v) if I is None else I.decide(v)


def make_swarm(c, n, nargs=1):
    uris = URIS[:n]
    scfs = [c.ext('scf%d' % i) for i in range(n)]
    it = iter(scfs)
    factory = c.ext('factory', returns={'construct': lambda *_a: next(it)})
    swarm = c.new(SWM + ':Swarm', c.list(uris), factory)
    c.let('swarm', swarm)
    c.let('uris', uris)
    return swarm, uris, scfs


def failing_action(c, scfs, tag='act'):
    fails = [c.bool('fail%d' % i) for i in range(len(scfs))]

    def body(I, args, kwargs):
        i = [k for k, s in enumerate(scfs) if s is args[0]][0]
        if decide(I, fails[i]):
            c.raiser('RuntimeError', '%s:%d' % (tag, i))()
    return c.ext('action', returns={'()': body}), fails


def _parallel_safe(n):
    @contract('C19', 'parallel_safe.n%d' % n, [SWM + ':Swarm.parallel_safe'], clause='x', bounded='n')
    def k(c):
        c.model_threads(SWM)
        swarm, uris, scfs = make_swarm(c, n)
        args = [c.ints('a%d' % i, 2) for i in range(n)]
        ad = c.dict([(uris[i], args[i]) for i in range(n)])
        action, fails = failing_action(c, scfs)
        c.reset_trace()
        c.call((swarm, 'parallel_safe'), action, ad)
        c.ensure('once-per-member', 'len(sent("action")) == %d' % n)
        for i in range(n):
            c.ensure('member-%d-once-with-its-args' % i,
                     'len([e for e in sent("action") if e[1][0] is scf%d]) == 1 and '
                     '[e for e in sent("action") if e[1][0] is scf%d][0][1][1:] == (a%d[0], a%d[1])' % (i, i, i, i))
        c.ensure('raises-iff-some-action-raised', 'iff(raised is not None, %s)' % (' or '.join('fail%d' % i for i in range(n)) or 'False'))
        if c.get('raised') is not None:
            c.ensure('raises-Exception', "raised == 'Exception'")
            c.ensure('cause-t', "isinstance(exc.__cause__, RuntimeError)")
            c.ensure('cause-n', "exc.__cause__ is not None")
            c.ensure('cause-a', "exc.__cause__.args[0] in (%s)" % ''.join("'act:%d', " % i for i in range(n)))
    return k


for _n in (0, 1, 2, 3):
    _parallel_safe(_n)
