"""C05 - log blocks are created as configured and log data decodes to device values.

Style: histories of REAL calls on real `Log`, `LogConfig`, `LogVariable`, `LogTocElement`, `Toc`, `CRTPPacket`, `Caller`,
`SyncLogger` (and `SyncCrazyflie`) objects built by their real constructors, against a device model written here.  Only the
Crazyflie facade (`cf`: link, send_packet, platform, add_port_callback) is a recording stub.  A session is opened with the
real `Log.refresh_toc` + the device's reset acknowledgement (the library then creates the empty `Toc`); the table content is
entered with the real `Toc.add_element` from elements parsed by the real `LogTocElement` constructor (the download protocol
itself is property C03).  Table indices are symbolic (0..65535, pairwise distinct), the protocol version is symbolic >= 4
(current protocol), block ids / periods / timestamps / all encoded values are symbolic.

The device side is stated independently of the library: the type table TYPES (id, wire format, size), the 26-byte payload
limit, the V2 create/append message layout decoded as the firmware does ((len - 2) // 3 triples of type byte and 16-bit
table index; a trailing incomplete entry is ignored by the firmware), the settings commands and status codes.

Clauses of the design section -> contracts
 1 acceptance iff variables exist / period / payload, nothing sent, id, appended once .... add_config.* , logconfig.period.*
   (the period is split in two composable steps: LogConfig.__init__ maps milliseconds to 10 ms units [logconfig.period.*];
   add_config accepts iff 0 < units < 255 for ANY value of the `period` field [add_config.*: the field is set to a symbolic int])
 2 re-add after reconnect keeps the variable list (also after a rejected first add) ..... readd.*
 3 creation messages enumerate exactly the variables (0..26 variables, every split) ....... create.n0 .. create.n26, lifecycle, readd.*
   device limits (16 blocks / 128 variables) refuse before any send ....................... create.limits.*
   raw-memory variables ................................................................... create.memory-variable  (KNOWN FINDING, fails)
 4 data packets decode to timestamp and device values, callback once ..................... data.*
 5 flags / callbacks follow the acknowledgements, start sent exactly on create ack ....... ack.step, lifecycle, commands.no-link
 6 SyncLogger: one put per sample, yielded once in order, ends at disconnect ............. synclogger.*
 LogVariable type ids / type byte for all type names ...................................... logvariable.types
 extension round:
 1 names that are in no table ('', 'nodot', 'a.b.c', ...) refused, nothing sent ............. add_config.malformed-name
 1/3/4 variable fetched as another type than the table has (payload = fetched sizes) ........ fetch-as-other-type.*
 2 re-add to a Crazyflie whose table lacks a variable is refused (no stale acceptance) ....... readd.variable-gone-in-new-session
 3/5 Log.reset(): one reset request, host forgets all blocks, a new configuration is accepted / created / started / decoded also when the
   16-block / 128-variable budget was used up before; (repeated) reset acknowledgement inside a session harmless ... reset.*
 4/5 packets reach the Log: exactly one handler for port 5, effects through THAT handler ..... log.listens-on-logging-port
 4 symbolic type per variable for three variables (all 512 triples) .......................... data.n3.every-type-triple
 5 ids after the id counter wrapped (255 add_config calls in a session) ..................... add_config.id-reuse-after-wrap   (FINDING, thorough tier)
 5 create acknowledgement processed before the append messages are sent (schedule) .......... create.ack-before-appends        (FINDING, thorough tier)
 6 with / for protocol (__enter__, __iter__, next, __exit__, also after link loss inside) ... synclogger.with-statement
 6 reader already blocked in the queue when a sample arrives / the link is lost (schedules) .. synclogger.reader-waiting.*
 6 two SyncLoggers share nothing ........................................................... synclogger.two-loggers
 6 every arrival/read schedule of up to four events ........................................ synclogger.session.*

Bounds (also in each contract's `bounded=`): list LENGTHS are enumerated (0..26 for creation = everything add_config can accept;
acceptance at payload 0, 1, 24..28 bytes and 26/27 one-byte, 13/14 two-byte, 6/7 four-byte variables, every type at the limit);
the TYPE of each variable is concrete per path (every type, every pair of types for decoding; fixed patterns using all types
for long lists) because the type selects the struct format; histories are the scripted ones.

Assumptions (peer / environment):
 * the device answers settings commands only with status 0 or one of ENOENT, ENOEXEC, ENOMEM, E2BIG, EEXIST (firmware log.c).
   Any other status byte on a create/start error makes `_new_packet_cb` raise KeyError (`_err_codes[status]`) - outside this assumption.
 * a log data packet of a block carries the full payload of that block (a shorter one raises struct.error in the dispatcher thread).
 * queue.Queue is FIFO; int periods below 2**53 divide like the double of the same value (CPython true division is correctly rounded).
 * `logconfig.period.real/int` use float mode R (mathematical reals); the IEEE-double statement is proved for the binades containing
   both limits in the quick tier (`logconfig.period.double.near-limits`) and for every double in the thorough tier (`...double.all`).

Not covered (stated, not claimed):
 * thread interleavings: SyncLogger's queue is filled by the incoming-packet thread and drained by the application thread; the
   contracts run arrivals and reads as sequential schedules, plus the explicit schedules "reader already blocked in Queue.get() when a
   sample arrives / the link is lost" (synclogger.reader-waiting.*, the queue is a FIFO written in the contract whose get() runs the other
   thread's action) and "create acknowledgement handled inside send_packet of the create message" (create.ack-before-appends).
   Pre-emption between two arbitrary statements (e.g. link loss handled while disconnect() is between stop() and remove_callback():
   the second remove_callback raises ValueError) is not modelled.
 * the legacy (protocol version < 4) create/append layout - the property speaks of the current protocol.
 * the TOC download and cache (C03, C11); LogConfig objects mutated by the application after they were added; start() called on a
   configuration whose (re-)add was refused; LogVariable.__str__ (formatting); Toc.clear (never called by the library).
 * symbolic-LENGTH variable lists and symbolic type per variable for lists longer than three (see Bounds).

Observations that are not obligations here (reported to the maintainer): on a start error the started callback receives the Log object
instead of the block (`started_cb.call(self, False)`), on a create error the added callback receives only `False`.

FINDINGS on the unchanged tree (contracts kept; `create.memory-variable`, `readd.block-created-in-new-session` and `synclogger.reuse` are
recorded in known_findings.json and stay in the quick tier; the two marked NEW have the option thorough_only=True so that `./vcheck C05` stays
green until the maintainer decides; they fail with a native replay under `./vcheck C05 thorough`):
 * create.memory-variable/no-exception: LogConfig.add_memory(...) + add_config (accepted) + start() raises TypeError in
   _setup_log_elements (`pk.data.append(struct.pack('<B', ...))`: bytearray.append(bytes)); nothing is sent.
 * readd.block-created-in-new-session: a configuration that was added in an earlier session (added flag still True because the session
   ended without a delete acknowledgement, e.g. link loss) and is added again after a reconnect is NOT created on the new device:
   start() sends START_LOGGING for the new id instead of the creation messages (nothing ever resets `_added` at disconnect/reconnect).
 * add_config.id-reuse-after-wrap (thorough_only, NEW): block ids are (counter + 1) % 255 and add_config never checks that the id is free, while
   log_blocks only shrinks at a reset: the 256th add_config of a session (e.g. one SyncLogger per measurement: connect/disconnect 255 times)
   hands out the id of the first - deleted but still registered - configuration; _find_block returns that stale registration, so the create
   acknowledgement marks the OLD configuration added (START is sent with its period), the new one stays pending for ever, and data packets
   are decoded with the OLD variable list (struct.error in the dispatcher thread when the sizes differ, otherwise values delivered to the old
   configuration's callbacks; a SyncLogger on the new configuration blocks for ever).
 * create.ack-before-appends (thorough_only, NEW, schedule-dependent): START_LOGGING is sent as soon as the acknowledgement of the CREATE
   message is handled; when the incoming-packet thread handles it before LogConfig.create() has sent the APPEND messages (blocks of more than
   9 variables) the device receives create, start, append: the block is started before its variable list is complete.
 * synclogger.reuse: SyncLogger never clears its queue (`self._queue.empty()` only tests): after disconnect + connect of the same
   object, samples (and the end marker) left from the earlier session are yielded in the new session before / instead of new samples.
"""
from pyvc.api import contract

LOG = 'cflib.crazyflie.log'
TOC = 'cflib.crazyflie.toc'
STK = 'cflib.crtp.crtpstack'
SYN = 'cflib.crazyflie.syncLogger'

# ---- the device side (firmware log.c / log.h), stated here independently of the library:
# type name -> (type id on the wire, struct format of the encoded value, encoded size in bytes)
TYPES = {'uint8_t': (1, '<B', 1), 'uint16_t': (2, '<H', 2), 'uint32_t': (3, '<L', 4), 'int8_t': (4, '<b', 1),
         'int16_t': (5, '<h', 2), 'int32_t': (6, '<i', 4), 'float': (7, '<f', 4), 'FP16': (8, '<e', 2)}
TYPE_NAMES = list(TYPES)
MAX_PAYLOAD = 26            # LOG_MAX_LEN: bytes of values in one log data packet
CMD_CREATE_V2, CMD_APPEND_V2, CMD_DELETE, CMD_START, CMD_STOP, CMD_RESET = 6, 7, 2, 3, 4, 5
ENOENT, ENOEXEC, ENOMEM, E2BIG, EEXIST = 2, 8, 12, 7, 17
ERR_CODES = (ENOENT, ENOEXEC, ENOMEM, E2BIG, EEXIST)


def size_of(types):
    return sum(TYPES[t][2] for t in types)


def names_for(n):
    return ['g%d.v%d' % (i % 3, i) for i in range(n)]


# --------------------------------------------------------------------------------------- set-up helpers

def toc_element(c, ident, complete_name, ctype):
    """a LogTocElement built by the REAL constructor from the bytes of a TOC item reply"""
    group, name = complete_name.split('.')
    data = bytes([TYPES[ctype][0]]) + group.encode() + b'\0' + name.encode() + b'\0'
    return c.new(LOG + ':LogTocElement', ident, bytearray(data))


def new_session(c, log, table, tag=''):
    """(re)connect: the REAL refresh_toc, the device's reset acknowledgement (which makes the library create an empty
    Toc and start the TOC download) and then the table content `table` = [(complete name, type name)] entered through the
    real Toc.add_element (the download itself is property C03).  Table indices are symbolic and pairwise distinct."""
    c.invoke((log, 'refresh_toc'), c.ext('refresh_done'), c.ext('toc_cache'))
    c.invoke((log, '_new_packet_cb'), c.new(STK + ':CRTPPacket', 0x5D, bytes([CMD_RESET, 0, 0])))
    toc = c.getfield(log, 'toc')
    idents = {}
    for i, (nm, ty) in enumerate(table):
        ident = c.int('ident%s_%d' % (tag, i), 0, 65535)
        for j in range(i):
            c.require('ident%s_%d != ident%s_%d' % (tag, j, tag, i))      # (smaller index first: matches the solver's normal form)
        idents[nm] = 'ident%s_%d' % (tag, i)
        c.invoke((toc, 'add_element'), toc_element(c, ident, nm, ty))
    c.reset_trace()
    return idents


def connected(c, table, ver=None):
    """a real Log on a connected Crazyflie stub speaking the current protocol (version >= 4, symbolic)"""
    link = c.ext('link')
    if ver is None:
        ver = c.int('ver', 4, 255)
    cf = c.ext('cf', attrs={'link': link}, returns={'platform.get_protocol_version': ver})
    log = c.new(LOG + ':Log', cf)
    c.set(cf, 'log', log)
    c.let('log', log)
    c.let('cf', cf)
    c.invoke((c.getfield(log, 'block_added_cb'), 'add_callback'), c.ext('note_block_added'))
    new_session(c, log, table)
    return cf, log


def new_config(c, variables, name='conf', period_ms=100, period=None):
    """a real LogConfig filled through its real API.  variables = [(complete name, fetch type name or None)].
    period: optional symbolic value of the `period` field (units of 10 ms), see logconfig.period.* for the constructor."""
    conf = c.new(LOG + ':LogConfig', name, period_ms)
    for nm, ty in variables:
        if ty is None:
            c.invoke((conf, 'add_variable'), nm)
        else:
            c.invoke((conf, 'add_variable'), nm, ty)
    if period is not None:
        c.set(conf, 'period', period)
    c.let(name, conf)
    return conf


def watch(c, conf, name='conf'):
    for cb in ('added_cb', 'started_cb', 'error_cb', 'data_received_cb'):
        c.invoke((c.getfield(conf, cb), 'add_callback'), c.ext('%s_%s' % (name, cb[:-3])))


# --------------------------------------------------------------------------------------- LogVariable / LogConfig

@contract('C05', 'logvariable.types', [LOG + ':LogVariable.__init__', LOG + ':LogVariable.get_storage_and_fetch_byte',
                                       LOG + ':LogVariable.is_toc_variable', LOG + ':LogTocElement.get_id_from_cstring'],
          clause='a variable carries the firmware type ids of its fetch and storage type names; its type byte is fetch | stored << 4; '
                 'an unknown type name is refused (all 8 x 9 combinations)')
def logvariable_types(c):
    f = c.choice('fetch', TYPE_NAMES + ['double'])
    s = c.choice('stored', [''] + TYPE_NAMES + ['bool'])
    mem = c.choice('memory', [False, True])
    c.int('address', 0, 2 ** 32 - 1)
    c.call(c.cls(LOG + ':LogVariable'), 'g.v', f, 1 if mem else 0, s, c.get('address'))
    valid = f in TYPES and (s == '' or s in TYPES)
    c.let('valid', valid)
    c.ensure('refused-iff-unknown-type', "iff(raised is not None, not valid) and raised in (None, 'KeyError')")
    if valid:
        v = c.get('result')
        c.let('v', v)
        c.let('fid', TYPES[f][0])
        c.let('sid', TYPES[s or f][0])
        c.let('mem', mem)
        c.ensure('ids', 'v.fetch_as == fid and v.stored_as == sid and v.name == "g.v" and v.address == address')
        c.call((v, 'get_storage_and_fetch_byte'))
        c.ensure('type-byte', 'raised is None and result == fid + 16 * sid and 0 <= result <= 255')
        c.call((v, 'is_toc_variable'))
        c.ensure('kind', 'result is (not mem)')


PERIOD_SEGMENTS = ['p < 0', '0 <= p < 8', '8 <= p < 16', '16 <= p < 2048', '2048 <= p < 4096', '4096 <= p', 'is_nan(p)']


def _period_float(label, segments, **opts):
    @contract('C05', 'logconfig.period.%s' % label, [LOG + ':LogConfig.__init__'],
              clause='the period field (10 ms units) is in the accepted range 1..254 iff the period is between 10 ms and 2.55 s (excl.), '
                     'in IEEE double arithmetic (ints below 2**53 divide like the double of the same value); cases: %s' % (segments,), **opts)
    def k(c):
        p = c.float('p')
        c.require(c.choice('segment', segments))
        c.call(c.cls(LOG + ':LogConfig'), 'blk', p)
        c.ensure('constructed-unless-nan-or-inf', 'iff(raised is not None, is_nan(p) or is_inf(p))')
        if c.get('raised') is None:
            c.let('conf', c.get('result'))
            c.ensure('in-range-iff-10ms-to-2.55s', 'iff(0 < conf.period < 255, 10 <= p < 2550)')
            c.ensure('fresh-state', 'conf.added is False and conf.started is False and conf.valid is False and not conf.pending and '
                     'conf.variables == [] and conf.default_fetch_as == [] and conf.period_in_ms == p')
    return k


# the two binades that contain the limits 10 ms and 2550 ms (where rounding of p / 10 could matter) are decided in double arithmetic
# in the quick tier; every double (exhaustive case split; division bit-blasting needs ~10 s per case) in the thorough tier; all reals below
_period_float('double.near-limits', ['8 <= p < 16', '2048 <= p < 4096'], bounded='doubles in [8, 16) and [2048, 4096)')
_period_float('double.all', PERIOD_SEGMENTS, thorough_only=True)


@contract('C05', 'logconfig.period.real', [LOG + ':LogConfig.__init__'], float_mode='R',
          clause='the period field is in the accepted range 1..254 iff 10 ms <= period < 2.55 s, for every real period (float mode R)')
def period_real(c):
    c.float('p')
    c.call(c.cls(LOG + ':LogConfig'), 'blk', c.get('p'))
    c.ensure('constructed', 'raised is None')
    c.let('conf', c.get('result'))
    c.ensure('in-range-iff-10ms-to-2.55s', 'iff(0 < conf.period < 255, 10 <= p < 2550)')


@contract('C05', 'logconfig.period.int', [LOG + ':LogConfig.__init__'], float_mode='R',
          clause='for an integer number of milliseconds the period field is p // 10 (mathematical division: float mode R)')
def period_int(c):
    p = c.int('p', -(2 ** 53) + 1, 2 ** 53 - 1)
    c.call(c.cls(LOG + ':LogConfig'), 'blk', p)
    c.ensure('constructed', 'raised is None')
    c.let('conf', c.get('result'))
    c.ensure('in-range-iff-10ms-to-2.55s', 'iff(0 < conf.period < 255, 10 <= p < 2550)')
    c.ensure('ten-ms-units', 'implies(p >= 0, conf.period == p // 10)')


# --------------------------------------------------------------------------------------- add_config

ADD_F = [LOG + ':Log.add_config', LOG + ':LogConfig.add_variable', LOG + ':LogTocElement.get_size_from_id',
         TOC + ':Toc.get_element_by_complete_name', TOC + ':Toc.get_element_id', TOC + ':Toc.get_element', TOC + ':Toc.get_element_by_id']


def variable_state(c, conf, name='conf'):
    """ghost: ((name, fetch id, stored id, is_toc), ...) of the configuration"""
    return c.snapshot('vars_of_' + name, 'tuple((v.name, v.fetch_as, v.stored_as, v.is_toc_variable()) for v in %s.variables)' % name)


def expected_variables(variables, table):
    """the variable list the user configured: explicitly typed ones first (they are entered immediately), then the
    ones typed by the table (entered when the configuration is added), each with the ids of the device type table"""
    tt = dict(table)
    typed = [(n, TYPES[t][0], TYPES[t][0], True) for n, t in variables if t is not None]
    dflt = [(n, TYPES[tt[n]][0], TYPES[tt[n]][0], True) for n, t in variables if t is None and n in tt]
    return tuple(typed + dflt)


def check_add_config(c, log, conf, variables, table, tag=''):
    """post-conditions of one add_config call, from the property; returns True when the configuration must be accepted
    apart from the period (which may be symbolic)"""
    tt = dict(table)
    present = all(n in tt for n, _t in variables)
    payload = size_of([t if t is not None else tt[n] for n, t in variables if n in tt]) if present else None
    fits = present and payload <= MAX_PAYLOAD
    c.let('present', present)
    c.let('fits', fits)
    c.ensure(tag + 'accepted-iff-variables-exist-and-period-and-payload-ok', 'iff(raised is None, present and fits and 0 < period0 < 255)')
    c.ensure(tag + 'nothing-sent', "len(calls('cf.')) == 0 and len(calls('link')) == 0")
    if c.get('raised') is None:
        c.ensure(tag + 'id-assigned', 'conf.id == id0 and log._config_id_counter == (id0 + 1) % 255 and conf.valid is True and is_same(conf.cf, cf) '
                 'and conf.useV2 is True')
        c.ensure(tag + 'appended-once', 'len(log.log_blocks) == len(blocks0) + 1 and is_same(log.log_blocks[-1], conf) and '
                 'all(is_same(log.log_blocks[i], blocks0[i]) for i in range(len(blocks0)))')
        c.ensure(tag + 'listeners-told-once', "len(sent('note_block_added')) == 1 and is_same(sent('note_block_added')[0][1][0], conf)")
        c.let('expected', expected_variables(variables, table))
        variable_state(c, conf)
        c.ensure(tag + 'variables-as-configured', 'vars_of_conf == expected and conf.default_fetch_as == []')
    else:
        c.let('experr', 'AttributeError' if present else 'KeyError')
        c.ensure(tag + 'rejection-error', 'raised == experr')
        c.ensure(tag + 'rejected-not-registered', "conf.valid is False and len(log.log_blocks) == len(blocks0) and "
                 "all(is_same(log.log_blocks[i], blocks0[i]) for i in range(len(blocks0))) and len(sent('note_block_added')) == 0 "
                 "and log._config_id_counter == id0")


def do_add_config(c, log, conf):
    c.snapshot('blocks0', 'tuple(log.log_blocks)')
    c.snapshot('id0', 'log._config_id_counter')
    c.snapshot('period0', 'conf.period')
    c.reset_trace()
    c.call((log, 'add_config'), conf)


def _add_config(label, types, bound, typings, missings):
    n = len(types)

    @contract('C05', 'add_config.%s' % label, ADD_F,
              clause='a configuration is accepted iff all its variables exist in the table, 0 < period/10ms < 255 and its payload (%d bytes here) '
                     'is at most 26 bytes; a rejected one raises, is not registered and nothing is sent; an accepted one gets the next id and is registered once' % size_of(types),
              bounded=bound)
    def k(c):
        names = names_for(n)
        missing = c.choice('missing', missings)
        typing = c.choice('typing', typings)
        table = [(nm, ty) for i, (nm, ty) in enumerate(zip(names, types)) if i != missing]
        cf, log = connected(c, table)
        if typing == 'explicit':
            variables = list(zip(names, types))
        elif typing == 'from-table':
            variables = [(nm, None) for nm in names]
        else:
            variables = [(nm, ty if i % 2 else None) for i, (nm, ty) in enumerate(zip(names, types))]
        conf = new_config(c, variables, period=c.int('period'))
        do_add_config(c, log, conf)
        check_add_config(c, log, conf, variables, table)
    return k


_B = ('variable list of %d variables with the type pattern %s (payload %d bytes); variable missing from the table: %s; '
      'types given %s; period and table indices symbolic')
for _label, _types in (('n0', []),
                       ('n1.u8', ['uint8_t']),
                       ('n26.bytes', ['uint8_t', 'int8_t'] * 13),
                       ('n27.bytes', ['uint8_t', 'int8_t'] * 13 + ['uint8_t']),
                       ('n13.halves', ['uint16_t', 'int16_t', 'FP16'] * 4 + ['FP16']),
                       ('n14.halves', ['uint16_t', 'int16_t', 'FP16'] * 4 + ['FP16', 'int16_t']),
                       ('n6.words', ['uint32_t', 'int32_t', 'float'] * 2),
                       ('n7.words', ['uint32_t', 'int32_t', 'float'] * 2 + ['float']),
                       ('n7.mixed25', ['float', 'uint32_t', 'int32_t', 'float', 'uint32_t', 'int32_t', 'int8_t']),
                       ('n7.mixed26', ['float', 'uint32_t', 'int32_t', 'float', 'uint32_t', 'int32_t', 'FP16']),
                       ('n8.mixed27', ['float', 'uint32_t', 'int32_t', 'float', 'uint32_t', 'int32_t', 'FP16', 'uint8_t']),
                       ('n10.all-types26', TYPE_NAMES + ['uint32_t', 'uint16_t'])):
    _n = len(_types)
    _miss = ['none'] + (sorted(set([0, _n // 2, _n - 1])) if _n else [])
    _typ = ['explicit', 'from-table', 'mixed'] if _n else ['explicit']
    if _n >= 13:        # one contract (= one process) per combination for the long lists
        for _t in _typ:
            for _m in (['none', _n - 1] if _n >= 26 else [_miss]):
                _ml = _m if isinstance(_m, list) else [_m]
                _add_config('%s.%s%s' % (_label, _t, '' if len(_ml) > 1 else '.missing-%s' % _ml[0]), _types,
                            _B % (_n, _types, size_of(_types), _ml, _t), [_t], _ml)
    else:
        _add_config(_label, _types, _B % (_n, _types, size_of(_types), _miss, _typ), _typ, _miss)


FILLERS = {22: ['float'] * 5 + ['FP16'], 23: ['float'] * 5 + ['FP16', 'int8_t'], 24: ['uint32_t'] * 6, 25: ['int32_t'] * 6 + ['uint8_t']}


@contract('C05', 'add_config.boundary.every-type', ADD_F,
          clause='acceptance at the 26-byte payload limit for every type of the last variable: accepted iff filler + size of that type <= 26',
          bounded='fillers of 22, 23, 24 and 25 bytes followed by one variable of each of the 8 types (32 lists), typed explicitly or by the table; period symbolic')
def add_config_boundary(c):
    filler = c.choice('filler', [22, 23, 24, 25])
    last = c.choice('last', TYPE_NAMES)
    typing = c.choice('typing', ['explicit', 'from-table'])
    types = FILLERS[filler] + [last]
    names = names_for(len(types))
    table = list(zip(names, types))
    cf, log = connected(c, table)
    variables = table if typing == 'explicit' else [(nm, None) for nm in names]
    conf = new_config(c, variables, period=c.int('period'))
    do_add_config(c, log, conf)
    check_add_config(c, log, conf, variables, table)


@contract('C05', 'add_config.second-block', ADD_F,
          clause='a further configuration gets the next id (ids wrap at 255) and is appended after the registered ones, which are not disturbed',
          bounded='one registered block, second block of two variables; id counter symbolic')
def add_config_second(c):
    names = names_for(3)
    table = list(zip(names, ['float', 'uint8_t', 'int16_t']))
    cf, log = connected(c, table)
    c.set(log, '_config_id_counter', c.int('next_id', 0, 254))
    first = new_config(c, table[:1], name='first')
    c.invoke((log, 'add_config'), first)
    c.snapshot('first_state', '(first.id, first.valid, len(first.variables))')
    variables = [(names[1], None), (names[2], 'int16_t')]
    conf = new_config(c, variables, period=c.int('period'))
    do_add_config(c, log, conf)
    check_add_config(c, log, conf, variables, table)
    c.ensure('first-block-undisturbed', '(first.id, first.valid, len(first.variables)) == first_state and first.id == next_id')
    c.ensure('ids-distinct', 'implies(raised is None, conf.id != first.id and conf.id == (next_id + 1) % 255)')


@contract('C05', 'add_config.not-connected', [LOG + ':Log.add_config'],
          clause='without a connection (no table to check against) nothing is registered and nothing is sent')
def add_config_not_connected(c):
    cf, log = connected(c, [('g0.v0', 'float')])
    c.set(cf, 'link', None)
    conf = new_config(c, [('g0.v0', 'float'), ('g0.v1', None)])
    c.snapshot('id0', 'log._config_id_counter')
    c.reset_trace()
    c.call((log, 'add_config'), conf)
    c.ensure('no-effect', 'raised is None and len(trace) == 0 and log.log_blocks == [] and conf.valid is False and conf.cf is None and '
             'log._config_id_counter == id0 and len(conf.variables) == 1 and conf.default_fetch_as == ["g0.v1"]')


# --------------------------------------------------------------------------------------- block creation

CREATE_F = [LOG + ':LogConfig.start', LOG + ':LogConfig.create', LOG + ':LogConfig._setup_log_elements', LOG + ':LogConfig._cmd_create_block',
            LOG + ':LogConfig._cmd_append_block', LOG + ':LogVariable.get_storage_and_fetch_byte', TOC + ':Toc.get_element_id',
            STK + ':CRTPPacket.available_data_size']


def added_config(c, variables, table, symbolic_id=True, period=None):
    """connected log + accepted configuration `conf` (real add_config); block id symbolic (any value of the id counter)"""
    cf, log = connected(c, table)
    if symbolic_id:
        c.set(log, '_config_id_counter', c.int('next_id', 0, 254))
    conf = new_config(c, variables, period=period)
    c.invoke((log, 'add_config'), conf)
    c.reset_trace()
    return cf, log, conf


def device_decode_creation(c, name='conf', tag=''):
    """The device model for block creation (firmware logCreateBlockV2 / logAppendBlockV2): every settings message is
    (command, block id) + (len - 2) // 3 triples (type byte, table index low, high); the first message must be a V2 create,
    all later ones V2 appends.  Checks the per-message rules and returns the number of decoded triples; the decoded triples
    are bound as dev_0, dev_1, ... = (type byte, table index)."""
    c.snapshot('msgs', "sent('cf.send_packet')")
    c.ensure(tag + 'nothing-but-transmissions', "len(trace) == len(msgs)")
    n = 0
    for k in range(len(c.get('msgs'))):
        c.snapshot('pk', 'msgs[%d][1][0]' % k)
        c.let('cmd', CMD_CREATE_V2 if k == 0 else CMD_APPEND_V2)
        c.ensure(tag + 'message-%d-within-30-bytes' % k, 'len(pk.data) <= 30')
        c.ensure(tag + 'message-%d-is-%s-for-this-block' % (k, 'append' if k else 'create'),
                 'pk.port == 5 and pk.channel == 1 and len(pk.data) >= 2 and pk.data[0] == cmd and pk.data[1] == %s.id' % name)
        c.ensure(tag + 'message-%d-retry-pattern-is-command-and-id' % k, "msgs[%d][2]['expected_reply'] == (cmd, %s.id) and len(msgs[%d][1]) == 1" % (k, name, k))
        ln = c.concretize('len(pk.data)')
        for j in range((ln - 2) // 3):
            c.snapshot('dev_%d' % n, '(pk.data[%d], pk.data[%d] + 256 * pk.data[%d])' % (2 + 3 * j, 3 + 3 * j, 4 + 3 * j))
            n += 1
    return n


def creation_matches(c, n_decoded, expected_expr, tag=''):
    c.snapshot('expected_entries', expected_expr)
    c.snapshot('device_entries', '(' + ''.join('dev_%d, ' % i for i in range(n_decoded)) + ')')
    c.ensure(tag + 'variables-enumerated-once-in-order-with-index-and-types', 'device_entries == expected_entries')


def type_pattern(n, budget=MAX_PAYLOAD):
    """n type names using every type as far as the 26-byte payload allows"""
    out = []
    k = 0
    for i in range(n):
        room = budget - size_of(out) - (n - i - 1)
        for _ in range(8):
            t = TYPE_NAMES[k % 8]
            k += 1
            if TYPES[t][2] <= room:
                break
        else:
            t = 'uint8_t'
        out.append(t)
    return out


FROM_TABLE_TOO = (1, 2, 9, 10, 18, 19, 26)        # list lengths for which the table-typed way of configuring is explored as well


def _create(n):
    types = type_pattern(n)

    @contract('C05', 'create.n%d' % n, CREATE_F,
              clause='the block-creation messages of an accepted configuration enumerate exactly its variables, once each and in order, with the '
                     'table index and the stored/fetched type byte, first message create, later ones append, each within 30 bytes; nothing else is sent',
              bounded='%d variables (0..26 enumerated = everything add_config accepts) with types %s; table indices, block id and protocol version >= 4 symbolic' % (n, types))
    def k(c):
        names = names_for(n)
        table = list(zip(names, types))
        typing = c.choice('typing', ['explicit', 'from-table'] if n in FROM_TABLE_TOO else ['explicit'])
        variables = table if typing == 'explicit' else [(nm, None) for nm in names]
        cf, log, conf = added_config(c, variables, table, period=c.int('period', 1, 254))
        c.call((conf, 'start'))
        c.ensure('no-exception', 'raised is None')
        nd = device_decode_creation(c)
        creation_matches(c, nd, '(' + ''.join('(%d, ident_%d), ' % (TYPES[t][0] * 17, i) for i, t in enumerate(types)) + ')')
        c.ensure('marked-pending-not-yet-added', 'conf.pending and conf.added is False and conf.started is False')
    return k


for _n in range(26, -1, -1):       # longest first (scheduling)
    _create(_n)


@contract('C05', 'create.memory-variable', CREATE_F + [LOG + ':LogConfig.add_memory'],
          clause='a configuration with a raw-memory variable is created as configured: type byte and 32-bit address of the variable in the create message')
def create_memory_variable(c):
    cf, log = connected(c, [('g0.v0', 'float')])
    f = c.choice('fetch', ['uint8_t', 'float'])
    s = c.choice('stored', ['uint32_t', 'FP16'])
    c.int('address', 0, 2 ** 32 - 1)
    conf = c.new(LOG + ':LogConfig', 'conf', 100)
    c.let('conf', conf)
    c.invoke((conf, 'add_memory'), 'raw', f, s, c.get('address'))
    c.call((log, 'add_config'), conf)
    c.ensure('accepted', 'raised is None and conf.valid is True')
    c.reset_trace()
    c.call((conf, 'start'))
    c.ensure('no-exception', 'raised is None')
    if c.get('raised') is None:
        c.let('tb', TYPES[f][0] + 16 * TYPES[s][0])
        c.ensure('one-create-message', "len(sent('cf.send_packet')) == 1 and len(trace) == 1")
        c.ensure('layout', "bytes(sent('cf.send_packet')[0][1][0].data) == pack('<BBBI', 6, conf.id, tb, address)")


def _limits(kind):
    @contract('C05', 'create.limits.%s' % kind, [LOG + ':LogConfig.create'],
              clause='block creation is refused before anything is sent when 16 blocks are already pending/added/started or when the variables of '
                     'those blocks plus the new ones exceed 128 (device limits); otherwise it proceeds',
              bounded=('17 other blocks, 14 of them active, 3 with symbolic pending/added/started flags' if kind == 'blocks' else
                       '7 other blocks: 4 active with 26 variables, 3 with 20, 2 and 1 variables and symbolic flags; own configuration 2 variables'))
    def k(c):
        table = [('g0.v0', 'float'), ('g1.v1', 'uint8_t')]
        cf, log, conf = added_config(c, table, table)
        others = []
        if kind == 'blocks':
            shapes = [(0, 'pas'[i % 3]) for i in range(14)] + [(1, None)] * 3
        else:
            shapes = [(26, 'pas'[i % 3]) for i in range(4)] + [(20, None), (2, None), (1, None)]
        terms, vterms = [], []
        for i, (nv, flag) in enumerate(shapes):
            o = new_config(c, [('x.y%d' % j, 'uint8_t') for j in range(nv)], name='other%d' % i)
            if flag is None:
                for fl, attr in (('p', 'pending'), ('a', '_added'), ('s', '_started')):
                    c.set(o, attr, c.bool('%s%d' % (fl, i)))
                terms.append('(1 if (p%d or a%d or s%d) else 0)' % (i, i, i))
                vterms.append('(%d if (p%d or a%d or s%d) else 0)' % (nv, i, i, i))
            else:
                c.set(o, {'p': 'pending', 'a': '_added', 's': '_started'}[flag], True)
                terms.append('1')
                vterms.append('%d' % nv)
            others.append(o)
        c.set(log, 'log_blocks', c.list(others[:5] + [conf] + others[5:]))
        c.reset_trace()
        c.call((conf, 'start'))
        c.snapshot('active', ' + '.join(terms))
        c.snapshot('active_vars', ' + '.join(vterms))
        c.ensure('refused-iff-device-limits-exceeded', "iff(raised is not None, active >= 16 or active_vars + 2 > 128) and raised in (None, 'AttributeError')")
        c.ensure('nothing-sent-when-refused', "implies(raised is not None, len(trace) == 0 and not conf.pending)")
        c.ensure('created-otherwise', "implies(raised is None, len(sent('cf.send_packet')) == 1 and len(trace) == 1 and conf.pending)")
    return k


_limits('blocks')
_limits('variables')


# --------------------------------------------------------------------------------------- acknowledgements

ACK_F = [LOG + ':Log._new_packet_cb', LOG + ':Log._find_block', LOG + ':LogConfig._set_added', LOG + ':LogConfig._set_started',
         LOG + ':LogConfig._get_added', LOG + ':LogConfig._get_started']


def deliver_settings(c, log, cmd_expr, id_expr, status_expr):
    """the device's answer on the log settings channel: (command, block id, status)"""
    c.snapshot('ackdata', 'bytes([%s, %s, %s])' % (cmd_expr, id_expr, status_expr))
    c.call((log, '_new_packet_cb'), c.new(STK + ':CRTPPacket', 0x5D, c.get('ackdata')))


def settings_message_is(c, k, layout_expr, reply_expr):
    """spec expression: the k-th transmitted packet is the given settings message with the given retry pattern"""
    if len([e for e in c.get('trace') if e[0] == 'cf.send_packet']) <= k:
        return 'False'
    c.snapshot('pk', "sent('cf.send_packet')[%d][1][0]" % k)
    return ("pk.port == 5 and pk.channel == 1 and bytes(pk.data) == %s and sent('cf.send_packet')[%d][2]['expected_reply'] == %s "
            "and len(sent('cf.send_packet')[%d][1]) == 1" % (layout_expr, k, reply_expr, k))


@contract('C05', 'ack.step', ACK_F,
          clause='the added/started flags and their callbacks change only as the acknowledgement dictates: start is sent exactly on a create '
                 'acknowledgement with status 0/EEXIST for a block that is not yet added; added on that, started on a successful start, stopped on a '
                 'successful stop, both cleared on delete (0/ENOENT); errors are reported and change no flag; other blocks are never touched',
          bounded='two registered blocks in any flag state; any command byte, block id and any status the firmware can answer (0, ENOENT, ENOEXEC, ENOMEM, E2BIG, EEXIST)')
def ack_step(c):
    table = [('g0.v0', 'float'), ('g1.v1', 'uint8_t')]
    cf, log = connected(c, table)
    c.set(log, '_config_id_counter', c.int('next_id', 0, 253))
    blocks = []
    for nm in ('A', 'B'):
        b = new_config(c, table, name=nm, period=c.int('period' + nm, 1, 254))
        c.invoke((log, 'add_config'), b)
        c.set(b, '_added', c.bool('added' + nm))
        c.set(b, '_started', c.bool('started' + nm))
        c.set(b, 'pending', c.bool('pending' + nm))
        c.set(b, 'err_no', c.int('errno' + nm, 0, 255))
        watch(c, b, nm)
        blocks.append(b)
    c.int('cmd', 0, 255), c.int('bid', 0, 255), c.int('status', 0, 255)
    c.require('status in (0, %d, %d, %d, %d, %d)' % ERR_CODES)
    c.reset_trace()
    deliver_settings(c, log, 'cmd', 'bid', 'status')
    c.ensure('no-exception', 'raised is None')
    c.snapshot('ok_status', 'status == 0 or status == %d' % EEXIST)
    c.snapshot('is_create', 'cmd == 0 or cmd == 6')
    for nm in ('A', 'B'):
        c.let('T', c.get(nm))
        c.let('added0', c.get('added' + nm)), c.let('started0', c.get('started' + nm)), c.let('pending0', c.get('pending' + nm))
        c.let('errno0', c.get('errno' + nm))
        c.snapshot('hit', 'bid == T.id')
        c.snapshot('creates', 'hit and is_create and ok_status and not added0')
        c.snapshot('create_err', 'hit and is_create and not ok_status')
        c.snapshot('start_err', 'hit and cmd == 3 and status != 0')
        c.snapshot('deleted', 'hit and cmd == 2 and (status == 0 or status == %d)' % ENOENT)
        c.snapshot('added1', 'True if creates else (False if deleted else added0)')
        c.snapshot('started1', 'True if (hit and cmd == 3 and status == 0) else (False if (deleted or (hit and cmd == 4 and status == 0)) else started0)')
        c.ensure(nm + '-flags-follow-the-acknowledgement', 'T.added is added1 and T.started is started1')
        c.ensure(nm + '-pending-cleared-only-when-created', 'T.pending is (False if creates else pending0)')
        c.ensure(nm + '-error-code-recorded-only-on-errors', 'T.err_no == (status if (create_err or start_err) else errno0)')
        c.snapshot('n_added_cb', "len(sent('%s_added'))" % nm)
        c.snapshot('n_started_cb', "len(sent('%s_started'))" % nm)
        c.snapshot('n_error_cb', "len(sent('%s_error'))" % nm)
        c.ensure(nm + '-added-callback-iff-change-or-create-error', 'n_added_cb == (1 if (added1 != added0 or create_err) else 0)')
        c.ensure(nm + '-started-callback-iff-change-or-start-error', 'n_started_cb == (1 if (started1 != started0 or start_err) else 0)')
        c.ensure(nm + '-error-callback-iff-create-error', 'n_error_cb == (1 if create_err else 0)')
        if len(c.get('trace')) and c.concretize('n_added_cb') == 1:
            c.snapshot('cbargs', "sent('%s_added')[0][1]" % nm)
            c.ensure(nm + '-added-callback-arguments', '(cbargs[-1] is False) if create_err else (is_same(cbargs[0], T) and cbargs[1] is added1)')
        if len(c.get('trace')) and c.concretize('n_started_cb') == 1:
            c.snapshot('cbargs', "sent('%s_started')[0][1]" % nm)
            c.ensure(nm + '-started-callback-arguments', '(cbargs[-1] is False) if start_err else (is_same(cbargs[0], T) and cbargs[1] is started1)')
        if len(c.get('trace')) and c.concretize('n_error_cb') == 1:
            c.ensure(nm + '-error-callback-arguments', "is_same(sent('%s_error')[0][1][0], T) and typename(sent('%s_error')[0][1][1]) == 'str'" % (nm, nm))
        c.ensure(nm + '-no-data-callback', "len(sent('%s_data_received')) == 0" % nm)
    c.let('A', blocks[0]), c.let('B', blocks[1])
    c.snapshot('TA', 'bid == A.id and is_create and ok_status and not addedA')
    c.snapshot('TB', 'bid == B.id and is_create and ok_status and not addedB')
    c.ensure('start-sent-exactly-on-successful-create-of-a-new-block', "len(sent('cf.send_packet')) == (1 if (TA or TB) else 0) and len(calls('cf.')) == len(sent('cf.send_packet'))")
    if len(c.get('trace')) and len([e for e in c.get('trace') if e[0] == 'cf.send_packet']) == 1:
        c.ensure('start-message', settings_message_is(c, 0, "pack('<BBB', 3, bid, A.period if TA else B.period)", '(3, bid)'))
    c.ensure('registrations-unchanged', 'len(log.log_blocks) == 2 and is_same(log.log_blocks[0], A) and is_same(log.log_blocks[1], B)')


# --------------------------------------------------------------------------------------- log data

DATA_F = [LOG + ':Log._new_packet_cb', LOG + ':Log._find_block', LOG + ':LogConfig.unpack_log_data', LOG + ':LogTocElement.get_size_from_id',
          LOG + ':LogTocElement.get_unpack_string_from_id']


def device_sample(c, types, tag):
    """the device side of one log data packet: symbolic values of the given types and a 24-bit timestamp; returns
    (expression of the packet payload after the block id, list of per-variable checks on a decoded value `got`)"""
    c.int('ts' + tag, 0, 2 ** 24 - 1)
    parts = ["bytes([ts%s & 255, (ts%s >> 8) & 255, ts%s >> 16])" % (tag, tag, tag)]
    checks = []
    for i, t in enumerate(types):
        _id, fmt, size = TYPES[t]
        v = 'val%s_%d' % (tag, i)
        if t == 'float':
            c.float(v)
            c.require('fits_f32(%s)' % v)
            parts.append("pack('<f', %s)" % v)
            checks.append('same_float(got, f32(%s))' % v)
        elif t == 'FP16':
            c.int(v, 0, 65535)       # the 16 bits of the half-precision value the device holds
            parts.append("pack('<H', %s)" % v)
            checks.append('same_float(got, fp16_value(%s))' % v)
        else:
            bits = 8 * size
            if fmt[1].islower():
                c.int(v, -(2 ** (bits - 1)), 2 ** (bits - 1) - 1)
            else:
                c.int(v, 0, 2 ** bits - 1)
            parts.append("pack('%s', %s)" % (fmt, v))
            checks.append("got == %s and typename(got) == 'int'" % v)
    return ' + '.join(parts), checks


def deliver_data(c, log, id_expr, body_expr):
    c.snapshot('logdata', 'bytes([%s]) + %s' % (id_expr, body_expr))
    c.call((log, '_new_packet_cb'), c.new(STK + ':CRTPPacket', 0x5E, c.get('logdata')))


def n_sent(c, name):
    return len([e for e in c.get('trace') if e[0] == name])


def sample_is(c, entry_expr, names, checks, tag, conf='conf', prefix='', available=True):
    """entry_expr evaluates to the (timestamp, data, block) triple handed to the application"""
    if not available:
        c.ensure(prefix + 'sample-delivered', 'False')
        return
    c.snapshot('entry', entry_expr)
    c.ensure(prefix + 'timestamp-and-block', 'len(entry) == 3 and entry[0] == ts%s and is_same(entry[2], %s)' % (tag, conf))
    c.ensure(prefix + 'exactly-the-configured-names', "typename(entry[1]) == 'dict' and len(entry[1]) == %d and all(n in entry[1] for n in %r)" % (len(names), tuple(names)))
    for nm, chk in zip(names, checks):
        c.snapshot('got', 'entry[1][%r]' % nm)
        c.ensure(prefix + 'value-of-%s' % nm, chk)


def _data(label, types_or_n, bound):
    @contract('C05', 'data.%s' % label, DATA_F,
              clause='every log data packet of a block is decoded into exactly the 24-bit timestamp and the per-variable values the device encoded '
                     '(little endian, in the order of the block, every value incl. extremes) and handed to the data callback exactly once',
              bounded=bound)
    def k(c):
        if isinstance(types_or_n, int):
            types = [c.choice('type%d' % i, TYPE_NAMES) for i in range(types_or_n)]
        else:
            types = list(types_or_n)
        names = names_for(len(types))
        table = list(zip(names, types))
        cf, log, conf = added_config(c, table, table)
        watch(c, conf)
        c.set(conf, '_added', True), c.set(conf, '_started', True)
        body, checks = device_sample(c, types, '')
        c.reset_trace()
        deliver_data(c, log, 'conf.id', body)
        c.ensure('no-exception', 'raised is None')
        c.ensure('one-data-callback-nothing-else', "len(sent('conf_data_received')) == 1 and len(trace) == 1")
        sample_is(c, "sent('conf_data_received')[0][1]", names, checks, '', available=n_sent(c, 'conf_data_received') >= 1)
        c.ensure('flags-untouched', 'conf.added is True and conf.started is True')
    return k


_data('n0', [], 'configuration without variables')
_data('n1.every-type', 1, 'one variable of each of the 8 types; value, timestamp, block id symbolic')
_data('n2.every-type-pair', 2, 'two variables, all 64 type pairs; values, timestamp, block id symbolic')
_data('n3.every-type-triple', 3, 'three variables, all 512 type triples (every combination of sizes in front of a variable of every type); values, timestamp, block id symbolic')
_data('n10.all-types26', TYPE_NAMES + ['uint32_t', 'uint16_t'], '10 variables using every type, payload exactly 26 bytes')
_data('n26.bytes', ['uint8_t', 'int8_t'] * 13, '26 one-byte variables, payload exactly 26 bytes')
_data('n7.words-half', ['float', 'uint32_t', 'int32_t', 'float', 'uint32_t', 'int32_t', 'FP16'], '7 variables, payload exactly 26 bytes')


@contract('C05', 'data.routing', DATA_F,
          clause='a data packet is decoded by the block whose id it carries and by no other; packets of unknown blocks are dropped',
          bounded='two registered blocks (float+uint8 / int16), symbolic packet block id')
def data_routing(c):
    table = [('g0.v0', 'float'), ('g1.v1', 'uint8_t'), ('g2.v2', 'int16_t')]
    cf, log = connected(c, table)
    c.set(log, '_config_id_counter', c.int('next_id', 0, 253))
    A = new_config(c, table[:2], name='A')
    B = new_config(c, table[2:], name='B')
    for b, nm in ((A, 'A'), (B, 'B')):
        c.invoke((log, 'add_config'), b)
        watch(c, b, nm)
    which = c.choice('target', ['A', 'B', 'unknown'])
    types = {'A': ['float', 'uint8_t'], 'B': ['int16_t'], 'unknown': ['uint8_t']}[which]
    names = {'A': ['g0.v0', 'g1.v1'], 'B': ['g2.v2'], 'unknown': []}[which]
    body, checks = device_sample(c, types, '')
    c.int('bid', 0, 255)
    c.require({'A': 'bid == A.id', 'B': 'bid == B.id', 'unknown': 'bid != A.id and bid != B.id'}[which])
    c.reset_trace()
    deliver_data(c, log, 'bid', body)
    c.ensure('no-exception', 'raised is None')
    if which == 'unknown':
        c.ensure('dropped', 'len(trace) == 0')
    else:
        c.ensure('only-the-addressed-block-decodes', "len(sent('%s_data_received')) == 1 and len(trace) == 1" % which)
        sample_is(c, "sent('%s_data_received')[0][1]" % which, names, checks, '', conf=which, available=n_sent(c, which + '_data_received') >= 1)


@contract('C05', 'data.consecutive-packets', DATA_F,
          clause='each decoded sample keeps the values of ITS packet: a sample handed out earlier is not changed by decoding later packets',
          bounded='three consecutive packets of a block with float, uint16 and int8 variables')
def data_consecutive(c):
    types = ['float', 'uint16_t', 'int8_t']
    names = names_for(3)
    table = list(zip(names, types))
    cf, log, conf = added_config(c, table, table)
    watch(c, conf)
    samples = []
    for tag in ('a', 'b', 'c'):
        body, checks = device_sample(c, types, tag)
        deliver_data(c, log, 'conf.id', body)
        c.ensure('no-exception-' + tag, 'raised is None')
        samples.append(checks)
    c.ensure('one-callback-per-packet-in-order', "len(sent('conf_data_received')) == 3 and len(trace) == 3")
    for k, tag in enumerate('abc'):
        sample_is(c, "sent('conf_data_received')[%d][1]" % k, names, samples[k], tag, prefix='sample-%s-' % tag,
                  available=n_sent(c, 'conf_data_received') > k)


# --------------------------------------------------------------------------------------- histories

LIFE_F = ADD_F + CREATE_F + ACK_F + [LOG + ':LogConfig.stop', LOG + ':LogConfig.delete', LOG + ':Log.refresh_toc', LOG + ':Log._send_reset_packet']


def entries_expr(variables, table, idents):
    """expected device view of the block: (type byte, table index) per configured variable, in the order of the configuration"""
    return '(' + ''.join('(%d, %s), ' % (fid + 16 * sid, idents[nm]) for nm, fid, sid, _k in expected_variables(variables, table)) + ')'


def expect_flags(c, tag, added, started, n_added_cb, n_started_cb, name='conf'):
    c.ensure(tag + '-flags', '%s.added is %r and %s.started is %r' % (name, added, name, started))
    c.ensure(tag + '-callbacks', "len(sent('%s_added')) == %d and len(sent('%s_started')) == %d and len(sent('%s_error')) == 0" % (
        name, n_added_cb, name, n_started_cb, name))


@contract('C05', 'lifecycle', LIFE_F,
          clause='add / start / acknowledge / stop / restart / delete / start-again history of one block: creation and command messages are exact, '
                 'the added/started flags and callbacks change exactly at the acknowledgements, and a deleted block is created again with the same variables',
          bounded='one block of three variables (explicitly typed and table-typed mixed); block id, period, table indices symbolic; create status 0/EEXIST, delete status 0/ENOENT')
def lifecycle(c):
    names = names_for(3)
    table = list(zip(names, ['float', 'uint16_t', 'int8_t']))
    variables = [(names[0], 'float'), (names[1], None), (names[2], 'int8_t')]
    cf, log = connected(c, table)
    idents = {nm: 'ident_%d' % i for i, nm in enumerate(names)}
    c.set(log, '_config_id_counter', c.int('next_id', 0, 254))
    conf = new_config(c, variables, period=c.int('period', 1, 254))
    watch(c, conf)
    do_add_config(c, log, conf)
    check_add_config(c, log, conf, variables, table, tag='add-')
    expected = entries_expr(variables, table, idents)
    # first start: the block does not exist yet -> creation messages
    c.reset_trace()
    c.call((conf, 'start'))
    c.ensure('start-1-no-exception', 'raised is None')
    creation_matches(c, device_decode_creation(c, tag='creation-1-'), expected, tag='creation-1-')
    expect_flags(c, 'requested', False, False, 0, 0)
    # the device acknowledges the creation -> the library starts the block
    c.reset_trace()
    deliver_settings(c, log, '6', 'conf.id', str(c.choice('create_status', [0, EEXIST])))
    c.ensure('create-ack-handled', "raised is None and len(sent('cf.send_packet')) == 1 and len(calls('cf.')) == 1")
    c.ensure('start-message-after-create-ack', settings_message_is(c, 0, "pack('<BBB', 3, conf.id, period)", '(3, conf.id)'))
    expect_flags(c, 'created', True, False, 1, 0)
    c.ensure('added-callback-arguments', "len(sent('conf_added')) == 1 and is_same(sent('conf_added')[0][1][0], conf) and sent('conf_added')[0][1][1] is True")
    c.reset_trace()
    deliver_settings(c, log, '3', 'conf.id', '0')
    c.ensure('start-ack-handled', "raised is None and len(calls('cf.')) == 0")
    expect_flags(c, 'started', True, True, 0, 1)
    c.ensure('started-callback-arguments', "len(sent('conf_started')) == 1 and is_same(sent('conf_started')[0][1][0], conf) and sent('conf_started')[0][1][1] is True")
    # a duplicated create acknowledgement (retry) changes nothing
    c.reset_trace()
    deliver_settings(c, log, '6', 'conf.id', '0')
    c.ensure('duplicate-create-ack-ignored', 'raised is None and len(trace) == 0 and conf.added is True and conf.started is True')
    # stop
    c.reset_trace()
    c.call((conf, 'stop'))
    c.ensure('stop-sends-one-message', "raised is None and len(sent('cf.send_packet')) == 1 and len(trace) == 1")
    c.ensure('stop-message', settings_message_is(c, 0, "pack('<BB', 4, conf.id)", '(4, conf.id)'))
    expect_flags(c, 'stop-requested', True, True, 0, 0)
    c.reset_trace()
    deliver_settings(c, log, '4', 'conf.id', '0')
    c.ensure('stop-ack-handled', "raised is None and len(calls('cf.')) == 0")
    expect_flags(c, 'stopped', True, False, 0, 1)
    c.ensure('stopped-callback-arguments', "len(sent('conf_started')) == 1 and is_same(sent('conf_started')[0][1][0], conf) and sent('conf_started')[0][1][1] is False")
    # start of an existing block: only the start command
    c.reset_trace()
    c.call((conf, 'start'))
    c.ensure('restart-sends-one-message', "raised is None and len(sent('cf.send_packet')) == 1 and len(trace) == 1")
    c.ensure('restart-message', settings_message_is(c, 0, "pack('<BBB', 3, conf.id, period)", '(3, conf.id)'))
    c.reset_trace()
    deliver_settings(c, log, '3', 'conf.id', '0')
    expect_flags(c, 'restarted', True, True, 0, 1)
    # delete
    c.reset_trace()
    c.call((conf, 'delete'))
    c.ensure('delete-sends-one-message', "raised is None and len(sent('cf.send_packet')) == 1 and len(trace) == 1")
    c.ensure('delete-message', settings_message_is(c, 0, "pack('<BB', 2, conf.id)", '(2, conf.id)'))
    expect_flags(c, 'delete-requested', True, True, 0, 0)
    c.reset_trace()
    deliver_settings(c, log, '2', 'conf.id', str(c.choice('delete_status', [0, ENOENT])))
    c.ensure('delete-ack-handled', "raised is None and len(calls('cf.')) == 0")
    expect_flags(c, 'deleted', False, False, 1, 1)
    c.ensure('deleted-callback-arguments', "len(sent('conf_added')) == 1 and len(sent('conf_started')) == 1 and sent('conf_added')[0][1][1] is False and sent('conf_started')[0][1][1] is False")
    variable_state(c, conf)
    c.ensure('variable-list-unchanged-by-the-history', 'vars_of_conf == expected')
    # started again after the deletion: created again, same variables
    c.reset_trace()
    c.call((conf, 'start'))
    c.ensure('start-2-no-exception', 'raised is None')
    creation_matches(c, device_decode_creation(c, tag='creation-2-'), expected, tag='creation-2-')


@contract('C05', 'commands.no-link', [LOG + ':LogConfig.start', LOG + ':LogConfig.stop', LOG + ':LogConfig.delete'],
          clause='nothing is sent for a block once the link is gone')
def commands_no_link(c):
    table = [('g0.v0', 'float')]
    cf, log, conf = added_config(c, table, table)
    c.set(conf, '_added', c.bool('added'))
    c.set(cf, 'link', None)
    c.reset_trace()
    for m in ('start', 'stop', 'delete'):
        c.call((conf, m))
        c.ensure(m + '-silent', 'raised is None and len(trace) == 0')


READD_TYPINGS = {'explicit': (1, 1, 1), 'from-table': (0, 0, 0), 'mixed-a': (0, 1, 0), 'mixed-b': (1, 0, 0), 'mixed-c': (0, 0, 1)}


def _readd(typing):
    @contract('C05', 'readd.%s' % typing, LIFE_F,
              clause='re-adding a configuration after a reconnect does not change its variable list: whatever happened to it in the earlier session '
                     '(accepted, or rejected because a variable was missing from that table, with nothing sent), after the re-add it holds exactly the '
                     'configured variables once each and the creation messages enumerate exactly those with the indices of the NEW table',
              bounded='three variables (float, int16, FP16), typing pattern %s; variable missing in the first session: none/first/second/third; '
                      'two reconnects; table indices of every session symbolic' % typing)
    def k(c):
        names = names_for(3)
        types = ['float', 'int16_t', 'FP16']
        full = list(zip(names, types))
        variables = [(nm, ty if e else None) for (nm, ty), e in zip(full, READD_TYPINGS[typing])]
        missing = c.choice('missing_in_first_session', ['none', 0, 1, 2])
        table1 = [x for i, x in enumerate(full) if i != missing]
        cf, log = connected(c, table1)
        conf = new_config(c, variables)
        do_add_config(c, log, conf)
        check_add_config(c, log, conf, variables, table1, tag='session1-')
        # reconnect to a Crazyflie that has all the variables (other table indices), add the same object again
        idents = new_session(c, log, full, tag='b')
        c.ensure('registrations-dropped-at-reconnect', 'log.log_blocks == []')
        do_add_config(c, log, conf)
        c.ensure('session2-accepted', 'raised is None')
        check_add_config(c, log, conf, variables, full, tag='session2-')
        # and once more
        idents = new_session(c, log, list(reversed(full)), tag='c')
        do_add_config(c, log, conf)
        c.ensure('session3-accepted', 'raised is None')
        check_add_config(c, log, conf, variables, full, tag='session3-')
        c.reset_trace()
        c.call((conf, 'start'))
        c.ensure('start-no-exception', 'raised is None')
        creation_matches(c, device_decode_creation(c), entries_expr(variables, full, idents))
    return k


for _t in READD_TYPINGS:
    _readd(_t)


@contract('C05', 'readd.block-created-in-new-session', LIFE_F,
          clause='a configuration that was added (and started) in an earlier session and is added again after a reconnect is created on the new '
                 'device when started: the creation messages enumerate its variables',
          bounded='two variables; the first session ends by link loss (no delete acknowledged)',
          )          # FINDING on the unchanged tree (see module docstring): recorded in known_findings.json
def readd_created_again(c):
    names = names_for(2)
    table = list(zip(names, ['float', 'uint8_t']))
    cf, log = connected(c, table)
    conf = new_config(c, table)
    watch(c, conf)
    do_add_config(c, log, conf)
    c.call((conf, 'start'))
    deliver_settings(c, log, '6', 'conf.id', '0')
    deliver_settings(c, log, '3', 'conf.id', '0')
    c.ensure('session1-added-and-started', 'conf.added is True and conf.started is True')
    idents = new_session(c, log, table, tag='b')
    do_add_config(c, log, conf)
    check_add_config(c, log, conf, table, table, tag='session2-')
    c.reset_trace()
    c.call((conf, 'start'))
    c.ensure('start-no-exception', 'raised is None')
    c.ensure('creation-requested-in-new-session', "len(sent('cf.send_packet')) >= 1 and sent('cf.send_packet')[0][1][0].data[0] == 6")
    if len(c.get('trace')) and c.concretize("sent('cf.send_packet')[0][1][0].data[0]") == 6:
        creation_matches(c, device_decode_creation(c), entries_expr(table, table, idents))


# --------------------------------------------------------------------------------------- SyncLogger

SYNC_F = [SYN + ':SyncLogger.__init__', SYN + ':SyncLogger.connect', SYN + ':SyncLogger.disconnect', SYN + ':SyncLogger.__next__',
          SYN + ':SyncLogger._log_callback', SYN + ':SyncLogger._disconnected', SYN + ':SyncLogger.is_connected',
          LOG + ':LogConfig.unpack_log_data', LOG + ':Log._new_packet_cb']
SYNC_TYPES = ['float', 'uint16_t', 'int8_t']
URI = 'radio://0/80/2M'


def sync_setup(c, n_configs=1, as_list=False, wrapped=False):
    """connected log, `disconnected` a real Caller, configurations conf0.. (three variables each) and a real SyncLogger
    (wrapped: constructed from a real SyncCrazyflie around the Crazyflie stub)"""
    names = names_for(3 * n_configs)
    table = list(zip(names, SYNC_TYPES * n_configs))
    cf, log = connected(c, table)
    disc = c.new('cflib.utils.callbacks:Caller')
    c.set(cf, 'disconnected', disc)
    c.let('disc', disc)
    confs = [new_config(c, table[3 * i:3 * i + 3], name='conf%d' % i) for i in range(n_configs)]
    owner = c.new('cflib.crazyflie.syncCrazyflie:SyncCrazyflie', URI, cf) if wrapped else cf
    sl = c.new(SYN + ':SyncLogger', owner, confs if (as_list or n_configs > 1) else confs[0])
    c.let('sl', sl)
    c.reset_trace()
    return cf, log, disc, confs, sl, names


def sync_connect(c, log, sl, confs):
    c.reset_trace()
    c.call((sl, 'connect'))
    c.ensure('connect-no-exception', 'raised is None and sl.is_connected() is True')
    for i in range(len(confs)):
        deliver_settings(c, log, '6', 'conf%d.id' % i, '0')
        deliver_settings(c, log, '3', 'conf%d.id' % i, '0')
        c.ensure('conf%d-running' % i, 'raised is None and conf%d.added is True and conf%d.started is True' % (i, i))


def _sync_session(schedule, ending, **opts):
    @contract('C05', 'synclogger.session.%s.%s' % (schedule or 'idle', ending), SYNC_F,
              clause='SyncLogger adds and starts its configuration, yields each decoded sample exactly once, in arrival order, with the values of its '
                     'own packet, and stops at disconnect (explicit disconnect: stop and delete are sent; link loss: nothing is sent); packets after '
                     'the disconnect are not queued',
              bounded='one configuration (float, uint16, int8); arrival(D)/read(N) schedule %r; all values symbolic' % schedule, **opts)
    def k(c):
        cf, log, disc, confs, sl, names = sync_setup(c)
        sync_connect(c, log, sl, confs)
        c.ensure('registered-and-listening', 'len(log.log_blocks) == 1 and is_same(log.log_blocks[0], conf0) and len(disc.callbacks) == 1 '
                 'and len(conf0.data_received_cb.callbacks) == 1')
        c.snapshot('msgs0', "sent('cf.send_packet')")
        c.ensure('creation-then-start-requested', 'len(msgs0) == 2 and msgs0[0][1][0].data[0] == 6 and msgs0[1][1][0].data[0] == 3')
        arrived = []
        read = 0
        for step, ev in enumerate(schedule):
            if ev == 'D':
                tag = 's%d' % len(arrived)
                body, checks = device_sample(c, SYNC_TYPES, tag)
                deliver_data(c, log, 'conf0.id', body)
                c.ensure('packet-%d-handled' % step, 'raised is None')
                arrived.append((tag, checks))
            else:
                c.call((sl, '__next__'))
                c.ensure('read-%d-returns' % step, 'raised is None')
                tag, checks = arrived[read]
                sample_is(c, 'result', names, checks, tag, conf='conf0', prefix='read-%d-' % step, available=c.get('raised') is None)
                read += 1
            c.ensure('queue-length-%d' % step, 'sl._queue.qsize() == %d' % (len(arrived) - read))
        c.reset_trace()
        if ending == 'link-lost':
            c.set(cf, 'link', None)
            c.reset_trace()
            c.call((disc, 'call'), URI)
            c.ensure('link-loss-handled-silently', "raised is None and len(calls('cf.')) == 0")
        else:
            c.call((sl, 'disconnect'))
            c.ensure('disconnect-no-exception', 'raised is None')
            c.ensure('stop-then-delete-sent', "len(sent('cf.send_packet')) == 2 and len(calls('cf.')) == 2")
            c.ensure('stop-message', settings_message_is(c, 0, "pack('<BB', 4, conf0.id)", '(4, conf0.id)'))
            c.ensure('delete-message', settings_message_is(c, 1, "pack('<BB', 2, conf0.id)", '(2, conf0.id)'))
        c.ensure('disconnected-state', 'sl.is_connected() is False and len(disc.callbacks) == 0 and len(conf0.data_received_cb.callbacks) == 0')
        c.snapshot('qlen', 'sl._queue.qsize()')
        c.call((sl, '__next__'))
        c.ensure('iteration-ends-at-disconnect', "raised == 'StopIteration'")
        body, _checks = device_sample(c, SYNC_TYPES, 'late')
        deliver_data(c, log, 'conf0.id', body)
        c.ensure('late-packet-not-queued', 'raised is None and sl._queue.qsize() == qlen')
    return k


for _s in ('', 'DN', 'DDDNNN', 'DNDDNN', 'DD'):
    for _e in ('link-lost', 'disconnect'):
        _sync_session(_s, _e)
# together with the above: EVERY arrival/read schedule of up to four events (a read only when a sample is waiting; the blocked read is synclogger.blocks-when-empty
# and synclogger.reader-waiting.*)
for _s in ('D', 'DDD', 'DDN', 'DND', 'DDDD', 'DDDN', 'DDND', 'DDNN', 'DNDD', 'DNDN'):
    for _e in ('link-lost', 'disconnect'):
        _sync_session(_s, _e)


@contract('C05', 'synclogger.blocks-when-empty', SYNC_F,
          clause='with no sample available the iterator blocks (it never invents or repeats a sample)',
          bounded='one sample arrived and read, second read')
def sync_blocks(c):
    cf, log, disc, confs, sl, names = sync_setup(c)
    sync_connect(c, log, sl, confs)
    body, checks = device_sample(c, SYNC_TYPES, 's0')
    deliver_data(c, log, 'conf0.id', body)
    c.call((sl, '__next__'))
    c.ensure('first-read-returns', 'raised is None')
    c.call((sl, '__next__'))
    c.ensure('second-read-blocks', "raised == 'Deadlock'")


@contract('C05', 'synclogger.connect-twice', SYNC_F,
          clause='a second connect of a connected SyncLogger is refused and adds / sends nothing')
def sync_twice(c):
    cf, log, disc, confs, sl, names = sync_setup(c)
    sync_connect(c, log, sl, confs)
    c.reset_trace()
    c.call((sl, 'connect'))
    c.ensure('refused-without-effect', "raised == 'Exception' and len(trace) == 0 and len(log.log_blocks) == 1 and len(disc.callbacks) == 1 and "
             "len(conf0.data_received_cb.callbacks) == 1 and sl.is_connected() is True")


@contract('C05', 'synclogger.two-configs', SYNC_F,
          clause='with several configurations every one is added and started, and the samples of all of them are yielded once each in arrival order',
          bounded='two configurations of three variables; arrivals conf1, conf0, conf1 then three reads')
def sync_two(c):
    cf, log, disc, confs, sl, names = sync_setup(c, 2, wrapped=True)
    sync_connect(c, log, sl, confs)
    c.ensure('both-registered', 'len(log.log_blocks) == 2 and conf0.id != conf1.id')
    order = [1, 0, 1]
    arrived = []
    for k, which in enumerate(order):
        body, checks = device_sample(c, SYNC_TYPES, 's%d' % k)
        deliver_data(c, log, 'conf%d.id' % which, body)
        c.ensure('packet-%d-handled' % k, 'raised is None')
        arrived.append(checks)
    for k, which in enumerate(order):
        c.call((sl, '__next__'))
        c.ensure('read-%d-returns' % k, 'raised is None')
        sample_is(c, 'result', names[3 * which:3 * which + 3], arrived[k], 's%d' % k, conf='conf%d' % which, prefix='read-%d-' % k,
                  available=c.get('raised') is None)
    c.reset_trace()
    c.call((sl, 'disconnect'))
    c.snapshot('cmds', "tuple((e[1][0].data[0], e[1][0].data[1]) for e in sent('cf.send_packet'))")
    c.ensure('every-config-stopped-and-deleted', 'raised is None and cmds == ((4, conf0.id), (2, conf0.id), (4, conf1.id), (2, conf1.id))')


@contract('C05', 'synclogger.reuse', SYNC_F,
          clause='a SyncLogger connected again after a disconnect yields the samples of the new session, ending at the disconnect of that session '
                 '(no sample or end marker of the earlier session is delivered in the new one)',
          bounded='one sample in the first session left unread at link loss, one sample in the second session',
          )          # FINDING on the unchanged tree (see module docstring): recorded in known_findings.json
def sync_reuse(c):
    cf, log, disc, confs, sl, names = sync_setup(c)
    sync_connect(c, log, sl, confs)
    body, checks_old = device_sample(c, SYNC_TYPES, 'old')
    deliver_data(c, log, 'conf0.id', body)
    c.call((sl, 'disconnect'))
    deliver_settings(c, log, '4', 'conf0.id', '0')
    deliver_settings(c, log, '2', 'conf0.id', '0')
    c.call((disc, 'call'), URI)
    c.ensure('session1-over', 'sl.is_connected() is False and conf0.added is False')
    new_session(c, log, list(zip(names, SYNC_TYPES)), tag='b')
    sync_connect(c, log, sl, confs)
    body, checks_new = device_sample(c, SYNC_TYPES, 'new')
    deliver_data(c, log, 'conf0.id', body)
    c.call((sl, '__next__'))
    c.ensure('read-returns', 'raised is None')
    if c.get('raised') is None:
        sample_is(c, 'result', names, checks_new, 'new', conf='conf0', prefix='first-read-of-new-session-')


# ---------------------------------------------------------------------------------------------------------------------
# extension round: Log.reset histories, the packet route into the Log, fetch type != table type, id reuse, malformed names,
# the with-statement / iterator protocol of SyncLogger, a reader blocked in the queue when the session ends
# ---------------------------------------------------------------------------------------------------------------------

RESET_F = LIFE_F + [LOG + ':Log.reset', LOG + ':LogConfig.unpack_log_data']
RESET_SHAPES = {'one-block': [2], 'sixteen-blocks': [2] * 16, 'hundred-twenty-eight-variables': [26, 26, 26, 26, 24]}


def run_block(c, log, conf, name):
    """real add_config + start and the device's two acknowledgements: the block exists on the device and is running"""
    c.invoke((log, 'add_config'), conf)
    c.invoke((conf, 'start'))
    deliver_settings(c, log, '6', name + '.id', '0')
    deliver_settings(c, log, '3', name + '.id', '0')


def reset_message_is(c):
    if n_sent(c, 'cf.send_packet') != 1:
        return 'False'
    c.snapshot('pk', "sent('cf.send_packet')[0][1][0]")
    return ("pk.port == 5 and pk.channel == 1 and bytes(pk.data) == bytes([5]) and sent('cf.send_packet')[0][2]['expected_reply'] == (5,) "
            "and len(sent('cf.send_packet')[0][1]) == 1")


def _reset(shape):
    sizes = RESET_SHAPES[shape]

    @contract('C05', 'reset.%s' % shape, RESET_F,
              clause='Log.reset() asks the device once to drop all its blocks and the host forgets them as well: whatever was added and started before '
                     '(also when the 16 blocks / 128 variables the device can hold were all in use), a valid configuration added after the reset is '
                     'accepted, created with exactly its variables, started on the acknowledgement and its data decoded; the (possibly repeated) reset '
                     'acknowledgement inside a session changes nothing',
              bounded='blocks running before the reset: %s variables each (one-byte variables); reset acknowledged never / once / twice; new configuration '
                      'of two variables (float, uint8), period and table indices symbolic' % sizes)
    def k(c):
        table = [('g0.v0', 'float'), ('g1.v1', 'uint8_t')] + [('x.y%d' % j, 'uint8_t') for j in range(26)]
        cf, log = connected(c, table)
        for i, nv in enumerate(sizes):
            o = new_config(c, table[2:2 + nv] if nv > 2 else table[:2], name='old%d' % i)
            run_block(c, log, o, 'old%d' % i)
            c.ensure('old%d-running' % i, 'raised is None and old%d.added is True and old%d.started is True' % (i, i))
        if len(sizes) > 1:
            probe = new_config(c, table[:2], name='probe')
            c.invoke((log, 'add_config'), probe)
            c.reset_trace()
            c.call((probe, 'start'))
            c.ensure('device-budget-used-up-before-the-reset', "raised == 'AttributeError' and len(trace) == 0")
        c.reset_trace()
        c.call((log, 'reset'))
        c.ensure('reset-no-exception', 'raised is None')
        c.ensure('reset-requested-once', reset_message_is(c))
        c.ensure('no-block-registered-after-reset', 'len(log.log_blocks) == 0')
        for _k in range(c.choice('reset_acks', [0, 1, 2])):
            c.reset_trace()
            deliver_settings(c, log, '5', '0', '0')
            c.ensure('reset-ack-%d-in-session-sends-nothing' % _k, "raised is None and len(sent('cf.send_packet')) == 0 and len(log.log_blocks) == 0")
        variables = [('g0.v0', None), ('g1.v1', 'uint8_t')]
        conf = new_config(c, variables, period=c.int('period', 1, 254))
        watch(c, conf)
        do_add_config(c, log, conf)
        check_add_config(c, log, conf, variables, table, tag='after-reset-')
        c.reset_trace()
        c.call((conf, 'start'))
        c.ensure('start-after-reset-no-exception', 'raised is None')
        creation_matches(c, device_decode_creation(c, tag='after-reset-'), entries_expr(variables, table, {'g0.v0': 'ident_0', 'g1.v1': 'ident_1'}),
                         tag='after-reset-')
        c.reset_trace()
        deliver_settings(c, log, '6', 'conf.id', '0')
        c.ensure('create-ack-handled', "raised is None and len(sent('cf.send_packet')) == 1 and len(calls('cf.')) == 1")
        c.ensure('start-message-after-create-ack', settings_message_is(c, 0, "pack('<BBB', 3, conf.id, period)", '(3, conf.id)'))
        deliver_settings(c, log, '3', 'conf.id', '0')
        expect_flags(c, 'running-after-reset', True, True, 1, 1)
        body, checks = device_sample(c, ['uint8_t', 'float'], '')      # block order: the explicitly typed variable first, then the table-typed one
        c.reset_trace()
        deliver_data(c, log, 'conf.id', body)
        c.ensure('data-no-exception', "raised is None and len(sent('conf_data_received')) == 1 and len(trace) == 1")
        sample_is(c, "sent('conf_data_received')[0][1]", ['g1.v1', 'g0.v0'], checks, '', available=n_sent(c, 'conf_data_received') >= 1)
    return k


for _s in RESET_SHAPES:
    _reset(_s)


# --------------------------------------------------------------------------------------- SyncLogger: with / for protocol, blocked reader

SYNC_WITH_F = SYNC_F + [SYN + ':SyncLogger.__enter__', SYN + ':SyncLogger.__exit__', SYN + ':SyncLogger.__iter__', SYN + ':SyncLogger.next']


@contract('C05', 'synclogger.with-statement', SYNC_WITH_F,
          clause='used as `with SyncLogger(...) as logger: for entry in logger:` - entering adds and starts the configuration and hands out the logger itself, '
                 'which is its own iterator; next()/__next__() yield each decoded sample once, in order; leaving the block (normally or by an exception, '
                 'which is not swallowed) stops and deletes the block and ends the iteration',
          bounded='one configuration (float, uint16, int8); two samples read through next() and __next__(); exit with and without an exception in flight, and after the link was lost inside the block')
def sync_with(c):
    cf, log, disc, confs, sl, names = sync_setup(c)
    c.reset_trace()
    c.call((sl, '__enter__'))
    c.ensure('enter-returns-the-logger', 'raised is None and is_same(result, sl)')
    c.snapshot('msgs0', "sent('cf.send_packet')")
    c.ensure('entered-creation-requested', 'len(msgs0) == 1 and msgs0[0][1][0].data[0] == 6 and len(log.log_blocks) == 1 and is_same(log.log_blocks[0], conf0)')
    c.call((sl, 'is_connected'))
    c.ensure('connected-after-enter', 'raised is None and result is True')
    deliver_settings(c, log, '6', 'conf0.id', '0')
    deliver_settings(c, log, '3', 'conf0.id', '0')
    c.ensure('running', 'raised is None and conf0.added is True and conf0.started is True')
    c.call((sl, '__iter__'))
    c.ensure('is-its-own-iterator', 'raised is None and is_same(result, sl)')
    arrived = []
    for tag in ('s0', 's1'):
        body, checks = device_sample(c, SYNC_TYPES, tag)
        deliver_data(c, log, 'conf0.id', body)
        c.ensure('packet-%s-handled' % tag, 'raised is None')
        arrived.append((tag, checks))
    for meth, (tag, checks) in zip(('next', '__next__'), arrived):
        c.call((sl, meth))
        c.ensure('%s-returns' % meth, 'raised is None')
        sample_is(c, 'result', names, checks, tag, conf='conf0', prefix='%s-' % meth, available=c.get('raised') is None)
    c.reset_trace()
    leaving = c.choice('leaving', ['normally', 'by-exception', 'after-link-loss'])
    if leaving == 'after-link-loss':          # the link is lost inside the with block: the logger disconnects itself, leaving the block is then silent
        c.set(cf, 'link', None)
        c.call((disc, 'call'), URI)
        c.ensure('link-loss-handled-silently', "raised is None and len(calls('cf.')) == 0")
        c.reset_trace()
    if leaving == 'by-exception':
        c.call((sl, '__exit__'), c.ext('exc_type'), c.ext('exc_value'), c.ext('exc_traceback'))
    else:
        c.call((sl, '__exit__'), None, None, None)
    c.ensure('exit-no-exception-and-nothing-swallowed', 'raised is None and not result')
    if leaving == 'after-link-loss':
        c.ensure('nothing-sent-on-the-dead-link', "len(calls('cf.')) == 0")
    else:
        c.ensure('stop-then-delete-sent', "len(sent('cf.send_packet')) == 2 and len(calls('cf.')) == 2")
        c.ensure('stop-message', settings_message_is(c, 0, "pack('<BB', 4, conf0.id)", '(4, conf0.id)'))
        c.ensure('delete-message', settings_message_is(c, 1, "pack('<BB', 2, conf0.id)", '(2, conf0.id)'))
    c.call((sl, 'is_connected'))
    c.ensure('disconnected-after-exit', 'raised is None and result is False and len(disc.callbacks) == 0 and len(conf0.data_received_cb.callbacks) == 0')
    for meth in ('next', '__next__'):
        c.call((sl, meth))
        c.ensure('%s-ends-after-exit' % meth, "raised == 'StopIteration'")


def scheduled_queue(c, sl, while_blocked):
    """explicit schedule: the SyncLogger's queue is replaced by a FIFO written here whose get(), when the reading thread would block,
    lets the incoming-packet thread run `while_blocked()` (once); if the queue is still empty afterwards the reader blocks for ever"""
    items = []
    st = {'fired': False}

    def put(_i, args, _k):
        items.append(args[0])
        return None

    def get(_i, args, _k):
        if not items and not st['fired']:
            st['fired'] = True
            while_blocked()
        if not items:
            return c.raiser('Deadlock', 'get on an empty queue that nobody fills')()
        return items.pop(0)
    q = c.ext('queue', returns={'put': put, 'get': get, 'empty': lambda *_a: not items, 'qsize': lambda *_a: len(items)})
    c.set(sl, '_queue', q)
    return items


def _sync_blocked(event):
    @contract('C05', 'synclogger.reader-waiting.%s' % event, SYNC_F,
              clause='SyncLogger yields each decoded sample once, in order, ending at disconnect - also when the application thread is already waiting '
                     'for the next sample: a sample that arrives then is yielded, and when the link is lost then the waiting reader wakes up and the '
                     'iteration ends (it does not wait for ever)',
              bounded='explicit schedule: the application thread is blocked in the queue (empty) when the incoming-packet thread handles %s; '
                      'one configuration (float, uint16, int8)' % {'sample': 'one data packet', 'link-loss': 'the loss of the link',
                                                                  'sample-then-link-loss': 'one data packet and then the loss of the link'}[event])
    def k(c):
        cf, log, disc, confs, sl, names = sync_setup(c)
        got = {}

        def other_thread():
            if event in ('sample', 'sample-then-link-loss'):
                body, got['checks'] = device_sample(c, SYNC_TYPES, 'w')
                c.snapshot('logdata_w', 'bytes([conf0.id]) + %s' % body)
                c.invoke((log, '_new_packet_cb'), c.new(STK + ':CRTPPacket', 0x5E, c.get('logdata_w')))
            if event in ('link-loss', 'sample-then-link-loss'):
                c.set(cf, 'link', None)
                c.invoke((disc, 'call'), URI)
        items = scheduled_queue(c, sl, other_thread)
        sync_connect(c, log, sl, confs)
        # an earlier sample, read before the reader goes to wait
        body, checks0 = device_sample(c, SYNC_TYPES, 'e')
        deliver_data(c, log, 'conf0.id', body)
        c.call((sl, '__next__'))
        c.ensure('earlier-sample-read', 'raised is None')
        sample_is(c, 'result', names, checks0, 'e', conf='conf0', prefix='earlier-', available=c.get('raised') is None)
        c.call((sl, '__next__'))           # the queue is empty: the reader waits; meanwhile the other thread handles the event
        if event == 'link-loss':
            c.ensure('waiting-reader-ends-at-link-loss', "raised == 'StopIteration'")
        else:
            c.ensure('waiting-reader-gets-the-sample', 'raised is None')
            sample_is(c, 'result', names, got.get('checks', []), 'w', conf='conf0', prefix='waited-', available=c.get('raised') is None and 'checks' in got)
        if event != 'sample':
            c.call((sl, '__next__'))
            c.ensure('iteration-over-after-link-loss', "raised == 'StopIteration' and sl.is_connected() is False")
        else:
            c.call((sl, '__next__'))
            c.ensure('then-blocks-again-nothing-repeated', "raised == 'Deadlock'")
    return k


for _e in ('sample', 'link-loss', 'sample-then-link-loss'):
    _sync_blocked(_e)


# --------------------------------------------------------------------------------------- the route of packets into the Log

@contract('C05', 'log.listens-on-logging-port', [LOG + ':Log.__init__', LOG + ':Log.refresh_toc', LOG + ':Log._send_reset_packet'] + ACK_F + DATA_F,
          clause='every log data packet for the block is decoded and the flags follow the acknowledgements: the Log registers, when it is constructed, '
                 'exactly one handler for the logging port (5), and packets handed to THAT handler (settings acknowledgements, log data) have these effects',
          bounded='one block (float, uint8); packets delivered through the handler registered with cf.add_port_callback')
def log_listens(c):
    link = c.ext('link')
    cf = c.ext('cf', attrs={'link': link}, returns={'platform.get_protocol_version': c.int('ver', 4, 255)})
    c.let('cf', cf)
    c.reset_trace()
    c.call(c.cls(LOG + ':Log'), cf)
    c.ensure('constructed', 'raised is None')
    c.ensure('one-handler-for-port-5', "len(sent('cf.add_port_callback')) == 1 and sent('cf.add_port_callback')[0][1][0] == 5 and len(sent('cf.send_packet')) == 0")
    if c.get('raised') is not None or n_sent(c, 'cf.add_port_callback') != 1:
        return
    log = c.get('result')
    c.set(cf, 'log', log)
    c.let('log', log)
    handler = c.snapshot('handler', "sent('cf.add_port_callback')[0][1][1]")

    def deliver(port_chan, expr):
        c.snapshot('rx', expr)
        c.call(handler, c.new(STK + ':CRTPPacket', port_chan, c.get('rx')))
    c.reset_trace()
    c.call((log, 'refresh_toc'), c.ext('refresh_done'), c.ext('toc_cache'))
    c.ensure('session-starts-with-one-reset-request', "raised is None and " + reset_message_is(c))
    deliver(0x5D, 'bytes([5, 0, 0])')
    c.ensure('reset-ack-opens-the-table', 'raised is None and log.toc is not None')
    if c.get('raised') is not None or c.getfield(log, 'toc') is None:
        return
    toc = c.getfield(log, 'toc')
    table = [('g0.v0', 'float'), ('g1.v1', 'uint8_t')]
    for i, (nm, ty) in enumerate(table):
        c.invoke((toc, 'add_element'), toc_element(c, c.int('ident_%d' % i, i * 40000, i * 40000 + 25535), nm, ty))
    conf = new_config(c, table, period=c.int('period', 1, 254))
    watch(c, conf)
    c.invoke((log, 'add_config'), conf)
    c.invoke((conf, 'start'))
    c.reset_trace()
    deliver(0x5D, 'bytes([6, conf.id, 0])')
    c.ensure('create-ack-through-the-handler', "raised is None and conf.added is True and len(sent('cf.send_packet')) == 1")
    deliver(0x5D, 'bytes([3, conf.id, 0])')
    c.ensure('start-ack-through-the-handler', 'raised is None and conf.started is True')
    body, checks = device_sample(c, ['float', 'uint8_t'], '')
    c.reset_trace()
    deliver(0x5E, 'bytes([conf.id]) + ' + body)
    c.ensure('data-through-the-handler', "raised is None and len(sent('conf_data_received')) == 1")
    sample_is(c, "sent('conf_data_received')[0][1]", ['g0.v0', 'g1.v1'], checks, '', available=n_sent(c, 'conf_data_received') >= 1)


# --------------------------------------------------------------------------------------- fetch type differs from the type in the table

OTHER_TYPE_CASES = {
    # label: (types in the table, types the user fetches them as)
    '13-floats-as-FP16': (['float'] * 13, ['FP16'] * 13),                                         # 26 bytes as fetched (52 as stored)
    '14-floats-as-FP16': (['float'] * 14, ['FP16'] * 14),                                         # 28 bytes
    '7-bytes-as-words': (['uint8_t', 'int8_t'] * 3 + ['uint8_t'], ['float', 'uint32_t', 'int32_t'] * 2 + ['float']),     # 28 bytes as fetched (7 as stored)
    'mixed-26': (['uint8_t', 'float', 'int16_t', 'uint32_t', 'FP16', 'int8_t', 'int32_t', 'uint16_t'],
                 ['uint32_t', 'FP16', 'float', 'uint8_t', 'float', 'int32_t', 'int16_t', 'uint32_t', ][:8]),             # 4+2+4+1+4+4+2+4 = 25
}


def _other_type(label):
    table_types, fetch_types = OTHER_TYPE_CASES[label]
    n = len(table_types)
    payload = size_of(fetch_types)

    @contract('C05', 'fetch-as-other-type.%s' % label, ADD_F + CREATE_F + DATA_F,
              clause='every fetch type: a variable may be fetched as another type than it has in the table; the payload that must fit 26 bytes is the one '
                     'of the FETCHED types (%d bytes here), the creation messages carry the fetched type (low nibble of the type byte - the firmware takes '
                     'the stored type of a table variable from its own table) and the table index, and data packets are decoded by the fetched types' % payload,
              bounded='%d variables, table types %s fetched as %s; period, table indices, values symbolic' % (n, table_types, fetch_types))
    def k(c):
        names = names_for(n)
        table = list(zip(names, table_types))
        variables = list(zip(names, fetch_types))
        cf, log = connected(c, table)
        conf = new_config(c, variables, period=c.int('period'))
        watch(c, conf)
        do_add_config(c, log, conf)
        c.let('fits', payload <= MAX_PAYLOAD)
        c.ensure('accepted-iff-fetched-payload-and-period-ok', "iff(raised is None, fits and 0 < period0 < 255) and raised in (None, 'AttributeError')")
        c.ensure('nothing-sent', "len(calls('cf.')) == 0 and len(calls('link')) == 0")
        if c.get('raised') is not None:
            c.ensure('rejected-not-registered', 'conf.valid is False and len(log.log_blocks) == 0')
            return
        c.ensure('registered', 'conf.valid is True and len(log.log_blocks) == 1 and is_same(log.log_blocks[0], conf)')
        c.reset_trace()
        c.call((conf, 'start'))
        c.ensure('no-exception', 'raised is None')
        nd = device_decode_creation(c)
        c.snapshot('device_view', '(' + ''.join('(dev_%d[0] %% 16, dev_%d[1]), ' % (i, i) for i in range(nd)) + ')')
        c.snapshot('expected_view', '(' + ''.join('(%d, ident_%d), ' % (TYPES[t][0], i) for i, t in enumerate(fetch_types)) + ')')
        c.ensure('variables-enumerated-once-in-order-with-index-and-fetched-type', 'device_view == expected_view')
        deliver_settings(c, log, '6', 'conf.id', '0')
        deliver_settings(c, log, '3', 'conf.id', '0')
        body, checks = device_sample(c, fetch_types, '')
        c.reset_trace()
        deliver_data(c, log, 'conf.id', body)
        c.ensure('data-no-exception', "raised is None and len(sent('conf_data_received')) == 1")
        sample_is(c, "sent('conf_data_received')[0][1]", names, checks, '', available=n_sent(c, 'conf_data_received') >= 1)
    return k


for _l in OTHER_TYPE_CASES:
    _other_type(_l)


# --------------------------------------------------------------------------------------- names that cannot be in any table

@contract('C05', 'add_config.malformed-name', ADD_F,
          clause='a configuration is accepted only if all its variables exist in the table: a name that is not of the form group.name exists in no table; '
                 'the configuration is refused, not registered and nothing is sent',
          bounded="names '', 'nodot', 'g0.v0.x', '.', 'g0.'; typed explicitly or by the table; beside one good variable")
def add_config_malformed(c):
    bad = c.choice('name', ['', 'nodot', 'g0.v0.x', '.', 'g0.'])
    typed = c.choice('typing', ['explicit', 'from-table'])
    cf, log = connected(c, [('g0.v0', 'float')])
    conf = c.new(LOG + ':LogConfig', 'conf', 100)
    c.let('conf', conf)
    c.invoke((conf, 'add_variable'), 'g0.v0', 'float')
    if typed == 'explicit':
        c.invoke((conf, 'add_variable'), bad, 'uint8_t')
    else:
        c.invoke((conf, 'add_variable'), bad)
    do_add_config(c, log, conf)
    c.ensure('refused', "raised in ('KeyError', 'ValueError', 'AttributeError')")
    c.ensure('nothing-sent', "len(calls('cf.')) == 0 and len(calls('link')) == 0")
    c.ensure('not-registered', "len(log.log_blocks) == 0 and len(sent('note_block_added')) == 0")


# --------------------------------------------------------------------------------------- block ids after the id counter has wrapped

@contract('C05', 'add_config.id-reuse-after-wrap', LIFE_F + DATA_F, thorough_only=True,
          clause='all add/start/stop/delete/re-add histories: the flags and callbacks of a block follow the acknowledgements for ITS id and its data packets '
                 'are decoded by ITS variable list - also when the id counter has wrapped (255 add_config calls in one session, e.g. one SyncLogger per '
                 'measurement) and an earlier, meanwhile deleted, configuration that is still registered holds the same id',
          bounded='first configuration (float) created, started, stopped and deleted; 254 further real add_config calls; then a configuration (uint8, int16) '
                  'that receives the id of the first one',
          )          # FINDING on the unchanged tree (fails with a native replay under `./vcheck C05 thorough`), see the module docstring
def id_reuse(c):
    table = [('g0.v0', 'float'), ('g1.v1', 'uint8_t'), ('g2.v2', 'int16_t')]
    cf, log = connected(c, table)
    first = new_config(c, table[:1], name='first')
    watch(c, first, 'first')
    run_block(c, log, first, 'first')
    c.invoke((first, 'stop'))
    deliver_settings(c, log, '4', 'first.id', '0')
    c.invoke((first, 'delete'))
    deliver_settings(c, log, '2', 'first.id', '0')
    c.ensure('first-block-deleted', 'raised is None and first.added is False and first.started is False')
    for i in range(254):
        c.invoke((log, 'add_config'), new_config(c, table[:1], name='filler'))
    conf = new_config(c, table[1:], period=c.int('period', 1, 254))
    watch(c, conf)
    do_add_config(c, log, conf)
    c.ensure('accepted', 'raised is None and conf.valid is True')
    c.reset_trace()
    c.call((conf, 'start'))
    c.ensure('start-no-exception', 'raised is None')
    creation_matches(c, device_decode_creation(c), entries_expr(table[1:], table, {'g1.v1': 'ident_1', 'g2.v2': 'ident_2'}))
    c.reset_trace()
    deliver_settings(c, log, '6', 'conf.id', '0')
    c.ensure('create-ack-handled', "raised is None and len(sent('cf.send_packet')) == 1")
    c.ensure('start-message-after-create-ack', settings_message_is(c, 0, "pack('<BBB', 3, conf.id, period)", '(3, conf.id)'))
    deliver_settings(c, log, '3', 'conf.id', '0')
    c.ensure('flags-follow-the-acknowledgements-of-its-id', 'raised is None and conf.added is True and conf.started is True')
    c.ensure('deleted-block-untouched', "first.added is False and first.started is False and len(sent('first_added')) == 0 and len(sent('first_started')) == 0")
    body, checks = device_sample(c, ['uint8_t', 'int16_t'], '')
    c.reset_trace()
    deliver_data(c, log, 'conf.id', body)
    c.ensure('data-decoded-by-its-own-block', "raised is None and len(sent('conf_data_received')) == 1 and len(sent('first_data_received')) == 0")
    sample_is(c, "sent('conf_data_received')[0][1]", ['g1.v1', 'g2.v2'], checks, '', available=n_sent(c, 'conf_data_received') >= 1)


@contract('C05', 'synclogger.two-loggers', SYNC_F,
          clause='each SyncLogger yields the samples of ITS configuration, once each and in arrival order, and ends at ITS disconnect: two loggers on one '
                 'Crazyflie share nothing',
          bounded='two SyncLogger objects with one configuration each (three variables); arrivals B, A, B; logger A disconnects first')
def sync_two_loggers(c):
    names = names_for(6)
    table = list(zip(names, SYNC_TYPES * 2))
    cf, log = connected(c, table)
    disc = c.new('cflib.utils.callbacks:Caller')
    c.set(cf, 'disconnected', disc)
    c.let('disc', disc)
    loggers = []
    for i, nm in enumerate('AB'):
        conf = new_config(c, table[3 * i:3 * i + 3], name='conf' + nm)
        sl = c.new(SYN + ':SyncLogger', cf, conf)
        c.let('sl' + nm, sl)
        loggers.append(sl)
    for nm, sl in zip('AB', loggers):
        c.call((sl, 'connect'))
        c.ensure('connect-%s' % nm, 'raised is None')
        deliver_settings(c, log, '6', 'conf%s.id' % nm, '0')
        deliver_settings(c, log, '3', 'conf%s.id' % nm, '0')
        c.ensure('running-%s' % nm, 'raised is None and conf%s.added is True and conf%s.started is True' % (nm, nm))
    c.ensure('distinct-blocks', 'confA.id != confB.id and len(log.log_blocks) == 2')
    arrived = {'A': [], 'B': []}
    for k, nm in enumerate('BAB'):
        body, checks = device_sample(c, SYNC_TYPES, 's%d' % k)
        deliver_data(c, log, 'conf%s.id' % nm, body)
        c.ensure('packet-%d-handled' % k, 'raised is None')
        arrived[nm].append(('s%d' % k, checks))
    c.ensure('each-queue-holds-its-own-samples', 'slA._queue.qsize() == 1 and slB._queue.qsize() == 2')
    c.call((loggers[0], '__next__'))
    c.ensure('A-read-returns', 'raised is None')
    sample_is(c, 'result', names[:3], arrived['A'][0][1], arrived['A'][0][0], conf='confA', prefix='A-read-', available=c.get('raised') is None)
    c.call((loggers[0], 'disconnect'))
    c.ensure('A-disconnected-B-still-listening', 'raised is None and slA.is_connected() is False and slB.is_connected() is True and '
             'len(confB.data_received_cb.callbacks) == 1 and len(disc.callbacks) == 1')
    c.call((loggers[0], '__next__'))
    c.ensure('A-iteration-over', "raised == 'StopIteration'")
    for j in range(2):
        c.call((loggers[1], '__next__'))
        c.ensure('B-read-%d-returns' % j, 'raised is None')
        sample_is(c, 'result', names[3:], arrived['B'][j][1], arrived['B'][j][0], conf='confB', prefix='B-read-%d-' % j, available=c.get('raised') is None)
    c.call((loggers[1], '__next__'))
    c.ensure('B-has-nothing-more', "raised == 'Deadlock'")


# --------------------------------------------------------------------------------------- the create acknowledgement overtakes the append messages

@contract('C05', 'create.ack-before-appends', CREATE_F + ACK_F, thorough_only=True,
          clause='block creation and start follow the acknowledgements whatever the timing: the block is started only when ALL its creation messages '
                 '(create and appends) have been handed to the link, also when the acknowledgement of the create message is processed by the '
                 'incoming-packet thread before LogConfig.create() has sent the append messages',
          bounded='10 variables (create + one append message); explicit schedule: the create acknowledgement is dispatched from inside cf.send_packet of '
                  'the create message (earliest possible schedule)',
          )          # schedule-dependent FINDING on the unchanged tree, see the module docstring
def create_ack_before_appends(c):
    types = type_pattern(10)
    names = names_for(10)
    table = list(zip(names, types))
    cf, log, conf = added_config(c, table, table, period=c.int('period', 1, 254))
    st = {'acked': False}

    def send(_i, args, _k):
        if not st['acked']:
            st['acked'] = True
            # the device acknowledges the create message at once and the incoming-packet thread handles that before send_packet returns
            c.snapshot('early_ack', 'bytes([6, conf.id, 0])')
            c.invoke((log, '_new_packet_cb'), c.new(STK + ':CRTPPacket', 0x5D, c.get('early_ack')))
        return None
    c.set(cf, 'send_packet', c.ext('cf.send_packet', returns={'()': send}))
    c.reset_trace()
    c.call((conf, 'start'))
    c.ensure('no-exception', 'raised is None')
    c.snapshot('cmds', "tuple(e[1][0].data[0] for e in sent('cf.send_packet'))")
    c.ensure('every-creation-message-sent-and-start-requested', 'sorted(cmds) == [3, 6, 7]')
    c.ensure('started-only-after-the-last-creation-message', 'cmds == (6, 7, 3)')


@contract('C05', 'readd.variable-gone-in-new-session', LIFE_F,
          clause='a configuration is accepted iff all its variables exist in the table - the table of the CURRENT session: a configuration that was accepted, '
                 'created and started in an earlier session is refused when it is added again to a Crazyflie whose table lacks one of its variables; '
                 'nothing is sent, it is not registered, and its variable list is unchanged',
          bounded='three variables (float, int16, FP16), typed explicitly / by the table / mixed; variable missing from the second table: first/second/third')
def readd_variable_gone(c):
    names = names_for(3)
    full = list(zip(names, ['float', 'int16_t', 'FP16']))
    typing = c.choice('typing', ['explicit', 'from-table', 'mixed-a'])
    variables = [(nm, ty if e else None) for (nm, ty), e in zip(full, READD_TYPINGS[typing])]
    cf, log = connected(c, full)
    conf = new_config(c, variables)
    run_block(c, log, conf, 'conf')
    c.ensure('session1-running', 'raised is None and conf.valid is True and conf.added is True and conf.started is True')
    variable_state(c, conf)
    c.snapshot('vars1', 'vars_of_conf')
    gone = c.choice('gone_in_second_session', [0, 1, 2])
    new_session(c, log, [x for i, x in enumerate(full) if i != gone], tag='b')
    do_add_config(c, log, conf)
    c.ensure('refused-in-the-new-session', "raised == 'KeyError'")
    c.ensure('nothing-sent', "len(calls('cf.')) == 0 and len(calls('link')) == 0")
    c.ensure('not-registered', "conf.valid is False and len(log.log_blocks) == 0 and len(sent('note_block_added')) == 0")
    variable_state(c, conf)
    c.ensure('variable-list-unchanged', 'vars_of_conf == vars1')
