"""C05 - log blocks are created as configured and log data decodes to device values.

WORK IN PROGRESS
"""
from pyvc.api import contract

LOG = 'cflib.crazyflie.log'
TOC = 'cflib.crazyflie.toc'
STK = 'cflib.crtp.crtpstack'
SYN = 'cflib.crazyflie.syncLogger'

# ---- the device side (firmware log.c / log.h), stated here independently of the library:
# type name -> (type id on the wire, struct format of the encoded value, encoded size in bytes)
TYPES = {'uint8_t': (1, '<B', 1), 'uint16_t': (2, '<H', 2), 'uint32_t': (3, '<L', 4), 'int8_t': (4, '<b', 1),
         'int16_t': (5, '<h', 2), 'int32_t': (6, '<i', 4), 'float': (7, '<f', 4), 'FP16': (8, '<e', 2)}
TYPE_NAMES = list(TYPES)
MAX_PAYLOAD = 26            # LOG_MAX_LEN: bytes of values in one log data packet
CMD_CREATE_V2, CMD_APPEND_V2, CMD_DELETE, CMD_START, CMD_STOP, CMD_RESET = 6, 7, 2, 3, 4, 5
ENOENT, ENOEXEC, ENOMEM, E2BIG, EEXIST = 2, 8, 12, 7, 17
ERR_CODES = (ENOENT, ENOEXEC, ENOMEM, E2BIG, EEXIST)


def size_of(types):
    return sum(TYPES[t][2] for t in types)


def names_for(n):
    return ['g%d.v%d' % (i % 3, i) for i in range(n)]


# --------------------------------------------------------------------------------------- set-up helpers

def toc_element(c, ident, complete_name, ctype):
    """a LogTocElement built by the REAL constructor from the bytes of a TOC item reply"""
    group, name = complete_name.split('.')
    data = bytes([TYPES[ctype][0]]) + group.encode() + b'\0' + name.encode() + b'\0'
    return c.new(LOG + ':LogTocElement', ident, bytearray(data))


def new_session(c, log, table, tag=''):
    """(re)connect: the REAL refresh_toc, the device's reset acknowledgement (which makes the library create an empty
    Toc and start the TOC download) and then the table content `table` = [(complete name, type name)] entered through the
    real Toc.add_element (the download itself is property C03).  Table indices are symbolic and pairwise distinct."""
    c.invoke((log, 'refresh_toc'), c.ext('refresh_done'), c.ext('toc_cache'))
    c.invoke((log, '_new_packet_cb'), c.new(STK + ':CRTPPacket', 0x5D, bytes([CMD_RESET, 0, 0])))
    toc = c.getfield(log, 'toc')
    idents = []
    for i, (nm, ty) in enumerate(table):
        ident = c.int('ident%s_%d' % (tag, i), 0, 65535)
        for j in idents:
            c.require('ident%s_%d != ident%s_%d' % (tag, i, tag, j))
        idents.append(i)
        c.invoke((toc, 'add_element'), toc_element(c, ident, nm, ty))
    c.reset_trace()
    return toc


def connected(c, table, ver=None):
    """a real Log on a connected Crazyflie stub speaking the current protocol (version >= 4, symbolic)"""
    link = c.ext('link')
    if ver is None:
        ver = c.int('ver', 4, 255)
    cf = c.ext('cf', attrs={'link': link}, returns={'platform.get_protocol_version': ver})
    log = c.new(LOG + ':Log', cf)
    c.set(cf, 'log', log)
    c.let('log', log)
    c.let('cf', cf)
    c.invoke((c.getfield(log, 'block_added_cb'), 'add_callback'), c.ext('note_block_added'))
    new_session(c, log, table)
    return cf, log


def new_config(c, variables, name='conf', period_ms=100, period=None):
    """a real LogConfig filled through its real API.  variables = [(complete name, fetch type name or None)].
    period: optional symbolic value of the `period` field (units of 10 ms), see logconfig.period.* for the constructor."""
    conf = c.new(LOG + ':LogConfig', name, period_ms)
    for nm, ty in variables:
        if ty is None:
            c.invoke((conf, 'add_variable'), nm)
        else:
            c.invoke((conf, 'add_variable'), nm, ty)
    if period is not None:
        c.set(conf, 'period', period)
    c.let(name, conf)
    return conf


def watch(c, conf, name='conf'):
    for cb in ('added_cb', 'started_cb', 'error_cb', 'data_received_cb'):
        c.invoke((c.getfield(conf, cb), 'add_callback'), c.ext('%s_%s' % (name, cb[:-3])))


# --------------------------------------------------------------------------------------- LogVariable / LogConfig

@contract('C05', 'logvariable.types', [LOG + ':LogVariable.__init__', LOG + ':LogVariable.get_storage_and_fetch_byte',
                                       LOG + ':LogVariable.is_toc_variable', LOG + ':LogTocElement.get_id_from_cstring'],
          clause='a variable carries the firmware type ids of its fetch and storage type names; its type byte is fetch | stored << 4; '
                 'an unknown type name is refused (all 8 x 9 combinations)')
def logvariable_types(c):
    f = c.choice('fetch', TYPE_NAMES + ['double'])
    s = c.choice('stored', [''] + TYPE_NAMES + ['bool'])
    mem = c.choice('memory', [False, True])
    c.int('address', 0, 2 ** 32 - 1)
    c.call(c.cls(LOG + ':LogVariable'), 'g.v', f, 1 if mem else 0, s, c.get('address'))
    valid = f in TYPES and (s == '' or s in TYPES)
    c.let('valid', valid)
    c.ensure('refused-iff-unknown-type', "iff(raised is not None, not valid) and raised in (None, 'KeyError')")
    if valid:
        v = c.get('result')
        c.let('v', v)
        c.let('fid', TYPES[f][0])
        c.let('sid', TYPES[s or f][0])
        c.let('mem', mem)
        c.ensure('ids', 'v.fetch_as == fid and v.stored_as == sid and v.name == "g.v" and v.address == address')
        c.call((v, 'get_storage_and_fetch_byte'))
        c.ensure('type-byte', 'raised is None and result == fid + 16 * sid and 0 <= result <= 255')
        c.call((v, 'is_toc_variable'))
        c.ensure('kind', 'result is (not mem)')


@contract('C05', 'logconfig.period.float', [LOG + ':LogConfig.__init__'],
          clause='the period field (10 ms units) is in the accepted range 1..254 iff the period is between 10 ms and 2.55 s (excl.), '
                 'for every double (ints below 2**53 divide like the double of the same value)')
def period_float(c):
    p = c.float('p')
    c.call(c.cls(LOG + ':LogConfig'), 'blk', p)
    c.ensure('constructed-unless-nan-or-inf', 'iff(raised is not None, is_nan(p) or is_inf(p))')
    if c.get('raised') is None:
        c.let('conf', c.get('result'))
        c.ensure('in-range-iff-10ms-to-2.55s', 'iff(0 < conf.period < 255, 10 <= p < 2550)')
        c.ensure('fresh-state', 'conf.added is False and conf.started is False and conf.valid is False and not conf.pending and '
                 'conf.variables == [] and conf.default_fetch_as == [] and conf.period_in_ms == p')


@contract('C05', 'logconfig.period.int', [LOG + ':LogConfig.__init__'], float_mode='R',
          clause='for an integer number of milliseconds the period field is p // 10 (mathematical division: float mode R)')
def period_int(c):
    p = c.int('p', -(2 ** 53) + 1, 2 ** 53 - 1)
    c.call(c.cls(LOG + ':LogConfig'), 'blk', p)
    c.ensure('constructed', 'raised is None')
    c.let('conf', c.get('result'))
    c.ensure('in-range-iff-10ms-to-2.55s', 'iff(0 < conf.period < 255, 10 <= p < 2550)')
    c.ensure('ten-ms-units', 'implies(p >= 0, conf.period == p // 10)')


# --------------------------------------------------------------------------------------- add_config

ADD_F = [LOG + ':Log.add_config', LOG + ':LogConfig.add_variable', LOG + ':LogTocElement.get_size_from_id',
         TOC + ':Toc.get_element_by_complete_name', TOC + ':Toc.get_element_id', TOC + ':Toc.get_element', TOC + ':Toc.get_element_by_id']


def variable_state(c, conf, name='conf'):
    """ghost: ((name, fetch id, stored id, is_toc), ...) of the configuration"""
    return c.snapshot('vars_of_' + name, 'tuple((v.name, v.fetch_as, v.stored_as, v.is_toc_variable()) for v in %s.variables)' % name)


def expected_variables(variables, table):
    """the variable list the user configured: explicitly typed ones first (they are entered immediately), then the
    ones typed by the table (entered when the configuration is added), each with the ids of the device type table"""
    tt = dict(table)
    typed = [(n, TYPES[t][0], TYPES[t][0], True) for n, t in variables if t is not None]
    dflt = [(n, TYPES[tt[n]][0], TYPES[tt[n]][0], True) for n, t in variables if t is None and n in tt]
    return tuple(typed + dflt)


def check_add_config(c, log, conf, variables, table, tag=''):
    """post-conditions of one add_config call, from the property; returns True when the configuration must be accepted
    apart from the period (which may be symbolic)"""
    tt = dict(table)
    present = all(n in tt for n, _t in variables)
    payload = size_of([t if t is not None else tt[n] for n, t in variables if n in tt]) if present else None
    fits = present and payload <= MAX_PAYLOAD
    c.let('present', present)
    c.let('fits', fits)
    c.ensure(tag + 'accepted-iff-variables-exist-and-period-and-payload-ok', 'iff(raised is None, present and fits and 0 < period0 < 255)')
    c.ensure(tag + 'nothing-sent', "len(calls('cf.')) == 0 and len(calls('link')) == 0")
    if c.get('raised') is None:
        c.ensure(tag + 'id-assigned', 'conf.id == id0 and log._config_id_counter == (id0 + 1) % 255 and conf.valid is True and is_same(conf.cf, cf) '
                 'and conf.useV2 is True')
        c.ensure(tag + 'appended-once', 'len(log.log_blocks) == len(blocks0) + 1 and is_same(log.log_blocks[-1], conf) and '
                 'all(is_same(log.log_blocks[i], blocks0[i]) for i in range(len(blocks0)))')
        c.ensure(tag + 'listeners-told-once', "len(sent('note_block_added')) == 1 and is_same(sent('note_block_added')[0][1][0], conf)")
        c.let('expected', expected_variables(variables, table))
        variable_state(c, conf)
        c.ensure(tag + 'variables-as-configured', 'vars_of_conf == expected and conf.default_fetch_as == []')
    else:
        c.let('experr', 'AttributeError' if present else 'KeyError')
        c.ensure(tag + 'rejection-error', 'raised == experr')
        c.ensure(tag + 'rejected-not-registered', "conf.valid is False and len(log.log_blocks) == len(blocks0) and "
                 "all(is_same(log.log_blocks[i], blocks0[i]) for i in range(len(blocks0))) and len(sent('note_block_added')) == 0 "
                 "and log._config_id_counter == id0")


def do_add_config(c, log, conf):
    c.snapshot('blocks0', 'tuple(log.log_blocks)')
    c.snapshot('id0', 'log._config_id_counter')
    c.snapshot('period0', 'conf.period')
    c.reset_trace()
    c.call((log, 'add_config'), conf)


def _add_config(label, types, bound):
    n = len(types)

    @contract('C05', 'add_config.%s' % label, ADD_F,
              clause='a configuration is accepted iff all its variables exist in the table, 0 < period/10ms < 255 and its payload (%d bytes here) '
                     'is at most 26 bytes; a rejected one raises, is not registered and nothing is sent; an accepted one gets the next id and is registered once' % size_of(types),
              bounded=bound)
    def k(c):
        names = names_for(n)
        missing = c.choice('missing', ['none'] + sorted(set([0, n // 2, n - 1])) if n else ['none'])
        typing = c.choice('typing', ['explicit', 'from-table', 'mixed'] if n else ['explicit'])
        table = [(nm, ty) for i, (nm, ty) in enumerate(zip(names, types)) if i != missing]
        cf, log = connected(c, table)
        if typing == 'explicit':
            variables = list(zip(names, types))
        elif typing == 'from-table':
            variables = [(nm, None) for nm in names]
        else:
            variables = [(nm, ty if i % 2 else None) for i, (nm, ty) in enumerate(zip(names, types))]
        conf = new_config(c, variables, period=c.int('period'))
        do_add_config(c, log, conf)
        check_add_config(c, log, conf, variables, table)
    return k


_B = 'variable list of %d variables with the type pattern %s (payload %d bytes); which variable is missing from the table: none/first/middle/last; period symbolic'
for _label, _types in (('n0', []),
                       ('n1.u8', ['uint8_t']),
                       ('n26.bytes', ['uint8_t', 'int8_t'] * 13),
                       ('n27.bytes', ['uint8_t', 'int8_t'] * 13 + ['uint8_t']),
                       ('n13.halves', ['uint16_t', 'int16_t', 'FP16'] * 4 + ['FP16']),
                       ('n14.halves', ['uint16_t', 'int16_t', 'FP16'] * 4 + ['FP16', 'int16_t']),
                       ('n6.words', ['uint32_t', 'int32_t', 'float'] * 2),
                       ('n7.words', ['uint32_t', 'int32_t', 'float'] * 2 + ['float']),
                       ('n7.mixed25', ['float', 'uint32_t', 'int32_t', 'float', 'uint32_t', 'int32_t', 'int8_t']),
                       ('n7.mixed26', ['float', 'uint32_t', 'int32_t', 'float', 'uint32_t', 'int32_t', 'FP16']),
                       ('n8.mixed27', ['float', 'uint32_t', 'int32_t', 'float', 'uint32_t', 'int32_t', 'FP16', 'uint8_t']),
                       ('n10.all-types26', TYPE_NAMES + ['uint32_t', 'uint16_t'])):
    _add_config(_label, _types, _B % (len(_types), _types, size_of(_types)))
