"""C02 - connection lifecycle is well-formed (sequential fragment).

A REAL Crazyflie (real constructor: real Param, Log, Memory, PlatformService, dispatcher, TOC fetchers, SyncCrazyflie)
is connected to a device simulator written in the contract: `cflib.crtp.get_link_driver` is replaced by a stub that
hands out a recording link; every packet the library sends is answered by the simulator according to the CRTP
services (protocol version, log reset + log TOC, memory count, parameter TOC, parameter read) and delivered through
the real dispatcher loop.  Threads are sequential: Thread.start is recorded and the parameter-updater loop is run by
the contract until it blocks (see contracts/C04.py).

Decided: event order connection_requested -> link_established -> connected -> fully_connected with `connected` only
after both tables are complete and `fully_connected` only after every parameter has a value; failure / loss /
close at every point k of the exchange produce exactly the notifications the property prescribes (connection_failed
XOR disconnected+connection_lost, one disconnected per close_link, nothing of the attempt after its first
disconnected); the same object connects again afterwards (also from inside a connection_lost callback); driver
lookup failures; blocking SyncCrazyflie open/close return or raise.

NOT decidable with this technique and not claimed: bounded-time disconnect, absence of deadlock or dead threads under
real thread interleavings (dispatcher / parameter / latency / timer / user threads), link errors reported from the
sending thread while the dispatcher is mid-callback.  The MANIFEST entry states that the claim is this fragment.
"""
from pyvc.api import contract

CF = 'cflib.crazyflie'
SCF = 'cflib.crazyflie.syncCrazyflie'
STK = 'cflib.crtp.crtpstack'
PRM = 'cflib.crazyflie.param'

EVENTS = ['connection_requested', 'link_established', 'connected', 'fully_connected', 'disconnected', 'connection_lost',
          'connection_failed', 'disconnected_link_error']

LIFE_F = [CF + ':Crazyflie.open_link', CF + ':Crazyflie.close_link', CF + ':Crazyflie._link_error_cb', CF + ':Crazyflie._check_for_initial_packet_cb',
          CF + ':Crazyflie._start_connection_setup', CF + ':Crazyflie._platform_info_fetched', CF + ':Crazyflie._log_toc_updated_cb',
          CF + ':Crazyflie._mems_updated_cb', CF + ':Crazyflie._param_toc_updated_cb', CF + ':Crazyflie._all_parameters_updated',
          'cflib.crazyflie.platformservice:PlatformService._platform_callback', 'cflib.crazyflie.platformservice:PlatformService._crt_service_callback',
          'cflib.crazyflie.log:Log.refresh_toc', 'cflib.crazyflie.log:Log._new_packet_cb', 'cflib.crazyflie.mem:Memory.refresh',
          PRM + ':Param.refresh_toc', PRM + ':Param.request_update_of_all_params', PRM + ':Param._param_updated',
          'cflib.crazyflie.toc:TocFetcher.start', 'cflib.crazyflie.toc:TocFetcher._new_packet_cb']

URI = 'radio://0/80/2M'


class World:
    """real Crazyflie + device simulator (contract-side, back-end agnostic)"""

    def __init__(self, c, n_params=1, needs_resending=False):
        self.c = c
        c.virtual_time()
        if needs_resending:
            c.use_stubs(CF, ['Timer'])      # retry timers are recorded; the contract decides when one fires
        self.cf = c.new(CF + ':Crazyflie')
        self.n_params = n_params
        self.links = []
        self.answered = 0
        self.exchanged = 0
        self.driver_mode = 'link'
        param = c.getfield(self.cf, 'param')
        self.upd = c.getfield(param, 'param_updater')
        c.set(self.upd, 'request_queue', c.queue('rq'))
        c.set(self.upd, 'wait_lock', c.lock('wait_lock'))
        for ev in EVENTS:
            c.invoke((c.getfield(self.cf, ev), 'add_callback'), c.ext('ev.' + ev))
        c.let('cf', self.cf)

        def lookup(_i, args, _k):
            if self.driver_mode == 'none':
                return None
            if self.driver_mode == 'raise':
                return c.raiser('OSError', 'dongle not found')()
            ln = c.ext('link%d' % len(self.links), attrs={'needs_resending': needs_resending})
            self.links.append(ln)
            self.answered = 0
            return ln
        c.patch('cflib.crtp:get_link_driver', c.ext('get_link_driver', returns={'()': lookup}))
        c.reset_trace()

    # -- the device
    def reply_for(self, port, channel, data):
        """(channel, bytes) of the device's answer to a request, or None"""
        if port == 15 and channel == 1:
            return 15, 1, b'Bitcraze Crazyflie\x00'
        if port == 13 and channel == 1 and data[:1] == [0]:
            return 13, 1, bytes([0, 9])
        if port == 5 and channel == 1 and data[:1] == [5]:
            return 5, 1, bytes([5, 0, 0])
        if port == 5 and channel == 0 and data[:1] == [3]:
            return 5, 0, bytes([3, 0, 0, 0x11, 0x22, 0x33, 0x44, 16, 128])
        if port == 4 and channel == 0 and data[:1] == [1]:
            return 4, 0, bytes([1, 0])
        if port == 2 and channel == 0 and data[:1] == [3]:
            return 2, 0, bytes([3, self.n_params, 0, 0xAA, 0xBB, 0xCC, 0xDD])
        if port == 2 and channel == 0 and data[:1] == [2]:
            idx = data[1] | (data[2] << 8)
            return 2, 0, bytes([2, data[1], data[2], 0x08]) + b'grp\x00' + ('p%d' % idx).encode() + b'\x00'
        if port == 2 and channel == 1:
            return 2, 1, bytes([data[0], data[1], 0, 40 + data[0]])
        if port == 3:
            return None         # zero set-point sent by close_link
        return None

    def deliver(self, port, channel, data):
        c = self.c
        link = c.getfield(self.cf, 'link')
        if link is None:
            return False
        pk = c.new(STK + ':CRTPPacket', (port << 4) | channel, data)
        pending = [pk]
        stop = c.raiser('StopLoop')

        def rx(*_a):
            if pending:
                return pending.pop(0)
            return stop()
        c.set(link, 'receive_packet', c.ext(link.name if hasattr(link, 'name') else 'link', returns={'()': rx}))
        c.call((c.getfield(self.cf, 'incoming'), 'run'))
        c.ensure('dispatcher-survives', "raised == 'StopLoop'", cls='A')
        self.exchanged += 1
        return True

    def pump_updater(self):
        c = self.c
        q = c.getfield(self.upd, 'request_queue')
        before = list(q.items)
        c.call((self.upd, 'run'))
        if c.get('raised') == 'Deadlock' and c.concretize("'acquire' in str(exc)"):
            taken = len(before) - len(q.items)
            if taken >= 1:
                q.items.insert(0, before[taken - 1])

    def sent_packets(self):
        c = self.c
        if not self.links:
            return []
        name = 'link%d.send_packet' % (len(self.links) - 1)
        return [e for e in c.get('trace') or () if e[0] == name]

    def step(self):
        """answer the next unanswered request of the current link; False when there is nothing to answer"""
        c = self.c
        self.pump_updater()
        c.snapshot('trace', 'trace')
        sent = self.sent_packets()
        while self.answered < len(sent):
            pk = sent[self.answered][1][0]
            self.answered += 1
            c.let('rq_pk', pk)
            port = c.concretize('rq_pk.port')
            ch = c.concretize('rq_pk.channel')
            n = c.concretize('len(rq_pk.data)')
            data = [c.concretize('rq_pk.data[%d]' % i) for i in range(n)]
            r = self.reply_for(port, ch, data)
            if r is not None:
                return self.deliver(*r)
        return False

    def run_until_quiet(self, max_steps=40, stop_after=None):
        n = 0
        while n < max_steps and (stop_after is None or n < stop_after):
            if not self.step():
                break
            n += 1
        return n

    def events(self):
        c = self.c
        c.snapshot('trace', 'trace')
        return tuple(e[0][3:] for e in (c.get('trace') or ()) if e[0].startswith('ev.'))


FULL = ('connection_requested', 'link_established', 'connected', 'fully_connected')


@contract('C02', 'connect.full-sequence', LIFE_F,
          clause='connection_requested, link_established, connected, fully_connected in that order, once each; connected only once the log and '
                 'parameter tables are complete, fully_connected only once every parameter has a value',
          bounded='device with empty log table and 1 or 2 parameters (protocol version 9)')
def full_sequence(c):
    n = c.choice('n_params', [1, 2])
    w = World(c, n)
    c.call((w.cf, 'open_link'), URI)
    c.ensure('open-returns', 'raised is None')
    seen_before_connected = None
    for i in range(40):
        ev = w.events()
        if 'connected' in ev and seen_before_connected is None:
            seen_before_connected = True
            c.ensure('tables-complete-when-connected', "cf.log.toc is not None and len(cf.param.toc.toc.get('grp', {})) == %d" % n)
            c.ensure('no-value-yet-hence-not-fully-connected', "'fully_connected' not in %r" % (ev,))
        if 'fully_connected' in ev:
            c.ensure('every-parameter-has-a-value', "len(cf.param.values.get('grp', {})) == %d" % n)
        if not w.step():
            break
    c.let('events', w.events())
    c.ensure('event-sequence', 'events == %r' % (FULL,))
    c.ensure('state-and-link', 'cf.state == 2 and cf.link is not None and cf.is_connected()')


def _interrupted(how):
    @contract('C02', 'interrupted.%s' % how, LIFE_F,
              clause='a link failure before any packet arrives gives exactly connection_failed; after the first packet exactly one disconnected and '
                     'then one connection_lost; every close_link gives exactly one disconnected; nothing of the attempt is delivered after its first '
                     'disconnected; afterwards the same object connects again with a complete, well-ordered sequence',
              bounded='interruption after k = 0..9 exchanged packets; device with 1 parameter')
    def k(c):
        w = World(c, 1)
        kk = c.choice('k', list(range(10)))
        c.call((w.cf, 'open_link'), URI)
        done = w.run_until_quiet(stop_after=kk)
        before = w.events()
        c.let('before', before)
        c.ensure('prefix-of-the-sequence', 'before == %r[:len(before)]' % (FULL,))
        link0 = w.links[0]
        if how == 'error':
            c.call((w.cf, '_link_error_cb'), 'radio unplugged')
        elif how == 'close':
            c.call((w.cf, 'close_link'))
        else:
            c.call((w.cf, '_link_error_cb'), 'radio unplugged')
            c.call((w.cf, '_link_error_cb'), 'radio unplugged again')
        c.ensure('handled-without-exception', 'raised is None')
        after = w.events()[len(before):]
        c.let('after', after)
        got_packet = done > 0
        if how == 'close':
            c.ensure('exactly-one-disconnected', "after == ('disconnected',)")
        elif not got_packet:
            c.ensure('failed-before-first-packet', "after[:1] == ('connection_failed',) and 'disconnected' not in after and 'connection_lost' not in after")
        else:
            c.ensure('lost-after-first-packet', "after[:2] == ('disconnected', 'connection_lost')")
        if how == 'error-twice':
            c.ensure('second-report-adds-no-second-disconnected', "after.count('disconnected') <= 1 and after.count('connection_lost') <= 1 and after.count('connection_failed') <= 1")
        c.ensure('disconnected-state', 'cf.link is None and cf.state == 0 and not cf.is_connected() and len(cf._answer_patterns) == 0')
        c.ensure('link-closed-exactly-once', "len(sent('link0.close')) == 1")
        # stale replies of the old attempt can no longer be dispatched (no link); nothing more is delivered
        n_ev = len(w.events())
        w.run_until_quiet()
        c.let('later', w.events()[n_ev:])
        c.ensure('nothing-of-the-attempt-after-disconnected', 'later == ()')
        # the same object connects again
        c.reset_trace()
        c.call((w.cf, 'open_link'), URI)
        w.run_until_quiet()
        c.let('again', w.events())
        c.ensure('reconnect-complete-and-ordered', 'again == %r' % (FULL,))
    return k


for _h in ('error', 'close', 'error-twice'):
    _interrupted(_h)


@contract('C02', 'reconnect.stale-retry-timers', LIFE_F + [CF + ':Crazyflie.send_packet', CF + ':Crazyflie._no_answer_do_retry'],
          clause='the same Crazyflie object can connect again: retry timers of requests that were still unanswered when the application closed '
                 'the link (close_link does not cancel them) fire during the next attempt without blocking it or sending anything of the old attempt',
          bounded='link without delivery guarantee (needs_resending), close after k = 1..8 exchanged packets, every pending timer fires right '
                  'after the next open_link; device with 1 parameter')
def stale_retry_timers(c):
    w = World(c, 1, needs_resending=True)
    kk = c.choice('k', list(range(1, 9)))
    c.call((w.cf, 'open_link'), URI)
    w.run_until_quiet(stop_after=kk)
    c.snapshot('stale', "tuple(t[1][1] for t in sent('Timer') if any(is_same(t[2]['timer'], v) for v in cf._answer_patterns.values()))")
    n_stale = c.concretize('len(stale)')
    c.call((w.cf, 'close_link'))
    c.require('raised is None')
    c.reset_trace()
    c.call((w.cf, 'open_link'), URI)
    c.require('raised is None')
    c.snapshot('n_sent', "len(sent('link1.send_packet'))")
    for i in range(n_stale):
        c.call(c.get('stale')[i] if isinstance(c.get('stale'), tuple) else c.get('stale'))
        c.ensure('stale-timer-%d-returns' % i, 'raised is None')
    c.ensure('nothing-of-the-old-attempt-is-sent', "len(sent('link1.send_packet')) == n_sent and len(sent('link0.send_packet')) == 0")
    c.ensure('send-lock-free', 'not cf._send_lock.locked()')
    w.run_until_quiet()
    c.let('again', w.events())
    c.ensure('reconnect-complete-and-ordered', 'again == %r' % (FULL,))


@contract('C02', 'reconnect-from-callback', LIFE_F,
          clause='the same Crazyflie object can connect again: an application that re-opens the link from its connection_lost callback gets a '
                 'working new attempt',
          bounded='link error after 4 exchanged packets')
def reconnect_from_callback(c):
    w = World(c, 1)
    c.call((w.cf, 'open_link'), URI)
    w.run_until_quiet(stop_after=4)
    fired = []

    def reopen(*_a):
        if not fired:
            fired.append(1)
            c.invoke((w.cf, 'open_link'), URI)
        return None
    c.invoke((c.getfield(w.cf, 'connection_lost'), 'add_callback'), c.ext('app_reconnect', returns={'()': reopen}))
    c.reset_trace()
    c.call((w.cf, '_link_error_cb'), 'lost')
    c.ensure('handled-without-exception', 'raised is None')
    c.ensure('new-link-kept', 'cf.link is not None and len(%r) == 0' % ((),))
    c.let('nlinks', len(w.links))
    c.ensure('one-new-link-opened', 'nlinks == 2')
    w.run_until_quiet()
    c.let('events', w.events())
    c.ensure('new-attempt-completes', "events[-3:] == ('link_established', 'connected', 'fully_connected')")


@contract('C02', 'open_link.no-driver', [CF + ':Crazyflie.open_link'],
          clause='connection_requested followed by connection_failed when there is no usable driver; no exception escapes')
def no_driver(c):
    w = World(c, 1)
    w.driver_mode = c.choice('mode', ['none', 'raise'])
    c.call((w.cf, 'open_link'), 'bogus://1')
    c.ensure('no-exception-escapes', 'raised is None')
    c.let('events', w.events())
    c.ensure('requested-then-failed', "events == ('connection_requested', 'connection_failed')")
    c.ensure('no-link', 'cf.link is None')
    # and the object is still usable
    w.driver_mode = 'link'
    c.reset_trace()
    c.call((w.cf, 'open_link'), URI)
    w.run_until_quiet()
    c.let('again', w.events())
    c.ensure('connects-afterwards', 'again == %r' % (FULL,))


@contract('C02', 'sync.open-close', [SCF + ':SyncCrazyflie.open_link', SCF + ':SyncCrazyflie.close_link', SCF + ':SyncCrazyflie._connected',
                                    SCF + ':SyncCrazyflie._connection_failed', SCF + ':SyncCrazyflie._disconnected', SCF + ':SyncCrazyflie.wait_for_params'],
          clause='a blocking SyncCrazyflie open or close call returns or raises; it raises iff the connection failed; callbacks are removed again',
          bounded='failure modes: no driver / driver raises / link error before the first packet; success = connected signalled during open')
def sync_open_close(c):
    w = World(c, 1)
    scf = c.new(SCF + ':SyncCrazyflie', URI, w.cf)
    c.let('scf', scf)
    mode = c.choice('mode', ['none', 'raise', 'error-before-packet', 'connected'])
    n_cb = c.concretize('len(cf.connected.callbacks) + len(cf.disconnected.callbacks) + len(cf.connection_failed.callbacks) + len(cf.fully_connected.callbacks)')
    if mode in ('none', 'raise'):
        w.driver_mode = mode
    if mode == 'error-before-packet':
        # the driver reports an error from inside open (e.g. the radio thread finds the dongle gone)
        c.invoke((c.getfield(w.cf, 'connection_requested'), 'add_callback'), c.ext('noop'))
        real_lookup = w.cf

        def lookup_then_fail(_i, args, _k):
            ln = c.ext('linkX', attrs={'needs_resending': False})
            w.links.append(ln)
            return ln
        c.patch('cflib.crtp:get_link_driver', c.ext('get_link_driver', returns={'()': lookup_then_fail}))
        fired = []

        def fail_once(*_a):
            if not fired:
                fired.append(1)
                c.invoke((w.cf, '_link_error_cb'), 'dongle gone')
            return None
        c.set(w.cf, 'packet_sent', c.ext('packet_sent', attrs={'call': c.ext('packet_sent.call', returns={'()': fail_once})}))
    if mode == 'connected':
        # success: the exchange with the device is driven by the contract (a blocking open cannot be suspended in a
        # sequential run), with SyncCrazyflie's own callbacks registered exactly as open_link registers them
        c.call((scf, '_add_callbacks'))
        # an application callback registered after SyncCrazyflie's own (self-removing) ones
        c.invoke((c.getfield(w.cf, 'disconnected'), 'add_callback'), c.ext('app_disconnected'))
        n_cb += 1
        c.call((w.cf, 'open_link'), URI)
        w.run_until_quiet()
        c.ensure('link-open-once-connected', 'scf.is_link_open() and scf.is_params_updated()')
        c.call((scf, 'open_link'))
        c.ensure('second-open-refused', "raised == 'Exception'")
        c.call((scf, 'close_link'))
        c.ensure('close-returns', 'raised is None and not scf.is_link_open() and cf.link is None')
        c.ensure('application-sees-exactly-one-disconnected', "len(sent('app_disconnected')) == 1 and len(sent('ev.disconnected')) == 1")
        c.ensure('callbacks-removed-again', 'len(cf.connected.callbacks) + len(cf.disconnected.callbacks) + len(cf.connection_failed.callbacks) + len(cf.fully_connected.callbacks) == %d' % n_cb)
        return
    c.call((scf, 'open_link'))
    c.ensure('open-raises-when-the-connection-fails', "raised == 'Exception' and not scf.is_link_open()")
    c.ensure('callbacks-removed-again', 'len(cf.connected.callbacks) + len(cf.disconnected.callbacks) + len(cf.connection_failed.callbacks) + len(cf.fully_connected.callbacks) == %d' % n_cb)


@contract('C02', 'updater.link-lost-while-waiting', [PRM + ':_ParamUpdater.run', PRM + ':_ParamUpdater.close', PRM + ':Param._disconnected',
                                                     CF + ':Crazyflie._link_error_cb'],
          clause='the library reaches the disconnected state without leaving a lock behind: when the link is lost while the parameter thread '
                 'waits for the previous answer, the thread wakes up, transmits nothing on the dead link and does not keep the lock, so the same '
                 'object can download its parameters again after reconnecting',
          bounded='one schedule: the link error is handled by another thread while the parameter thread is blocked in wait_lock.acquire()')
def link_lost_while_waiting(c):
    w = World(c, 1)
    c.call((w.cf, 'open_link'), URI)
    w.run_until_quiet(stop_after=7)
    st = {'held': True, 'fired': False}
    upd = w.upd

    def acquire(_i, args, _k):
        if st['held'] and not st['fired']:
            # the thread blocks here; meanwhile the driver reports a link error on another thread, whose handling
            # (Param._disconnected -> _ParamUpdater.close) releases this lock; then the blocked acquire succeeds
            st['fired'] = True
            c.invoke((w.cf, '_link_error_cb'), 'link lost')
        if st['held']:
            return c.raiser('Deadlock', 'acquire of a lock nobody will release')()
        st['held'] = True
        return True

    def release(_i, args, _k):
        if not st['held']:
            return c.raiser('RuntimeError', 'release unlocked lock')()
        st['held'] = False
        return None
    lock = c.ext('wlock', returns={'acquire': acquire, 'release': release, 'locked': lambda *_a: st['held']})
    c.set(upd, 'wait_lock', lock)
    c.invoke((c.getfield(upd, 'request_queue'), 'put'), c.new(STK + ':CRTPPacket', (2 << 4) | 1, bytes([0, 0])))
    c.reset_trace()
    c.call((upd, 'run'))
    c.ensure('thread-goes-back-to-waiting-for-requests', "raised == 'Deadlock' and 'get on empty queue' in str(exc)")
    c.ensure('nothing-transmitted-on-the-dead-link', "cf.link is None and not any(n.startswith('link') and n.endswith('send_packet') for n in calls())")
    c.let('held', st['held'])
    c.ensure('lock-not-kept', 'held is False')
