"""C02 - connection lifecycle is well-formed (sequential fragment + explicit schedules).

A REAL Crazyflie (real constructor: real Param, Log, Memory, PlatformService, dispatcher, TOC fetchers, SyncCrazyflie)
is connected to a device simulator written in the contract: `cflib.crtp.get_link_driver` is replaced by a stub that
hands out a recording link; every packet the library sends is answered by the simulator according to the CRTP
services (protocol version, log reset + log TOC, memory count / details / 1-wire content, parameter TOC, extended
parameter types, parameter read) and delivered through the real dispatcher loop.  Threads are sequential: Thread.start
is recorded and the queue-serving threads (parameter updater, extended-type fetcher) are run by the contract until they
block (see contracts/C04.py); a transmission by such a thread and the device's answer are separate steps.

Decided: event order connection_requested -> link_established -> connected -> fully_connected with `connected` only
after both tables (and memories, extended types) are complete and `fully_connected` only after every parameter has a
value; failure / loss / close at every point k of the exchange produce exactly the notifications the property
prescribes (connection_failed XOR disconnected+connection_lost, one disconnected per close_link - in EVERY state of the
object -, nothing of the attempt after its first disconnected); the same object connects again afterwards (also from
inside any notification that ends an attempt); driver lookup failures; the REAL blocking SyncCrazyflie open / close /
wait_for_params / with-statement calls return or raise, over two sessions on one object.

Thread interleavings are not explored exhaustively; they are covered by EXPLICIT SCHEDULES, each a contract of its own
in which a stub call runs the other thread's action at that point:
 * the user thread blocked in a SyncCrazyflie wait while the dispatcher / parameter threads run (class SyncWorld: the
   module's `Event` is a stub whose wait() is the schedule), with a link error / an application close_link after the
   k-th packet exchanged meanwhile;
 * a link error reported from the SENDING thread (driver calls the error callback inside send_packet with the send lock
   held): from open_link, from a dispatcher callback, from the parameter thread, from close_link's zero set-point, from
   a memory read / write;
 * the latency-ping thread (World._ping_model): joined through the real Latency.stop / _ping_thread, asleep or blocked
   in ping();
 * the other thread acting in the middle of a dispatcher callback (at the log statement that opens the library
   callback of each stage);
 * a second error report arriving while the first is delivered; an error between `is_link_open()` and `Event()` of
   SyncCrazyflie.close_link; the parameter thread blocked in wait_lock.acquire().

FINDINGS on the unchanged tree (contracts kept with thorough_only=True so that `./vcheck C02` stays green; each fails
with a native replay in `./vcheck C02 thorough`):
 F1 sync.open-under-link-error.after-first-packet, sync.open-under-close-link: SyncCrazyflie.open_link never returns when
    the attempt ends with `disconnected` (link error after the first packet and before connected, or a close_link by the
    application): nobody sets the event it waits on.
 F2 sync.close-while-the-link-fails.before-the-event-exists: close_link never returns when the link error is handled
    between its is_link_open() test and the creation of the event (the callbacks are gone by then).
 F3 link-error.from-the-sending-thread-while-ping-waits: the driver reports "cannot send" from inside send_packet (send
    lock held) while the latency-ping thread waits for that lock; the disconnect joins the ping thread: deadlock.
 F4 link-error.from-the-sending-thread-during-memory-write: the same report inside Memory.write (which holds
    _write_requests_lock) self-deadlocks in Memory._disconnected.
 F5 interrupted-extended.*.request-in-flight: an attempt interrupted while the extended-type request is in flight leaves
    that fetcher's packet callback registered; the next attempt gets `connected` twice.
 F6 mid-callback.*.next-stage-race: a disconnect on another thread between "stage complete" and the signalling of the next
    stage: connected / fully_connected after disconnected, or a fetcher started after the disconnect (`connected` twice in
    the next attempt).
 F7 reconnect-from-any-callback.new-attempt-fails-before-its-first-packet: open_link from inside a notification of
    _link_error_cb / close_link has its INITIALIZED state overwritten by DISCONNECTED; a failure of the new link before
    its first packet is reported as disconnected_link_error, never connection_failed.
 F8 link-error.reported-by-two-threads-at-once: two overlapping reports give two disconnected + two connection_lost and a
    ValueError (TocFetcher._disconnected removes itself twice) escapes into the reporting thread.

NOT decidable with this technique and not claimed: bounded-time disconnect as a time bound; absence of deadlock under
ALL interleavings (only the schedules above); symbolic numbers of parameters / memories (the exchange is driven by the
contract-side device, bounded to 1-2 parameters, 0-2 memories).  The MANIFEST entry states that the claim is this fragment.
"""
from pyvc.api import contract

CF = 'cflib.crazyflie'
SCF = 'cflib.crazyflie.syncCrazyflie'
STK = 'cflib.crtp.crtpstack'
PRM = 'cflib.crazyflie.param'
LS = 'cflib.crazyflie.link_statistics'
MEMP = 'cflib.crazyflie.mem'

EVENTS = ['connection_requested', 'link_established', 'connected', 'fully_connected', 'disconnected', 'connection_lost',
          'connection_failed', 'disconnected_link_error']

LIFE_F = [CF + ':Crazyflie.open_link', CF + ':Crazyflie.close_link', CF + ':Crazyflie._link_error_cb', CF + ':Crazyflie._check_for_initial_packet_cb',
          CF + ':Crazyflie._start_connection_setup', CF + ':Crazyflie._platform_info_fetched', CF + ':Crazyflie._log_toc_updated_cb',
          CF + ':Crazyflie._mems_updated_cb', CF + ':Crazyflie._param_toc_updated_cb', CF + ':Crazyflie._all_parameters_updated',
          'cflib.crazyflie.platformservice:PlatformService._platform_callback', 'cflib.crazyflie.platformservice:PlatformService._crt_service_callback',
          'cflib.crazyflie.log:Log.refresh_toc', 'cflib.crazyflie.log:Log._new_packet_cb', 'cflib.crazyflie.mem:Memory.refresh',
          PRM + ':Param.refresh_toc', PRM + ':Param.request_update_of_all_params', PRM + ':Param._param_updated',
          'cflib.crazyflie.toc:TocFetcher.start', 'cflib.crazyflie.toc:TocFetcher._new_packet_cb']

URI = 'radio://0/80/2M'


class World:
    """real Crazyflie + device simulator (contract-side, back-end agnostic)"""

    def __init__(self, c, n_params=1, needs_resending=False, extended=False, n_mems=0, onewire=False):
        self.c = c
        self.onewire = onewire              # the first memory is a 1-wire deck memory: its content is read before `connected`
        self.extended = extended            # the parameters carry extended type information (fetched before `connected`)
        self.n_mems = n_mems                # memories the device reports (type I2C, then LOCO ...; no 1-wire)
        c.virtual_time()
        if needs_resending:
            c.use_stubs(CF, ['Timer'])      # retry timers are recorded; the contract decides when one fires
        self.in_dispatch = False            # the dispatcher thread is running (inside `deliver`)
        self.send_fault = None              # (n, action): the n-th send_packet on the current link runs `action` on the sending thread
        self.n_sent = 0
        self._ping_model()
        # the dispatcher thread idles (sleep, look again) while there is no link: the scripted events of a `deliver` are over
        c.patch(CF + ':time', c.ext('cf_time', returns={'sleep': c.raiser('StopLoop')}))
        self.cf = c.new(CF + ':Crazyflie')
        self.n_params = n_params
        self.links = []
        self.answered = 0
        self.exchanged = 0
        self.driver_mode = 'link'
        param = c.getfield(self.cf, 'param')
        self.upd = c.getfield(param, 'param_updater')
        c.set(self.upd, 'request_queue', c.queue('rq'))
        c.set(self.upd, 'wait_lock', c.lock('wait_lock'))
        if extended:
            # the extended-type fetcher threads are created during the sequence: their queue and lock are the sequential models
            nq = []

            def mk_queue(*_a):
                nq.append(1)
                return c.queue('etf_q%d' % len(nq))

            def mk_lock(*_a):
                nq.append(1)
                return c.lock('etf_lock%d' % len(nq))
            c.patch(PRM + ':Queue', c.ext('Queue', returns={'()': mk_queue}))
            c.patch(PRM + ':Lock', c.ext('Lock', returns={'()': mk_lock}))
        for ev in EVENTS:
            c.invoke((c.getfield(self.cf, ev), 'add_callback'), c.ext('ev.' + ev))
        c.let('cf', self.cf)

        def lookup(_i, args, _k):
            if self.driver_mode == 'none':
                return None
            if self.driver_mode == 'raise':
                return c.raiser('OSError', 'dongle not found')()
            if self.driver_mode == 'error-during-connect':
                # the driver's own thread reports the failure while the application thread is still inside the driver's connect()
                c.invoke((self.cf, '_link_error_cb'), 'dongle unplugged')
            ln = c.ext('link%d' % len(self.links), attrs={'needs_resending': needs_resending}, returns={'send_packet': self._on_send})
            self.links.append(ln)
            self.answered = 0
            self.n_sent = 0
            return ln
        c.patch('cflib.crtp:get_link_driver', c.ext('get_link_driver', returns={'()': lookup}))
        c.reset_trace()

    def _on_send(self, _i, args, _k):
        """link.send_packet of the driver; a driver that cannot transmit reports the error from the sending thread"""
        n = self.n_sent
        self.n_sent += 1
        if self.send_fault is not None and n == self.send_fault[0]:
            action = self.send_fault[1]
            self.send_fault = None
            action()
            return False
        return True

    def _ping_model(self):
        """the latency-ping thread (cflib.crazyflie.link_statistics creates it with Thread(target=...)) as an explicit
        schedule: start() only records; while it is alive the thread is either asleep between two pings (default) or
        blocked inside ping() (`ping_blocked_in_send`: it waits for the send lock); join() lets it run on from
        there through the REAL thread function until that returns.  A thread function that keeps going round its loop
        (three more sleeps) never ends: the join - and with it the disconnect - blocks for ever (Deadlock)."""
        c = self.c
        self.pings = []                     # one dict per created ping thread
        self.ping_blocked_in_send = False
        st = {'sleeps': 0}

        def sleep(_i, args, _k):
            st['sleeps'] += 1
            if st['sleeps'] > 3:
                return c.raiser('Deadlock', 'the latency-ping thread never stops: join() blocks for ever')()
            return None
        c.patch(LS + ':time', c.ext('ls_time', returns={'sleep': sleep, 'time': lambda *_a: 1000.0}))

        def make_thread(_i, args, kwargs):
            t = {'state': 'new', 'target': kwargs['target']}
            self.pings.append(t)

            def start(*_a):
                if t['state'] != 'new':
                    return c.raiser('RuntimeError', 'threads can only be started once')()
                t['state'] = 'alive'
                return None

            def join(*_a):
                if t['state'] == 'new':
                    return c.raiser('RuntimeError', 'cannot join thread before it is started')()
                if t['state'] == 'alive':
                    st['sleeps'] = 0
                    if self.ping_blocked_in_send:
                        c.invoke((c.getfield(c.getfield(self.cf, 'link_statistics'), 'latency'), 'ping'))
                    c.invoke(t['target'])
                    t['state'] = 'ended'
                return None
            return c.ext('pingthread%d' % (len(self.pings) - 1), returns={'start': start, 'join': join, 'is_alive': lambda *_a: t['state'] == 'alive'})
        c.patch(LS + ':Thread', c.ext('PingThread', returns={'()': make_thread}))

    def pings_alive(self):
        return len([t for t in self.pings if t['state'] == 'alive'])

    # -- the device
    def reply_for(self, port, channel, data):
        """(channel, bytes) of the device's answer to a request, or None"""
        if port == 15 and channel == 1:
            return 15, 1, b'Bitcraze Crazyflie\x00'
        if port == 13 and channel == 1 and data[:1] == [0]:
            return 13, 1, bytes([0, 9])
        if port == 5 and channel == 1 and data[:1] == [5]:
            return 5, 1, bytes([5, 0, 0])
        if port == 5 and channel == 0 and data[:1] == [3]:
            return 5, 0, bytes([3, 0, 0, 0x11, 0x22, 0x33, 0x44, 16, 128])
        if port == 4 and channel == 0 and data[:1] == [1]:
            return 4, 0, bytes([1, self.n_mems])
        if port == 4 and channel == 0 and data[:1] == [2]:
            # memory details: id, type (0 = I2C, 0x11 = LOCO, ...), size, 8 address bytes
            mtype = [1 if self.onewire else 0, 0x11, 0x10, 0x12][data[1] % 4]
            return 4, 0, bytes([2, data[1], mtype, 0, 4, 0, 0]) + bytes(8)
        if port == 4 and channel == 1 and len(data) == 6:
            # memory read (id, address, length): a valid 1-wire image with an empty element area
            import binascii
            import struct
            header = struct.pack('<BIBB', 0xEB, 0, 0xBC, 1)
            header += bytes([binascii.crc32(header) & 0xff])
            image = header + bytes([0, 0, binascii.crc32(bytes([0, 0])) & 0xff]) + bytes(101)
            addr = data[1] | (data[2] << 8) | (data[3] << 16) | (data[4] << 24)
            return 4, 1, bytes(data[:5]) + bytes([0]) + image[addr:addr + data[5]]
        if port == 2 and channel == 0 and data[:1] == [3]:
            return 2, 0, bytes([3, self.n_params, 0, 0xAA, 0xBB, 0xCC, 0xDD])
        if port == 2 and channel == 0 and data[:1] == [2]:
            idx = data[1] | (data[2] << 8)
            return 2, 0, bytes([2, data[1], data[2], 0x18 if self.extended else 0x08]) + b'grp\x00' + ('p%d' % idx).encode() + b'\x00'
        if port == 2 and channel == 3 and data[:1] == [2]:
            return 2, 3, bytes([2, data[1], data[2], 1])        # extended type: persistent
        if port == 2 and channel == 1:
            return 2, 1, bytes([data[0], data[1], 0, 40 + data[0]])
        if port == 3:
            return None         # zero set-point sent by close_link
        return None

    def deliver(self, port, channel, data):
        c = self.c
        link = c.getfield(self.cf, 'link')
        if link is None:
            return False
        pk = c.new(STK + ':CRTPPacket', (port << 4) | channel, data)
        pending = [pk]
        stop = c.raiser('StopLoop')

        def rx(*_a):
            if pending:
                return pending.pop(0)
            return stop()
        c.set(link, 'receive_packet', c.ext(link.name if hasattr(link, 'name') else 'link', returns={'()': rx}))
        self.in_dispatch = True
        c.call((c.getfield(self.cf, 'incoming'), 'run'))
        self.in_dispatch = False
        c.ensure('dispatcher-survives', "raised == 'StopLoop'", cls='A')
        self.exchanged += 1
        return True

    def pump_updater(self):
        self.pump(self.upd)
        if self.extended:
            # every extended-type fetcher thread ever started (those of earlier attempts are still there)
            c = self.c
            seen = []
            for e in c.get('trace') or ():
                if e[0] == 'thread:_ExtendedTypeFetcher.start' and not any(e[1][0] is x for x in seen):
                    seen.append(e[1][0])
            for t in self.fetchers:
                if not any(t is x for x in seen):
                    seen.insert(0, t)
            self.fetchers = seen
            for t in seen:
                self.pump(t)

    fetchers = ()

    def pump(self, thread):
        """let a queue-serving thread run until it blocks (empty queue, or the lock of the request in flight)"""
        c = self.c
        q = c.getfield(thread, 'request_queue')
        before = list(q.items)
        c.call((thread, 'run'))
        if c.get('raised') == 'Deadlock' and c.concretize("'acquire' in str(exc)"):
            taken = len(before) - len(q.items)
            if taken >= 1:
                q.items.insert(0, before[taken - 1])

    def sent_packets(self):
        c = self.c
        if not self.links:
            return []
        name = 'link%d.send_packet' % (len(self.links) - 1)
        return [e for e in c.get('trace') or () if e[0] == name]

    def step(self):
        """let the queue-serving threads transmit, or else answer the next unanswered request of the current link; False when
        there is nothing left to do"""
        c = self.c
        n_before = len(self.sent_packets())
        self.pump_updater()
        c.snapshot('trace', 'trace')
        sent = self.sent_packets()
        if len(sent) > n_before:
            # a queue-serving thread (parameter updater, extended-type fetcher) transmitted a request: a step of its own, so
            # that an interruption can fall between this transmission and the device's answer
            return True
        while self.answered < len(sent):
            pk = sent[self.answered][1][0]
            self.answered += 1
            c.let('rq_pk', pk)
            port = c.concretize('rq_pk.port')
            ch = c.concretize('rq_pk.channel')
            n = c.concretize('len(rq_pk.data)')
            data = [c.concretize('rq_pk.data[%d]' % i) for i in range(n)]
            r = self.reply_for(port, ch, data)
            if r is not None:
                return self.deliver(*r)
        return False

    def run_until_quiet(self, max_steps=40, stop_after=None):
        n = 0
        while n < max_steps and (stop_after is None or n < stop_after):
            if not self.step():
                break
            n += 1
        return n

    def events(self):
        c = self.c
        c.snapshot('trace', 'trace')
        return tuple(e[0][3:] for e in (c.get('trace') or ()) if e[0].startswith('ev.'))


FULL = ('connection_requested', 'link_established', 'connected', 'fully_connected')


@contract('C02', 'connect.full-sequence', LIFE_F,
          clause='connection_requested, link_established, connected, fully_connected in that order, once each; connected only once the log and '
                 'parameter tables are complete, fully_connected only once every parameter has a value',
          bounded='device with empty log table, 1 or 2 parameters (protocol version 9) with or without extended type information (fetched by a '
                  'thread of its own, one request at a time, before connected), 0 or 2 memories or one 1-wire deck memory (read before connected)')
def full_sequence(c):
    n = c.choice('n_params', [1, 2])
    dev = c.choice('device', ['plain', 'extended', 'memories', 'onewire'])
    w = World(c, n, extended=(dev == 'extended'), n_mems={'memories': 2, 'onewire': 1}.get(dev, 0), onewire=(dev == 'onewire'))
    c.call((w.cf, 'open_link'), URI)
    c.ensure('open-returns', 'raised is None')
    seen_before_connected = None
    for i in range(40):
        ev = w.events()
        if 'connected' in ev and seen_before_connected is None:
            seen_before_connected = True
            c.ensure('tables-complete-when-connected', "cf.log.toc is not None and len(cf.param.toc.toc.get('grp', {})) == %d" % n)
            if dev == 'extended':
                c.ensure('extended-types-known-when-connected', "all(e.is_persistent() for e in cf.param.toc.toc['grp'].values())")
            if dev == 'memories':
                c.ensure('memories-known-when-connected', 'len(cf.mem.mems) == 2')
            if dev == 'onewire':
                c.ensure('deck-memory-read-when-connected', 'len(cf.mem.mems) == 1 and cf.mem.mems[0].valid and cf.mem.mems[0].vid == 0xBC')
            c.ensure('no-value-yet-hence-not-fully-connected', "'fully_connected' not in %r" % (ev,))
        if 'fully_connected' in ev:
            c.ensure('every-parameter-has-a-value', "len(cf.param.values.get('grp', {})) == %d" % n)
        if not w.step():
            break
    c.let('events', w.events())
    c.ensure('event-sequence', 'events == %r' % (FULL,))
    c.ensure('state-and-link', 'cf.state == 2 and cf.link is not None and cf.is_connected()')
    # once each: a parameter value that arrives later (the application asks for a fresh one) is not a second fully_connected
    c.call((c.getfield(w.cf, 'param'), 'request_param_update'), 'grp.p0')
    w.run_until_quiet()
    c.let('events', w.events())
    c.ensure('later-value-is-not-a-second-fully-connected', 'events == %r' % (FULL,))
    c.ensure('request-answered', 'not wait_lock.locked() and rq.qsize() == 0')


def _interrupted(how, device='plain', points=None, suffix='', thorough_only=False):
    ks = {'plain': 10, 'extended': 12, 'memories': 12, 'onewire': 12}[device]
    points = tuple(range(ks)) if points is None else tuple(points)
    world = {'plain': {}, 'extended': {'extended': True}, 'memories': {'n_mems': 2}, 'onewire': {'n_mems': 1, 'onewire': True}}[device]

    @contract('C02', 'interrupted%s.%s%s' % ('' if device == 'plain' else '-' + device, how, suffix),
              LIFE_F + ([PRM + ':_ExtendedTypeFetcher.run', PRM + ':_ExtendedTypeFetcher._new_packet_cb', PRM + ':_ExtendedTypeFetcher.request_extended_types']
                        if device == 'extended' else []) + (['cflib.crazyflie.mem:Memory._handle_cmd_info_details', 'cflib.crazyflie.mem:Memory._handle_cmd_info_nbr']
                                                          if device in ('memories', 'onewire') else []) + (
                  [MEMP + ':Memory._mem_update_done', MEMP + ':Memory.read', MEMP + ':Memory._handle_chan_read', MEMP + ':Memory._disconnected'] if device == 'onewire' else []),
              thorough_only=thorough_only,
              clause='a link failure before any packet arrives gives exactly connection_failed; after the first packet exactly one disconnected and '
                     'then one connection_lost; every close_link gives exactly one disconnected; nothing of the attempt is delivered after its first '
                     'disconnected; afterwards the same object connects again with a complete, well-ordered sequence',
              bounded='interruption after k in %s exchanged packets (a request transmitted by the parameter thread or the extended-type thread '
                      'and its answer count separately); device with 1 parameter%s' % (
                  '0..%d' % (ks - 1) if points == tuple(range(ks)) else repr(points), {'plain': '', 'extended': ' that has extended type information (fetched by a thread of its own before connected)',
                           'memories': ' and 2 memories (I2C, LOCO)', 'onewire': ' and a 1-wire deck memory (read before connected)'}[device]))
    def k(c):
        w = World(c, 1, **world)
        kk = c.choice('k', list(points))
        c.call((w.cf, 'open_link'), URI)
        done = w.run_until_quiet(stop_after=kk)
        before = w.events()
        c.let('before', before)
        c.ensure('prefix-of-the-sequence', 'before == %r[:len(before)]' % (FULL,))
        link0 = w.links[0]
        if how == 'error':
            c.call((w.cf, '_link_error_cb'), 'radio unplugged')
        elif how == 'close':
            c.call((w.cf, 'close_link'))
        else:
            c.call((w.cf, '_link_error_cb'), 'radio unplugged')
            c.call((w.cf, '_link_error_cb'), 'radio unplugged again')
        c.ensure('handled-without-exception', 'raised is None')
        after = w.events()[len(before):]
        c.let('after', after)
        got_packet = done > 0
        if how == 'close':
            c.ensure('exactly-one-disconnected', "after == ('disconnected',)")
        elif not got_packet:
            c.ensure('failed-before-first-packet', "after[:1] == ('connection_failed',) and 'disconnected' not in after and 'connection_lost' not in after")
        else:
            c.ensure('lost-after-first-packet', "after[:2] == ('disconnected', 'connection_lost')")
        if how == 'error-twice':
            c.ensure('second-report-adds-no-second-disconnected', "after.count('disconnected') <= 1 and after.count('connection_lost') <= 1 and after.count('connection_failed') <= 1")
        c.ensure('disconnected-state', 'cf.link is None and cf.state == 0 and not cf.is_connected() and len(cf._answer_patterns) == 0')
        c.ensure('link-closed-exactly-once', "len(sent('link0.close')) == 1")
        # stale replies of the old attempt can no longer be dispatched (no link); nothing more is delivered
        n_ev = len(w.events())
        w.run_until_quiet()
        c.let('later', w.events()[n_ev:])
        c.ensure('nothing-of-the-attempt-after-disconnected', 'later == ()')
        # the same object connects again
        c.reset_trace()
        c.call((w.cf, 'open_link'), URI)
        w.run_until_quiet()
        c.let('again', w.events())
        c.ensure('reconnect-complete-and-ordered', 'again == %r' % (FULL,))
    return k


for _h in ('error', 'close', 'error-twice'):
    _interrupted(_h)
for _h in ('error', 'close'):
    _interrupted(_h, 'memories')
    _interrupted(_h, 'onewire')
    # FINDING on the unchanged tree (k = 8: the request of the extended-type thread is in flight): that thread's packet callback stays
    # registered, in the next attempt it answers too and `connected` is delivered twice.  Kept in the thorough tier.
    _interrupted(_h, 'extended', points=[k for k in range(12) if k != 8])
    _interrupted(_h, 'extended', points=[8], suffix='.request-in-flight', thorough_only=True)


@contract('C02', 'reconnect.stale-retry-timers', LIFE_F + [CF + ':Crazyflie.send_packet', CF + ':Crazyflie._no_answer_do_retry'],
          clause='the same Crazyflie object can connect again: retry timers of requests that were still unanswered when the application closed '
                 'the link (close_link does not cancel them) fire during the next attempt without blocking it or sending anything of the old attempt; '
                 'after a link error (which does not cancel them either) they do not block or disorder the next attempt',
          bounded='link without delivery guarantee (needs_resending), close / link error after k = 1..8 exchanged packets, every pending timer '
                  'fires right after the next open_link; device with 1 parameter')
def stale_retry_timers(c):
    w = World(c, 1, needs_resending=True)
    kk = c.choice('k', list(range(1, 9)))
    c.call((w.cf, 'open_link'), URI)
    w.run_until_quiet(stop_after=kk)
    c.snapshot('stale', "tuple(t[1][1] for t in sent('Timer') if any(is_same(t[2]['timer'], v) for v in cf._answer_patterns.values()))")
    n_stale = c.concretize('len(stale)')
    ended_by = c.choice('attempt_ended_by', ['close_link', 'link-error'])
    if ended_by == 'close_link':
        c.call((w.cf, 'close_link'))
    else:
        c.call((w.cf, '_link_error_cb'), 'too many packets lost')
    c.require('raised is None')
    c.reset_trace()
    c.call((w.cf, 'open_link'), URI)
    c.require('raised is None')
    c.snapshot('n_sent', "len(sent('link1.send_packet'))")
    for i in range(n_stale):
        c.call(c.get('stale')[i] if isinstance(c.get('stale'), tuple) else c.get('stale'))
        c.ensure('stale-timer-%d-returns' % i, 'raised is None')
    if ended_by == 'close_link':
        c.ensure('nothing-of-the-old-attempt-is-sent', "len(sent('link1.send_packet')) == n_sent and len(sent('link0.send_packet')) == 0")
    else:
        # after a link ERROR the expected-answer table is not cleared (observation, reported): the stale timers re-transmit requests of the
        # old attempt on the new link.  The property only asks that the new attempt is not blocked or disordered by them.
        c.ensure('nothing-is-sent-on-the-dead-link', "len(sent('link0.send_packet')) == 0")
    c.ensure('send-lock-free', 'not cf._send_lock.locked()')
    w.run_until_quiet()
    c.let('again', w.events())
    c.ensure('reconnect-complete-and-ordered', 'again == %r' % (FULL,))


@contract('C02', 'reconnect-from-callback', LIFE_F,
          clause='the same Crazyflie object can connect again: an application that re-opens the link from its connection_lost callback gets a '
                 'working new attempt',
          bounded='link error after 4 exchanged packets')
def reconnect_from_callback(c):
    w = World(c, 1)
    c.call((w.cf, 'open_link'), URI)
    w.run_until_quiet(stop_after=4)
    fired = []

    def reopen(*_a):
        if not fired:
            fired.append(1)
            c.invoke((w.cf, 'open_link'), URI)
        return None
    c.invoke((c.getfield(w.cf, 'connection_lost'), 'add_callback'), c.ext('app_reconnect', returns={'()': reopen}))
    c.reset_trace()
    c.call((w.cf, '_link_error_cb'), 'lost')
    c.ensure('handled-without-exception', 'raised is None')
    c.ensure('new-link-kept', 'cf.link is not None and len(%r) == 0' % ((),))
    c.let('nlinks', len(w.links))
    c.ensure('one-new-link-opened', 'nlinks == 2')
    w.run_until_quiet()
    c.let('events', w.events())
    c.ensure('new-attempt-completes', "events[-3:] == ('link_established', 'connected', 'fully_connected')")


@contract('C02', 'open_link.no-driver', [CF + ':Crazyflie.open_link'],
          clause='connection_requested followed by connection_failed when there is no usable driver; no exception escapes')
def no_driver(c):
    w = World(c, 1)
    w.driver_mode = c.choice('mode', ['none', 'raise'])
    c.call((w.cf, 'open_link'), 'bogus://1')
    c.ensure('no-exception-escapes', 'raised is None')
    c.let('events', w.events())
    c.ensure('requested-then-failed', "events == ('connection_requested', 'connection_failed')")
    c.ensure('no-link', 'cf.link is None')
    # and the object is still usable
    w.driver_mode = 'link'
    c.reset_trace()
    c.call((w.cf, 'open_link'), URI)
    w.run_until_quiet()
    c.let('again', w.events())
    c.ensure('connects-afterwards', 'again == %r' % (FULL,))


@contract('C02', 'open_link.link-error-during-connect', [CF + ':Crazyflie.open_link', CF + ':Crazyflie._link_error_cb'],
          clause='connection_requested followed by connection_failed when the link fails before any packet arrives - also when the driver reports '
                 'the failure from its own thread while open_link is still inside the driver\'s connect(); no exception escapes',
          bounded='explicit schedule: the error report runs inside the driver look-up, before it returns the link')
def link_error_during_connect(c):
    w = World(c, 1)
    w.driver_mode = 'error-during-connect'
    c.call((w.cf, 'open_link'), URI)
    c.ensure('no-exception-escapes', 'raised is None')
    c.let('events', w.events())
    c.ensure('requested-then-failed-once', "events[:2] == ('connection_requested', 'connection_failed') and events.count('connection_failed') == 1 "
             "and 'disconnected_link_error' not in events and 'connected' not in events")


@contract('C02', 'sync.open-close', [SCF + ':SyncCrazyflie.open_link', SCF + ':SyncCrazyflie.close_link', SCF + ':SyncCrazyflie._connected',
                                    SCF + ':SyncCrazyflie._connection_failed', SCF + ':SyncCrazyflie._disconnected', SCF + ':SyncCrazyflie.wait_for_params'],
          clause='a blocking SyncCrazyflie open or close call returns or raises; it raises iff the connection failed; callbacks are removed again',
          bounded='failure modes: no driver / driver raises / link error before the first packet; success = connected signalled during open')
def sync_open_close(c):
    w = World(c, 1)
    scf = c.new(SCF + ':SyncCrazyflie', URI, w.cf)
    c.let('scf', scf)
    mode = c.choice('mode', ['none', 'raise', 'error-before-packet', 'connected'])
    n_cb = c.concretize('len(cf.connected.callbacks) + len(cf.disconnected.callbacks) + len(cf.connection_failed.callbacks) + len(cf.fully_connected.callbacks)')
    if mode in ('none', 'raise'):
        w.driver_mode = mode
    if mode == 'error-before-packet':
        # the driver reports an error from inside open (e.g. the radio thread finds the dongle gone)
        c.invoke((c.getfield(w.cf, 'connection_requested'), 'add_callback'), c.ext('noop'))
        real_lookup = w.cf

        def lookup_then_fail(_i, args, _k):
            ln = c.ext('linkX', attrs={'needs_resending': False})
            w.links.append(ln)
            return ln
        c.patch('cflib.crtp:get_link_driver', c.ext('get_link_driver', returns={'()': lookup_then_fail}))
        fired = []

        def fail_once(*_a):
            if not fired:
                fired.append(1)
                c.invoke((w.cf, '_link_error_cb'), 'dongle gone')
            return None
        c.set(w.cf, 'packet_sent', c.ext('packet_sent', attrs={'call': c.ext('packet_sent.call', returns={'()': fail_once})}))
    if mode == 'connected':
        # success: the exchange with the device is driven by the contract (a blocking open cannot be suspended in a
        # sequential run), with SyncCrazyflie's own callbacks registered exactly as open_link registers them
        c.call((scf, '_add_callbacks'))
        # an application callback registered after SyncCrazyflie's own (self-removing) ones
        c.invoke((c.getfield(w.cf, 'disconnected'), 'add_callback'), c.ext('app_disconnected'))
        n_cb += 1
        c.call((w.cf, 'open_link'), URI)
        w.run_until_quiet()
        c.ensure('link-open-once-connected', 'scf.is_link_open() and scf.is_params_updated()')
        c.call((scf, 'open_link'))
        c.ensure('second-open-refused', "raised == 'Exception'")
        c.call((scf, 'close_link'))
        c.ensure('close-returns', 'raised is None and not scf.is_link_open() and cf.link is None')
        c.ensure('application-sees-exactly-one-disconnected', "len(sent('app_disconnected')) == 1 and len(sent('ev.disconnected')) == 1")
        c.ensure('callbacks-removed-again', 'len(cf.connected.callbacks) + len(cf.disconnected.callbacks) + len(cf.connection_failed.callbacks) + len(cf.fully_connected.callbacks) == %d' % n_cb)
        return
    c.call((scf, 'open_link'))
    c.ensure('open-raises-when-the-connection-fails', "raised == 'Exception' and not scf.is_link_open()")
    c.ensure('callbacks-removed-again', 'len(cf.connected.callbacks) + len(cf.disconnected.callbacks) + len(cf.connection_failed.callbacks) + len(cf.fully_connected.callbacks) == %d' % n_cb)


@contract('C02', 'updater.link-lost-while-waiting', [PRM + ':_ParamUpdater.run', PRM + ':_ParamUpdater.close', PRM + ':Param._disconnected',
                                                     CF + ':Crazyflie._link_error_cb', CF + ':Crazyflie.close_link'],
          clause='the library reaches the disconnected state without leaving a lock behind: when the link is lost while the parameter thread '
                 'waits for the previous answer, the thread wakes up, transmits nothing on the dead link and does not keep the lock, so the same '
                 'object can download its parameters again after reconnecting',
          bounded='one schedule: the link error is handled (or the application\'s close_link runs) on another thread while the parameter thread is '
                  'blocked in wait_lock.acquire()')
def link_lost_while_waiting(c):
    w = World(c, 1)
    c.call((w.cf, 'open_link'), URI)
    w.run_until_quiet(stop_after=7)
    ended_by = c.choice('ended_by', ['link-error', 'close_link'])
    st = {'held': True, 'fired': False}
    upd = w.upd

    def acquire(_i, args, _k):
        if st['held'] and not st['fired']:
            # the thread blocks here; meanwhile the driver reports a link error on another thread, whose handling
            # (Param._disconnected -> _ParamUpdater.close) releases this lock; then the blocked acquire succeeds
            st['fired'] = True
            if ended_by == 'link-error':
                c.invoke((w.cf, '_link_error_cb'), 'link lost')
            else:
                c.invoke((w.cf, 'close_link'))
        if st['held']:
            return c.raiser('Deadlock', 'acquire of a lock nobody will release')()
        st['held'] = True
        return True

    def release(_i, args, _k):
        if not st['held']:
            return c.raiser('RuntimeError', 'release unlocked lock')()
        st['held'] = False
        return None
    lock = c.ext('wlock', returns={'acquire': acquire, 'release': release, 'locked': lambda *_a: st['held']})
    c.set(upd, 'wait_lock', lock)
    c.invoke((c.getfield(upd, 'request_queue'), 'put'), c.new(STK + ':CRTPPacket', (2 << 4) | 1, bytes([0, 0])))
    c.reset_trace()
    c.call((upd, 'run'))
    c.ensure('thread-goes-back-to-waiting-for-requests', "raised == 'Deadlock' and 'get on empty queue' in str(exc)")
    if ended_by == 'link-error':
        c.ensure('nothing-transmitted-on-the-dead-link', "cf.link is None and not any(n.startswith('link') and n.endswith('send_packet') for n in calls())")
    else:
        # close_link itself transmits its zero set-point before it closes the link; the woken parameter thread transmits nothing
        c.ensure('nothing-transmitted-on-the-dead-link', "cf.link is None and all(e[1][0].port == 3 for e in sent('link0.send_packet')) and len(sent('link0.send_packet')) <= 1")
    c.let('held', st['held'])
    c.ensure('lock-not-kept', 'held is False')


# ---------------------------------------------------------------------------------------------------------------------
# round 5: close_link in every state, the real blocking SyncCrazyflie calls under an explicit schedule
# ---------------------------------------------------------------------------------------------------------------------

@contract('C02', 'close_link.exactly-one-disconnected-in-every-state', LIFE_F,
          clause='every close_link call produces exactly one disconnected: also when the object never connected, when the attempt has already '
                 'failed (no driver, link error before the first packet), when the connection has already been lost, and for a second '
                 'close_link in a row; nothing else is signalled and the same object connects again afterwards',
          bounded='earlier interruption after k = 0..9 exchanged packets; device with 1 parameter')
def close_in_every_state(c):
    w = World(c, 1)
    before_close = c.choice('history', ['fresh', 'no-driver', 'error', 'close'])
    if before_close == 'fresh':
        c.call((w.cf, 'is_connected'))
        c.ensure('a-new-object-is-not-connected', 'result is False and cf.state == 0')
    elif before_close == 'no-driver':
        w.driver_mode = 'none'
        c.call((w.cf, 'open_link'), 'bogus://1')
        w.driver_mode = 'link'
    elif before_close in ('error', 'close'):
        kk = c.choice('k', list(range(10)))
        c.call((w.cf, 'open_link'), URI)
        w.run_until_quiet(stop_after=kk)
        if before_close == 'error':
            c.call((w.cf, '_link_error_cb'), 'radio unplugged')
        else:
            c.call((w.cf, 'close_link'))
        c.require('raised is None')
    for i in range(2):
        n_ev = len(w.events())
        c.call((w.cf, 'close_link'))
        c.ensure('close-%d-returns' % i, 'raised is None')
        c.let('after', w.events()[n_ev:])
        c.ensure('close-%d-gives-exactly-one-disconnected' % i, "after == ('disconnected',)")
        c.ensure('close-%d-disconnected-state' % i, 'cf.link is None and cf.state == 0 and not cf.is_connected()')
    c.reset_trace()
    c.call((w.cf, 'open_link'), URI)
    w.run_until_quiet()
    c.let('again', w.events())
    c.ensure('reconnect-complete-and-ordered', 'again == %r' % (FULL,))


class SyncWorld(World):
    """World + a real SyncCrazyflie whose blocking waits are explicit schedule points.

    `threading.Event` as imported by cflib.crazyflie.syncCrazyflie is replaced by a stub with the semantics of an event
    (set / clear / is_set) whose wait() is the schedule: while the calling (user) thread is blocked, the other threads
    run - the device answers, the dispatcher thread delivers, the parameter thread sends - one exchanged packet at a
    time, until the event is set.  `fault` = (k, action): after the k-th packet exchanged during waits the driver
    thread / the application does `action` instead.  A wait that nobody can end any more (nothing left to exchange and
    the event still clear) is the pseudo exception Deadlock: the blocking call hangs."""

    def __init__(self, c, n_params=1):
        World.__init__(self, c, n_params)
        self.flags = []
        self.fault = None
        self.before_event = None
        self.wait_exchanged = 0
        self.waits = 0

        def make_event(_i, _a, _k):
            cell = {'flag': False}
            self.flags.append(cell)
            if self.before_event is not None:
                # another thread runs between the statement before `Event()` and the creation of the event
                action = self.before_event
                self.before_event = None
                action()

            def wait(_i, args, kwargs):
                self.waits += 1
                while not cell['flag']:
                    if self.fault is not None and self.wait_exchanged >= self.fault[0]:
                        action = self.fault[1]
                        self.fault = None
                        action()
                        continue
                    if not self.step():
                        break
                    self.wait_exchanged += 1
                # the nested runs of the other threads' code must not show up as the outcome of the blocking call itself
                c.let('raised', None), c.let('exc', None), c.let('result', None)
                if not cell['flag']:
                    return c.raiser('Deadlock', 'wait on an event that no thread will ever set')()
                return True

            def set_(*_a):
                cell['flag'] = True
                return None

            def clear(*_a):
                cell['flag'] = False
                return None
            return c.ext('event%d' % (len(self.flags) - 1), returns={'wait': wait, 'set': set_, 'clear': clear, 'is_set': lambda *_a: cell['flag']})
        c.patch(SCF + ':Event', c.ext('Event', returns={'()': make_event}))
        self.scf = c.new(SCF + ':SyncCrazyflie', URI, self.cf)
        c.let('scf', self.scf)
        c.reset_trace()

    def n_callbacks(self):
        return self.c.concretize('len(cf.connected.callbacks) + len(cf.disconnected.callbacks) + len(cf.connection_failed.callbacks) + len(cf.fully_connected.callbacks)')


SYNC_F = [SCF + ':SyncCrazyflie.__enter__', SCF + ':SyncCrazyflie.__exit__', SCF + ':SyncCrazyflie.open_link', SCF + ':SyncCrazyflie.close_link', SCF + ':SyncCrazyflie.wait_for_params', SCF + ':SyncCrazyflie.is_params_updated',
          SCF + ':SyncCrazyflie.is_link_open', SCF + ':SyncCrazyflie._connected', SCF + ':SyncCrazyflie._connection_failed', SCF + ':SyncCrazyflie._disconnected',
          SCF + ':SyncCrazyflie._all_params_updated', SCF + ':SyncCrazyflie._add_callbacks', SCF + ':SyncCrazyflie._remove_callbacks']


@contract('C02', 'sync.sessions-on-one-object', SYNC_F + LIFE_F,
          clause='a blocking SyncCrazyflie open or close call returns; connected is signalled (open_link returns) only once the tables are complete, '
                 'fully_connected (wait_for_params returns, is_params_updated) only once every parameter of THIS attempt has a value; after a close or '
                 'a lost link the same object connects again and nothing of the previous attempt - not its parameters-updated flag either - is '
                 'visible in the new one',
          bounded='one schedule per wait: the user thread is blocked until the event is set, the other threads run meanwhile; first session ended by '
                  'link error / SyncCrazyflie.close_link / Crazyflie.close_link, before or after the parameter values arrived; device with 1 or 2 parameters')
def sync_sessions(c):
    n = c.choice('n_params', [1, 2])
    w = SyncWorld(c, n)
    end = c.choice('end_of_first_session', ['error', 'sync-close', 'cf-close'])
    params_first = c.choice('values_arrived_in_first_session', [True, False])
    as_context_manager = c.choice('with_statement', [False, True])
    n_cb = w.n_callbacks()
    for session in (0, 1):
        c.reset_trace()
        if as_context_manager:
            c.call((w.scf, '__enter__'))
            c.ensure('s%d-enter-gives-the-object' % session, 'is_same(result, scf)')
        else:
            c.call((w.scf, 'open_link'))
        c.ensure('s%d-open-returns' % session, 'raised is None and scf.is_link_open()')
        c.let('ev', w.events())
        c.ensure('s%d-open-returns-once-connected-and-not-later' % session, "ev == ('connection_requested', 'link_established', 'connected')")
        c.ensure('s%d-tables-complete' % session, "cf.log.toc is not None and len(cf.param.toc.toc.get('grp', {})) == %d" % n)
        c.ensure('s%d-no-value-of-this-session-yet-hence-not-updated' % session, "not scf.is_params_updated() and len(cf.param.values.get('grp', {})) == 0")
        if session == 1 or params_first:
            c.call((w.scf, 'wait_for_params'))
            c.ensure('s%d-wait-for-params-returns' % session, 'raised is None and scf.is_params_updated()')
            c.let('ev', w.events())
            c.ensure('s%d-returns-once-fully-connected' % session, "ev == %r" % (FULL,))
            c.ensure('s%d-every-parameter-has-a-value' % session, "len(cf.param.values.get('grp', {})) == %d" % n)
        if session == 0:
            n_ev = len(w.events())
            if end == 'error':
                c.call((w.cf, '_link_error_cb'), 'too many packets lost')
                c.let('after', w.events()[n_ev:])
                c.ensure('lost-after-first-packet', "after == ('disconnected', 'connection_lost')")
            elif end == 'sync-close':
                if as_context_manager:
                    c.call((w.scf, '__exit__'), None, None, None)
                else:
                    c.call((w.scf, 'close_link'))
                c.let('after', w.events()[n_ev:])
                c.ensure('exactly-one-disconnected', "after == ('disconnected',)")
            else:
                c.call((w.cf, 'close_link'))
                c.let('after', w.events()[n_ev:])
                c.ensure('exactly-one-disconnected', "after == ('disconnected',)")
            c.ensure('end-handled', 'raised is None and not scf.is_link_open() and cf.link is None and cf.state == 0')
            c.let('n_cb_now', w.n_callbacks())
            c.ensure('callbacks-removed-again', 'n_cb_now == %d' % n_cb)
    if as_context_manager:
        c.call((w.scf, '__exit__'), None, None, None)
    else:
        c.call((w.scf, 'close_link'))
    c.let('ev', w.events())
    c.ensure('final-close-returns', "raised is None and not scf.is_link_open() and not scf.is_params_updated() and ev[len(%r):] == ('disconnected',)" % (FULL,))
    c.let('n_cb_now', w.n_callbacks())
    c.ensure('callbacks-removed-at-the-end', 'n_cb_now == %d' % n_cb)


def _sync_fault(action, ks, suffix='', thorough_only=False):
    @contract('C02', 'sync.open-under-%s%s' % (action, suffix), SYNC_F + LIFE_F, thorough_only=thorough_only,
              clause='whenever the link driver reports an error or the application closes the link, at any point of the sequence, a blocking '
                     'SyncCrazyflie open call returns or raises (it raises when the attempt did not get as far as connected), the callbacks it '
                     'registered are removed again and the same object can connect again',
              bounded='the fault happens on another thread while the user thread is blocked in open_link, after k in %r packets were exchanged; '
                      'device with 1 parameter' % (ks,))
    def k(c):
        w = SyncWorld(c, 1)
        kk = c.choice('k', list(ks))
        n_cb = w.n_callbacks()
        if action == 'link-error':
            w.fault = (kk, lambda: c.invoke((w.cf, '_link_error_cb'), 'radio unplugged'))
        else:
            w.fault = (kk, lambda: c.invoke((w.cf, 'close_link')))
        c.call((w.scf, 'open_link'))
        c.let('fired', w.fault is None)
        w.fault = None
        c.let('ev', w.events())
        c.ensure('fault-happened-during-open', 'fired', cls='A')
        c.ensure('open-returns-or-raises', "raised is None or raised == 'Exception'")
        c.ensure('returns-iff-connected-was-signalled', "implies(raised is None, 'connected' in ev) and implies(raised == 'Exception', 'connected' not in ev)")
        c.ensure('not-open-after-the-fault', "not scf.is_link_open() and cf.link is None and cf.state == 0")
        # whatever happened, the application can close and the object connects again
        c.call((w.scf, 'close_link'))
        c.ensure('close-returns', 'raised is None and not scf.is_link_open()')
        c.let('n_cb_now', w.n_callbacks())
        c.ensure('callbacks-removed-again', 'n_cb_now == %d' % n_cb)
        c.reset_trace()
        c.call((w.scf, 'open_link'))
        c.ensure('second-open-returns', 'raised is None and scf.is_link_open()')
        c.call((w.scf, 'wait_for_params'))
        c.let('again', w.events())
        c.ensure('reconnect-complete-and-ordered', 'raised is None and again == %r and scf.is_params_updated()' % (FULL,))
    return k


# A link error before the first packet ends the attempt with connection_failed: open_link raises.  The points after the first packet and
# before `connected` (and every application close_link during a blocking open) are a FINDING on the unchanged tree: nobody sets the
# event open_link waits for, the call never returns.  Those contracts are kept (thorough tier) so that `./vcheck C02` stays green.
_sync_fault('link-error', (0,))
_sync_fault('link-error', (1, 2, 3, 4, 5, 6), suffix='.after-first-packet', thorough_only=True)
_sync_fault('close-link', (0, 1, 2, 3, 4, 5, 6), thorough_only=True)


SEND_F = LIFE_F + [CF + ':Crazyflie.send_packet', LS + ':LinkStatistics.start', LS + ':LinkStatistics.stop', LS + ':Latency.start', LS + ':Latency.stop',
                   LS + ':Latency._ping_thread', PRM + ':_ParamUpdater.run', PRM + ':_ParamUpdater.close', PRM + ':Param._disconnected']


@contract('C02', 'link-error.from-the-sending-thread', SEND_F,
          clause='a link error reported from the sending thread (the driver cannot transmit and calls the error callback from inside send_packet, '
                 'i.e. from open_link, from a dispatcher callback that sends the next request, or from the parameter thread) gives the same '
                 'notifications as one reported from the driver thread: connection_failed before the first packet, afterwards exactly one '
                 'disconnected and then one connection_lost; no thread dies, no lock stays taken, the latency-ping thread has ended when the '
                 'disconnect returns, and the same object connects again',
          bounded='the n-th transmission of the attempt fails, n = 0..8 (8 = the zero set-point of close_link); device with 1 parameter; the '
                  'latency-ping thread is asleep between two pings when it is joined')
def link_error_from_sender(c):
    w = World(c, 1)
    c.set(w.cf, '_send_lock', c.lock('send_lock'))
    n = c.choice('n', list(range(9)))
    w.send_fault = (n, lambda: c.invoke((w.cf, '_link_error_cb'), 'RadioDriver: Could not send packet to copter'))
    c.call((w.cf, 'open_link'), URI)
    c.ensure('open-returns', 'raised is None')
    w.run_until_quiet()
    if w.send_fault is not None:
        # every request went out: the application closes the link and the zero set-point cannot be transmitted
        c.let('before', w.events())
        c.ensure('complete-before-close', 'before == %r' % (FULL,))
        c.call((w.cf, 'close_link'))
        c.ensure('close-returns', 'raised is None')
        c.let('after', w.events()[len(FULL):])
        c.ensure('lost-then-the-disconnected-of-close', "after == ('disconnected', 'connection_lost', 'disconnected')")
    else:
        ev = w.events()
        c.let('ev', ev)
        cut = ev.index('connection_failed') if 'connection_failed' in ev else (ev.index('disconnected') if 'disconnected' in ev else len(ev))
        c.let('before', ev[:cut])
        c.let('after', ev[cut:])
        c.ensure('prefix-of-the-sequence', 'before == %r[:len(before)]' % (FULL,))
        if n == 0:
            c.ensure('failed-before-first-packet', "after == ('connection_failed',)")
        else:
            c.ensure('lost-after-first-packet', "after == ('disconnected', 'connection_lost')")
    c.let('fired', w.send_fault is None)
    c.ensure('the-transmission-failed', 'fired', cls='A')
    c.ensure('disconnected-state', 'cf.link is None and cf.state == 0 and not cf.is_connected() and len(cf._answer_patterns) == 0')
    c.ensure('no-lock-left-behind', 'not cf._send_lock.locked() and not wait_lock.locked()')
    c.let('pings_alive', w.pings_alive())
    c.ensure('ping-thread-ended', 'pings_alive == 0')
    c.ensure('link-closed-exactly-once', "len(sent('link0.close')) == 1")
    c.reset_trace()
    c.call((w.cf, 'open_link'), URI)
    w.run_until_quiet()
    c.let('again', w.events())
    c.ensure('reconnect-complete-and-ordered', 'again == %r' % (FULL,))
    c.let('pings_alive', w.pings_alive())
    c.ensure('one-ping-thread-in-the-new-session', 'pings_alive == 1')
    # ... and it is not dead on arrival: run from the head of its loop it goes on pinging (the model stops it after three rounds)
    c.reset_trace()
    c.call([t for t in w.pings if t['state'] == 'alive'][0]['target'])
    c.ensure('ping-thread-of-the-new-session-keeps-running', "raised == 'Deadlock' and len(sent('link1.send_packet')) >= 3")


@contract('C02', 'link-error.from-the-sending-thread-while-ping-waits', SEND_F + [LS + ':Latency.ping'], thorough_only=True,
          clause='whenever the link driver reports an error, under any thread interleaving, the library reaches the disconnected state without any '
                 'thread deadlocking: the driver reports that it cannot transmit from inside send_packet (the sending thread holds the send lock) '
                 'while the latency-ping thread is waiting for that lock in ping(); the disconnect joins the ping thread',
          bounded='one schedule, after fully_connected: an application thread sends a set-point, the driver reports the failure from that call, the '
                  'latency-ping thread is blocked in Crazyflie.send_packet at that moment; device with 1 parameter')
def link_error_from_sender_ping_waits(c):
    w = World(c, 1)
    c.set(w.cf, '_send_lock', c.lock('send_lock'))
    c.call((w.cf, 'open_link'), URI)
    w.run_until_quiet()
    c.let('before', w.events())
    c.require('before == %r' % (FULL,))
    c.let('pings_alive', w.pings_alive())
    c.ensure('one-ping-thread-while-connected', 'pings_alive == 1', cls='A')
    w.ping_blocked_in_send = True
    w.send_fault = (w.n_sent, lambda: c.invoke((w.cf, '_link_error_cb'), 'RadioDriver: Could not send packet to copter'))
    c.call((c.getfield(w.cf, 'commander'), 'send_setpoint'), 0, 0, 0, 0)
    c.ensure('sending-call-returns-no-deadlock', 'raised is None')
    c.let('after', w.events()[len(FULL):])
    c.ensure('lost-after-first-packet', "after == ('disconnected', 'connection_lost')")
    c.ensure('disconnected-state', 'cf.link is None and cf.state == 0 and not cf.is_connected()')
    c.ensure('no-lock-left-behind', 'not cf._send_lock.locked()')


def _sync_close_fault(when, thorough_only=False):
    @contract('C02', 'sync.close-while-the-link-fails.%s' % when, SYNC_F + LIFE_F + [CF + ':Crazyflie.send_packet'], thorough_only=thorough_only,
              clause='a blocking SyncCrazyflie close call returns or raises, also when the link driver reports an error while the call is under way '
                     '(under any thread interleaving), and the same object can connect again',
              bounded='one schedule after fully_connected: ' + {
                  'before-the-event-exists': 'the driver thread reports the error after close_link has seen the link open and before it has created '
                                             'the event it waits on',
                  'from-the-set-point-transmission': 'the driver reports from inside the transmission of the zero set-point of Crazyflie.close_link '
                                                     '(sending thread) that it cannot send'}[when])
    def k(c):
        w = SyncWorld(c, 1)
        c.set(w.cf, '_send_lock', c.lock('send_lock'))
        c.call((w.scf, 'open_link'))
        c.call((w.scf, 'wait_for_params'))
        c.let('before', w.events())
        c.require('raised is None and before == %r' % (FULL,))
        n_cb = w.n_callbacks()
        if when == 'before-the-event-exists':
            w.before_event = lambda: c.invoke((w.cf, '_link_error_cb'), 'too many packets lost')
        else:
            w.send_fault = (w.n_sent, lambda: c.invoke((w.cf, '_link_error_cb'), 'RadioDriver: Could not send packet to copter'))
        c.call((w.scf, 'close_link'))
        c.let('fired', w.before_event is None and w.send_fault is None)
        c.ensure('error-happened-during-close', 'fired', cls='A')
        c.ensure('close-returns-or-raises', "raised != 'Deadlock'")
        c.ensure('closed', 'not scf.is_link_open() and cf.link is None and cf.state == 0')
        c.let('after', w.events()[len(FULL):])
        c.ensure('lost-once-and-one-disconnected-for-the-close', "after == ('disconnected', 'connection_lost', 'disconnected')")
        c.ensure('no-lock-left-behind', 'not cf._send_lock.locked()')
        c.let('n_cb_now', w.n_callbacks())
        c.ensure('callbacks-removed-again', 'n_cb_now == %d' % (n_cb - 4))
        c.reset_trace()
        c.call((w.scf, 'open_link'))
        c.call((w.scf, 'wait_for_params'))
        c.let('again', w.events())
        c.ensure('reconnect-complete-and-ordered', 'raised is None and again == %r and scf.is_params_updated()' % (FULL,))
    return k


_sync_close_fault('from-the-set-point-transmission')
# FINDING on the unchanged tree (kept, thorough tier): the error handling removes SyncCrazyflie's callbacks before the event exists, the
# disconnected of Crazyflie.close_link reaches nobody, close_link waits for ever
_sync_close_fault('before-the-event-exists', thorough_only=True)


@contract('C02', 'link-error.reported-by-two-threads-at-once', LIFE_F, thorough_only=True,
          clause='a link failure after the first packet produces exactly one disconnected and then one connection_lost, under any thread '
                 'interleaving: the driver thread and a sending thread both report the failure of the same link, the second report arrives while '
                 'the first one is being delivered to the callbacks',
          bounded='one schedule: the second report is handled by another thread while the first is inside the application\'s disconnected callback; '
                  'after k = 1..9 exchanged packets; device with 1 parameter')
def link_error_twice_concurrently(c):
    w = World(c, 1)
    kk = c.choice('k', list(range(1, 10)))
    fired = []

    def second_report(*_a):
        if not fired:
            fired.append(1)
            c.invoke((w.cf, '_link_error_cb'), 'RadioDriver: Could not send packet to copter')
        return None
    c.invoke((c.getfield(w.cf, 'disconnected'), 'add_callback'), c.ext('other_thread_reports', returns={'()': second_report}))
    c.call((w.cf, 'open_link'), URI)
    w.run_until_quiet(stop_after=kk)
    n_ev = len(w.events())
    c.call((w.cf, '_link_error_cb'), 'Too many packets lost')
    c.ensure('handled-without-exception', 'raised is None')
    c.let('after', w.events()[n_ev:])
    c.ensure('exactly-one-disconnected-then-one-connection-lost', "after == ('disconnected', 'connection_lost')")
    c.ensure('disconnected-state', 'cf.link is None and cf.state == 0 and not cf.is_connected()')


MID_POINTS = {'setup-requested': 'We are connected', 'log-toc-done': 'Log TOC finished', 'memories-done': 'Memories finished',
              'param-toc-done': 'Param TOC finished', 'all-parameters-updated': 'All parameters updated'}


def _mid_callback(action, points, suffix='', thorough_only=False):
    @contract('C02', 'mid-callback.%s%s' % (action, suffix), LIFE_F, thorough_only=thorough_only,
              clause='no link_established, connected or fully_connected of an attempt is delivered after that attempt\'s first disconnected, under '
                     'any thread interleaving: the driver thread reports an error / the application thread closes the link while the dispatcher '
                     'thread is in the middle of the callback that is about to signal the next stage; the notifications are those of a link '
                     'failure / a close, the library ends up disconnected and the same object connects again',
              bounded='one schedule per point: the other thread runs to completion at the log statement that opens the library callback (points %s); '
                      'device with 1 parameter' % (', '.join(points),))
    def k(c):
        w = World(c, 1)
        point = c.choice('point', list(points))
        text = MID_POINTS[point]
        fired = []

        def log(_i, args, _k):
            if not fired and args and isinstance(args[0], str) and args[0].startswith(text):
                fired.append(1)
                if action == 'link-error':
                    c.invoke((w.cf, '_link_error_cb'), 'too many packets lost')
                else:
                    c.invoke((w.cf, 'close_link'))
            return None
        c.patch(CF + ':logger', c.ext('cf_logger', returns={'info': log}))
        c.call((w.cf, 'open_link'), URI)
        c.ensure('open-returns', 'raised is None')
        w.run_until_quiet()
        c.let('fired', bool(fired))
        c.ensure('the-other-thread-ran', 'fired', cls='A')
        ev = w.events()
        c.let('ev', ev)
        cut = ev.index('connection_failed') if 'connection_failed' in ev else (ev.index('disconnected') if 'disconnected' in ev else len(ev))
        c.let('before', ev[:cut])
        c.let('after', ev[cut:])
        c.ensure('prefix-of-the-sequence', 'before == %r[:len(before)]' % (FULL,))
        if action == 'close-link':
            c.ensure('exactly-one-disconnected-and-nothing-of-the-attempt-afterwards', "after == ('disconnected',)")
        elif point == 'setup-requested':
            c.ensure('failed-before-first-packet', "after == ('connection_failed',)")
        else:
            c.ensure('lost-and-nothing-of-the-attempt-afterwards', "after == ('disconnected', 'connection_lost')")
        c.ensure('disconnected-state', 'cf.link is None and cf.state == 0 and not cf.is_connected()')
        c.let('pings_alive', w.pings_alive())
        c.ensure('no-ping-thread-left-running', 'pings_alive == 0')
        c.reset_trace()
        c.call((w.cf, 'open_link'), URI)
        w.run_until_quiet()
        c.let('again', w.events())
        c.ensure('reconnect-complete-and-ordered', 'again == %r' % (FULL,))
    return k


for _a in ('link-error', 'close-link'):
    _mid_callback(_a, ['setup-requested', 'log-toc-done'])
    # FINDING on the unchanged tree (kept, thorough tier): nothing orders the dispatcher thread's "stage complete -> signal the next stage"
    # against a disconnect on another thread.  memories-done: the parameter TOC fetcher is started after the disconnect, stays registered
    # and `connected` is delivered twice in the next attempt; param-toc-done / all-parameters-updated: connected / fully_connected are
    # delivered after the attempt's disconnected, is_connected() stays True and the latency-ping thread is started on a dead link.
    _mid_callback(_a, ['memories-done', 'param-toc-done', 'all-parameters-updated'], suffix='.next-stage-race', thorough_only=True)


def _reconnect_from_any_callback(new_attempt, thorough_only=False):
    @contract('C02', 'reconnect-from-any-callback.new-attempt-%s' % new_attempt, LIFE_F, thorough_only=thorough_only,
            clause='the same Crazyflie object can connect again, for all connect/disconnect histories: an application that re-opens the link from '
                   'inside the notification that ends an attempt (disconnected, connection_lost or connection_failed, after a link error or a '
                   'close_link) gets a new attempt with a complete, well-ordered sequence, and the handling of the old attempt does not disturb it',
            bounded='interruption after k = 0..9 exchanged packets; device with 1 parameter; ' + {
                'completes': 'the new attempt is also interrupted once it is complete (link error) to see that its state is that of a connected object',
                'fails-before-its-first-packet': 'the link of the new attempt fails before any packet arrives: that is a connection_failed'}[new_attempt])
    def reconnect_from_any_callback(c):
        w = World(c, 1)
        how = c.choice('how', ['error', 'close'])
        cb = c.choice('reopened_from', ['disconnected', 'connection_lost', 'connection_failed'])
        kk = c.choice('k', list(range(10)))
        c.call((w.cf, 'open_link'), URI)
        done = w.run_until_quiet(stop_after=kk)
        occurs = ('disconnected',) if how == 'close' else (('connection_failed',) if done == 0 else ('disconnected', 'connection_lost'))
        if cb not in occurs:
            return          # this notification does not occur in this history
        fired = []

        def reopen(*_a):
            if not fired:
                fired.append(1)
                c.invoke((w.cf, 'open_link'), URI)
            return None
        c.invoke((c.getfield(w.cf, cb), 'add_callback'), c.ext('app_reconnect', returns={'()': reopen}))
        c.reset_trace()
        if how == 'error':
            c.call((w.cf, '_link_error_cb'), 'lost')
        else:
            c.call((w.cf, 'close_link'))
        c.ensure('handled-without-exception', 'raised is None')
        c.let('fired', bool(fired))
        c.ensure('application-reopened', 'fired', cls='A')
        c.let('nlinks', len(w.links))
        c.ensure('one-new-link-opened-and-kept', 'nlinks == 2 and cf.link is not None')
        c.ensure('old-link-closed-new-link-not', "len(sent('link0.close')) == 1 and len(sent('link1.close')) == 0")
        if new_attempt != 'completes':
            c.reset_trace()
            c.call((w.cf, '_link_error_cb'), 'dongle gone')
            c.let('events', w.events())
            c.ensure('new-attempt-fails-like-an-attempt', "events == ('connection_failed',)")
            c.ensure('disconnected-state', 'cf.link is None and cf.state == 0')
            return
        w.run_until_quiet()
        c.let('events', w.events())
        c.ensure('new-attempt-completes', "events[-3:] == ('link_established', 'connected', 'fully_connected') and events.count('connected') == 1 and events.count('fully_connected') == 1")
        # the new session is a connected one: losing it is a connection_lost, not a connection_failed or an unnoticed error
        c.reset_trace()
        c.call((w.cf, '_link_error_cb'), 'lost again')
        c.let('events', w.events())
        c.ensure('new-session-is-lost-like-a-connected-one', "events == ('disconnected', 'connection_lost')")
    return reconnect_from_any_callback


_reconnect_from_any_callback('completes')
# FINDING on the unchanged tree (kept, thorough tier): _link_error_cb / close_link set the state to DISCONNECTED after the callbacks have
# run, which overwrites the INITIALIZED of an open_link made from inside one of them; a failure of that new link before its first packet
# is then reported as disconnected_link_error, never as connection_failed
_reconnect_from_any_callback('fails-before-its-first-packet', thorough_only=True)


@contract('C02', 'dispatcher-thread.parameter-access-is-refused-not-blocked', [CF + ':Crazyflie.is_called_by_incoming_handler_thread', PRM + ':Param.get_value', PRM + ':Param.set_value'],
          clause='no thread deadlocks: an application callback running on the dispatcher thread (connected is delivered there) that reads or sets a '
                 'parameter before the values have arrived is refused at once - waiting there would block the only thread that can deliver the '
                 'values - whereas the same call from another thread waits (bounded by its time-out), and after fully_connected it is served',
          bounded='device with 1 parameter; the wait of another thread is a time-out (the values never arrive while it waits)')
def dispatcher_param_access(c):
    w = World(c, 1)
    param = c.getfield(w.cf, 'param')
    op = c.choice('op', ['get_value', 'set_value'])
    args = ('grp.p0',) if op == 'get_value' else ('grp.p0', 1)
    c.patch(CF + ':current_thread', c.ext('current_thread', returns={'()': lambda *_a: c.getfield(w.cf, 'incoming') if w.in_dispatch else 'MainThread'}))
    st = {'flag': False, 'waits': 0, 'outcome': []}

    def wait(_i, a, k):
        st['waits'] += 1
        return st['flag']

    def set_(*_a):
        st['flag'] = True
        return None

    def clear(*_a):
        st['flag'] = False
        return None
    c.set(param, '_initialized', c.ext('initialized', returns={'wait': wait, 'set': set_, 'clear': clear, 'is_set': lambda *_a: st['flag']}))

    def in_connected_callback(*_a):
        st['outcome'].append(c.invoke_catch((param, op), *args))
        st['outcome'].append(st['waits'])
        return None
    c.invoke((c.getfield(w.cf, 'connected'), 'add_callback'), c.ext('app_connected', returns={'()': in_connected_callback}))
    c.call((w.cf, 'open_link'), URI)
    w.run_until_quiet(stop_after=7)
    c.let('outcome', tuple(st['outcome']))
    c.ensure('refused-at-once-on-the-dispatcher-thread', "outcome == ('Exception', 0)")
    # the same call from an application thread, values still outstanding: it waits (and here times out)
    c.call((param, op), *args)
    c.let('waits', st['waits'])
    c.ensure('another-thread-waits-for-the-values', "raised == 'Exception' and waits == 1")
    w.run_until_quiet()
    c.let('events', w.events())
    c.ensure('sequence-completes', 'events == %r' % (FULL,))
    c.call((w.cf, 'is_called_by_incoming_handler_thread'))
    c.ensure('application-thread-is-not-the-dispatcher', 'result is False')
    c.call((param, op), *args)
    c.let('waits', st['waits'])
    c.ensure('served-once-fully-connected', "raised is None and waits == 1")


MEM = 'cflib.crazyflie.mem'


def _mem_op_send_fault(op, thorough_only=False):
    @contract('C02', 'link-error.from-the-sending-thread-during-memory-%s' % op,
              SEND_F + [MEM + ':Memory.%s' % op, MEM + ':Memory._disconnected', MEM + ':Memory._call_all_failed_callbacks'], thorough_only=thorough_only,
              clause='whenever the link driver reports an error - here from the sending thread, inside the transmission of a memory %s request - the '
                     'library reaches the disconnected state without any thread deadlocking: the request fails (its failure callback), the '
                     'notifications are those of a lost link, no lock stays taken and the same object connects again' % op,
              bounded='after fully_connected; device with 1 parameter and 2 memories; one %s request of 4 bytes on the first memory' % op)
    def k(c):
        w = World(c, 1, n_mems=2)
        c.set(w.cf, '_send_lock', c.lock('send_lock'))
        mem = c.getfield(w.cf, 'mem')
        c.set(mem, '_write_requests_lock', c.lock('write_requests_lock'))
        c.call((w.cf, 'open_link'), URI)
        w.run_until_quiet()
        c.let('before', w.events())
        c.require('before == %r' % (FULL,))
        c.let('mem0', c.invoke((mem, 'get_mem'), 0))
        c.ensure('memory-known', 'mem0 is not None and mem0.id == 0', cls='A')
        failed = c.ext('app_failed')
        c.invoke((c.getfield(mem, 'mem_%s_failed_cb' % op), 'add_callback'), failed)
        w.send_fault = (w.n_sent, lambda: c.invoke((w.cf, '_link_error_cb'), 'RadioDriver: Could not send packet to copter'))
        c.reset_trace()
        if op == 'write':
            c.call((mem, 'write'), c.get('mem0'), 0, [1, 2, 3, 4])
        else:
            c.call((mem, 'read'), c.get('mem0'), 0, 4)
        c.let('fired', w.send_fault is None)
        c.ensure('the-transmission-failed', 'fired', cls='A')
        c.ensure('call-returns-no-deadlock', 'raised is None')
        c.let('after', w.events())
        c.ensure('lost-after-first-packet', "after == ('disconnected', 'connection_lost')")
        c.ensure('request-reported-as-failed', "len(sent('app_failed')) == 1")
        c.ensure('disconnected-state', 'cf.link is None and cf.state == 0 and not cf.is_connected()')
        c.ensure('no-lock-left-behind', 'not cf._send_lock.locked() and not write_requests_lock.locked()')
        c.reset_trace()
        c.call((w.cf, 'open_link'), URI)
        w.run_until_quiet()
        c.let('again', w.events())
        c.ensure('reconnect-complete-and-ordered', 'again == %r' % (FULL,))
    return k


_mem_op_send_fault('read')
_mem_op_send_fault('write', thorough_only=True)
