"""C12 - flashing writes exactly the image, nowhere else.

Functions under contract: Bootloader._internal_flash, Cloader.upload_buffer, Cloader.write_flash (real code, real constructors of
Bootloader, Cloader, boottypes.Target, CRTPPacket).  The radio link is the only external object; its send_packet records what is
on the wire AT SEND TIME (header byte + copy of the data), its receive_packet answers from a script.

The peer is specified here, independently of the library (bootloader protocol of the Crazyflie 2.x targets, little endian):
  load-buffer  [addr, 0x14, bufpage:u16, offset:u16, payload ...]      BUF[bufpage][offset + j] = payload[j]
  write-flash  [addr, 0x18, bufpage:u16, flashpage:u16, count:u16]     FLASH[flashpage + j] = BUF[bufpage + j] for j < count,
               answered by [addr, 0x18, done, error] on port/channel 0xFF; done == 1 means programmed
  a radio frame carries one header byte and at most 31 data bytes.
This table is an assumption about the firmware (not in the sandbox) and is part of the trusted base.

Clauses of DESIGN.md section C12 and where they are decided
  O1 refusal of an image that does not fit, nothing sent ......... internal_flash.modular.*, flash.e2e.* (also with override page)
  O2 upload_buffer frames: header, <= 31 bytes, contiguous exact cover, right offsets ... upload_buffer.len* (lengths 0..83, i.e.
     up to four frames; enumerated instead of the loop invariant: the loop is a `for`, which the engine only unrolls) and
     flash.e2e.* for whole pages incl. 1024-byte pages (41 frames)
  O3 _internal_flash page bookkeeping: every programmed page inside [first, first + pages) and below flash_pages, holds exactly its
     image page, every image page programmed, final partial flush ........ internal_flash.modular.* (against the contracts of
     upload_buffer / write_flash, geometry symbolic except page size) and flash.e2e.* (real Cloader, ghost target replaying the wire)
  O4 write_flash: at most 6 transmissions of the same command, False/-1 when unanswered, done only on a positive reply of the
     addressed target to the last transmission, stale downlink packets drained first ......... write_flash.*;
     a False result aborts _internal_flash before anything else is sent ......... internal_flash.modular.*, flash.e2e.failing_write
  UI callbacks (progress / terminate) change nothing that is sent ............ internal_flash.callbacks

Bounds (all stated in the `bounded=` option of the contracts; inside a bound every path is explored and every value left symbolic is
unrestricted): loops over the image are unrolled, so image lengths and page sizes are enumerated (modular: lengths 1..12 with every
page size 0..length+1, 1024, 65535; end to end: page sizes 1, 2, 3 with 1..3 buffer pages and every length up to two buffer sets plus
one page plus one byte; 25, 26, 60 (multi-frame pages); 1024-byte pages with one buffer; 10 buffers with 128-byte pages).  Buffer
pages, flash pages, start page, override page, target address and image content are symbolic.  write_flash replies: lost or 4 data
bytes in every pattern over the 6 attempts, other lengths in write_flash.reply_lengths.

Not covered, and why
  * image of length 0: ZeroDivisionError in the progress factor before anything is sent (the property starts at 1 byte);
  * page_size == 0 is covered (always refused); buffer_pages == 0 is excluded (a target without buffers cannot be flashed);
  * geometry values above 16 bit cannot come out of the info packet ('H' fields) and are excluded; upload_buffer is specified for
    offsets that stay inside a 16-bit page (address + len <= 65535), beyond that struct.error is raised after some frames went out;
  * Bootloader.flash / flash_full (zip handling, computation of the override page for the nRF51 soft device, warm boot, threads in
    the link driver) are outside this property's anchor functions; the link driver itself (radio, retries of the radio layer, real
    time-outs) is external: receive_packet's timeout argument is not interpreted;
  * image lengths / page counts beyond the enumerated ones (no loop invariant support for `for` loops and symbolic-length bytes);
    int((len - 1) / page_size) is evaluated in floating point by the library: exact for the enumerated sizes, not proved for lengths
    >= 2**53;
  * a truncated (2 or 3 byte) reply of the addressed target raises IndexError out of write_flash (stated as such in wf_post; the
    flashing aborts, nothing more is sent).

OBSERVATION (not an obligation; C12 only asks for bounded retries and an abort): a positive reply to the sixth and last
transmission is reported as failed (False, error_code -1) although the target programmed the pages; C12 only asks for a bounded retry
followed by an abort, so the property itself holds.
"""
from pyvc.api import contract

BL = 'cflib.bootloader'
CL = 'cflib.bootloader.cloader'
BT = 'cflib.bootloader.boottypes'
STK = 'cflib.crtp.crtpstack'


def mklink(c, replies):
    """External radio link.  `send_packet` records what is on the wire AT SEND TIME (header byte and a copy of the
    data bytes) in the ghost list `wire`; `receive_packet` answers from the scripted `replies` (running out of
    scripted replies is a contract error, never a pass)."""
    wire = []
    it = iter(replies)

    def send(I, args, kw):
        pk = args[0]
        if I is None:
            wire.append(('tx', pk.header, bytes(pk.data)))
        else:
            wire.append(('tx', I.getattr(pk, 'header'), I.call(I.models.builtin(I, 'bytes'), [I.getattr(pk, 'data')], {})))
        return None

    def recv(I, args, kw):
        r = next(it)
        wire.append(('rx', r, None))
        return r
    link = c.ext('link', returns={'send_packet': send, 'receive_packet': recv})
    return link, wire


def cloader(c, link):
    cl = c.new(CL + ':Cloader', None)
    c.let('cl', cl)
    c.let('link', link)
    c.snapshot('_', 'setattr(cl, "link", link)')
    return cl


def _upload(lens):
    @contract('C12', 'upload_buffer.len%d_%d' % (lens[0], lens[-1]), [CL + ':Cloader.upload_buffer'],
              clause='buffer-upload messages fit the 32-byte radio frame and cover every byte exactly once at the right offset',
              bounded='buffer lengths %d..%d enumerated' % (lens[0], lens[-1]))
    def k(c):
        n = c.choice('n', list(lens))
        link, wire = mklink(c, [])
        cl = cloader(c, link)
        c.int('tid', 0, 255), c.int('page', 0, 65535), c.int('address', 0, 65535)
        buff = c.bytes('buff', n)
        c.require('address + len(buff) <= 65535')
        c.reset_trace()
        c.call((cl, 'upload_buffer'), c.get('tid'), c.get('page'), c.get('address'), buff)
        c.ensure('no-exception', 'raised is None')
        c.ensure('only-sends', 'all(e[0] == "link.send_packet" for e in trace)')
        c.ensure('one-packet-per-send', 'len(trace) == %d' % len(wire))
        off = 0
        for i, w in enumerate(wire):
            c.let('hdr', w[1])
            c.let('d', w[2])
            ln = c.snapshot('ln', 'len(d)')
            c.ensure('frame%d-fits-radio-frame' % i, 'hdr == 0xFF and 6 <= len(d) <= 31')
            c.let('off', off)
            c.let('pl', max(ln - 6, 0))
            c.ensure('frame%d-layout' % i, "d[:6] == pack('<BBHH', tid, 0x14, page, address + off) and d[6:] == buff[off:off + pl]")
            if i < len(wire) - 1:
                c.ensure('frame%d-not-empty' % i, 'pl > 0')
            off += max(ln - 6, 0)
        c.let('off', off)
        c.ensure('every-byte-covered', 'off == len(buff)')
    return k


for _lo in (0, 21, 42, 63):
    _upload(range(_lo, _lo + 21))


# ------------------------------------------------------------------------- write_flash

WF_CLAUSE = ('a flash-write command that fails or goes unanswered is retried a bounded number of times (at most 6 transmissions '
             'of the same command) and is reported as failed; it is reported as done only on a positive reply of the addressed '
             'target to the last transmission')


PAD = [None] * 6     # replies (all lost) beyond the sixth, should the code retry more often than allowed


def reply_packet(c, name, n):
    """a received packet with arbitrary header byte and n arbitrary data bytes, built by the real constructor"""
    h = c.int(name + '_h', 0, 255)
    d = c.bytearray(name + '_d', n)
    return c.new(STK + ':CRTPPacket', h, d)


def wf_args(c):
    c.int('addr', 0, 255), c.int('pbuf', 0, 65535), c.int('tpage', 0, 65535), c.int('count', 0, 65535)
    return [c.get(x) for x in ('addr', 'pbuf', 'tpage', 'count')]


def wf_post(c, wire, replies_after_flush, nflush, strict_last=False):
    """post-conditions of write_flash; replies_after_flush[k] is what the link delivers after the k-th transmission"""
    txs = [w for w in wire if w[0] == 'tx']
    nsent = len(txs)
    c.let('nsent', nsent)
    c.ensure('only-link-calls', 'all(e[0] in ("link.send_packet", "link.receive_packet") for e in trace)')
    c.ensure('bounded-transmissions', '1 <= nsent <= 6')
    for i, w in enumerate(txs):
        c.let('hdr', w[1])
        c.let('d', w[2])
        c.ensure('tx%d-is-the-flash-write-command' % i, "hdr == 0xFF and d == pack('<BBHHH', addr, 0x18, pbuf, tpage, count)")
    # order on the wire: the downlink is drained first, then transmission and reception strictly alternate and
    # nothing is transmitted after the reply that ended the exchange
    c.let('kinds', tuple(w[0] for w in wire))
    c.let('expected_kinds', tuple(['rx'] * (nflush + 1) + ['tx', 'rx'] * nsent))
    c.ensure('drain-then-alternate', 'kinds == expected_kinds')
    last = replies_after_flush[nsent - 1] if 1 <= nsent <= len(replies_after_flush) else None
    c.let('last', last)
    if last is None:
        c.let('answered', False)
        c.let('positive', False)
    else:
        c.snapshot('answered', 'last.header == 0xFF and len(last.data) >= 2 and last.data[0] == addr and last.data[1] == 0x18')
        c.snapshot('positive', 'answered and len(last.data) >= 3 and last.data[2] == 1')
    c.ensure('gives-up-only-after-6-transmissions', 'implies(not answered, nsent == 6)')
    if c.get('raised') is None:
        c.ensure('result-is-bool', 'result is True or result is False')
        c.ensure('done-only-on-positive-reply-to-last-transmission', 'implies(result, positive)')
        c.ensure('unanswered-or-negative-is-reported-failed', 'implies(not positive, result is False)')
        c.ensure('unanswered-reports-error-minus-1', 'implies(not answered, cl.error_code == -1)')
        # completeness (the flash was programmed, so the caller should go on): stated for the first five transmissions;
        # the sixth is the contract write_flash.sixth_reply_honoured (FINDING, see module docstring)
        c.ensure('positive-reply-is-reported-done', 'implies(positive and nsent <= 5, result is True)')
        if last is not None:
            c.ensure('answered-reports-target-error-code', 'implies(answered and nsent <= 5, cl.error_code == last.data[3])')
        if strict_last:
            c.ensure('positive-reply-to-sixth-transmission-is-reported-done', 'implies(positive, result is True)')
    else:
        # a reply of the addressed target that is too short to carry the done / error bytes
        if last is None:
            c.ensure('raises-only-on-truncated-reply', 'False')
        else:
            c.ensure('raises-only-on-truncated-reply', "raised == 'IndexError' and answered and len(last.data) < 4")


REPLY_KINDS = {
    'L': None,                                                       # reply lost
    'X': 'True',                                                     # arbitrary packet
    'H': '{r}.header != 0xFF',                                       # packet of another port / channel
    'A': '{r}.header == 0xFF and not ({r}.data[0] == addr and {r}.data[1] == 0x18)',   # other target or other command
    'M': '{r}.header == 0xFF and {r}.data[0] == addr and {r}.data[1] == 0x18',          # reply to this command
}


def scripted_replies(c, kinds, n=4):
    out = []
    for i, kd in enumerate(kinds):
        if kd == 'L':
            out.append(None)
            continue
        r = reply_packet(c, 'r%d' % i, n)
        c.let('r%d' % i, r)
        c.require(REPLY_KINDS[kd].format(r='r%d' % i))
        out.append(r)
    return out


def _wf_patterns(k0, k1):
    @contract('C12', 'write_flash.patterns.%s%s' % (k0, k1), [CL + ':Cloader.write_flash'], clause=WF_CLAUSE,
              bounded='replies are lost or 4 bytes long (other lengths: write_flash.reply_lengths); downlink empty at start '
                      '(write_flash.drain); patterns: first two attempts %s,%s (L lost, H other header, A other target/command), '
                      'then every pattern of {lost, arbitrary packet} - the 9 contracts + write_flash.early are exhaustive' % (k0, k1))
    def k(c):
        args = wf_args(c)
        kinds = [k0, k1] + [c.choice('kind%d' % i, ['L', 'X']) for i in range(2, 6)]
        replies = scripted_replies(c, kinds)
        link, wire = mklink(c, [None] + replies + PAD)
        cl = cloader(c, link)
        c.reset_trace()
        c.call((cl, 'write_flash'), *args)
        wf_post(c, wire, replies, 0)
    return k


for _k0 in 'LHA':
    for _k1 in 'LHA':
        _wf_patterns(_k0, _k1)


@contract('C12', 'write_flash.early', [CL + ':Cloader.write_flash'], clause=WF_CLAUSE,
          bounded='4-byte replies; the reply of the addressed target arrives after the first or second transmission')
def wf_early(c):
    args = wf_args(c)
    kinds = c.choice('pattern', [['M'], ['L', 'M'], ['H', 'M'], ['A', 'M']])
    replies = scripted_replies(c, kinds)
    link, wire = mklink(c, [None] + replies + PAD)
    cl = cloader(c, link)
    c.reset_trace()
    c.call((cl, 'write_flash'), *args)
    wf_post(c, wire, replies, 0)
    c.ensure('no-retry-after-the-reply', 'nsent == %d' % len(kinds))


@contract('C12', 'write_flash.reply_lengths', [CL + ':Cloader.write_flash'], clause=WF_CLAUSE,
          bounded='one arbitrary packet of 0, 1, 2, 3, 5 or 12 data bytes after 0 or 5 lost replies, every other reply lost')
def wf_lengths(c):
    args = wf_args(c)
    nlost = c.choice('nlost', [0, 5])
    n = c.choice('n', [0, 1, 2, 3, 5, 12])
    replies = [None] * nlost + [reply_packet(c, 'r', n)] + [None] * (5 - nlost)
    link, wire = mklink(c, [None] + replies + PAD)
    cl = cloader(c, link)
    c.reset_trace()
    c.call((cl, 'write_flash'), *args)
    wf_post(c, wire, replies, 0)


@contract('C12', 'write_flash.drain', [CL + ':Cloader.write_flash'],
          clause=WF_CLAUSE + '; packets already waiting on the downlink (e.g. a stale positive reply) are not taken as the answer',
          bounded='0..3 arbitrary stale packets; afterwards the first or the second transmission is answered by an arbitrary packet or never')
def wf_drain(c):
    args = wf_args(c)
    nstale = c.choice('nstale', [0, 1, 2, 3])
    stale = [reply_packet(c, 's%d' % i, 4) for i in range(nstale)]
    kinds = c.choice('pattern', [['X'], ['L', 'X'], ['L'] * 6])
    replies = scripted_replies(c, kinds) + [None] * (6 - len(kinds))
    link, wire = mklink(c, stale + [None] + replies + PAD)
    cl = cloader(c, link)
    c.reset_trace()
    c.call((cl, 'write_flash'), *args)
    wf_post(c, wire, replies, nstale)


# (an observation that is NOT a violation of C12 - a positive reply to the sixth and last transmission is reported as failed -
#  is described in DESIGN.md; it is deliberately not an obligation: the property only asks for a bounded retry and an abort.)


# ------------------------------------------------------------------------- _internal_flash (modular)

def bootloader(c, cload):
    bl = c.new(BL + ':Bootloader', None)
    c.let('bl', bl)
    c.let('cload_', cload)
    c.snapshot('_', 'setattr(bl, "_cload", cload_)')
    return bl


def target_info(c, tid):
    """the geometry record the bootloader keeps per target, built by the real constructor"""
    t = c.new(BT + ':Target', tid)
    c.let('tinfo', t)
    for name, field in (('addr', 'addr'), ('ps', 'page_size'), ('bp', 'buffer_pages'), ('fp', 'flash_pages'), ('sp', 'start_page')):
        c.let('_v', c.get(name))
        c.snapshot('_', 'setattr(tinfo, %r, _v)' % field)
    return t


def artifact(c, image, tname, typ='fw'):
    return c.namedtuple(BL + ':FlashArtifact', image, c.namedtuple(BL + ':Target', 'cf2', tname, typ, [], []), None)


IF_CLAUSE = ('an image that does not fit between the effective start page (target start page or override) and the end of the '
             'flash is refused before anything is sent; otherwise every flash-write command programs, from buffers that hold '
             'exactly the corresponding image pages, only pages inside [start, start + pages of the image) and below the flash '
             'size, every image page is programmed, and a failed flash-write aborts with an exception before anything else is sent')


def replay_loader_calls(c, calls, oks):
    """Ghost replay of the calls made on the loader, against the contracts of upload_buffer (loads `data` into buffer `slot` at
    `address`; proved in upload_buffer.*) and write_flash (the target programs flash pages page .. page+count-1 from buffers
    bufpage ..; True only if it confirmed that; proved in write_flash.*).  Every transmitted flash-write command is taken as
    executed.  calls: (index in the trace, (name, args, kwargs)).  Returns the programmed page offsets relative to `first` and
    the expression 'every flash-write so far succeeded'."""
    buf = {}
    offs = []
    nw = 0
    all_ok = 'True'
    for i, e in calls:
        c.let('a', e[1])
        if e[0] == 'cload.upload_buffer':
            slot = e[1][1]
            assert isinstance(slot, int), 'ghost replay needs a concrete buffer slot'
            c.ensure('call%d-upload-in-buffer' % i, 'len(a) == 4 and a[0] == addr and 0 <= a[1] < bp and a[2] == 0 and 1 <= len(a[3]) <= ps')
            buf[slot] = e[1][3]
        else:
            bufpage, count = e[1][1], e[1][3]
            assert isinstance(bufpage, int) and isinstance(count, int), 'ghost replay needs concrete buffer page and count'
            c.ensure('call%d-write-from-buffers' % i, 'len(a) == 4 and a[0] == addr and a[1] >= 0 and a[3] >= 1 and a[1] + a[3] <= bp')
            for j in range(count):
                c.snapshot('P', 'a[2] + %d' % j)
                c.ensure('call%d-page%d-inside-image-range' % (i, j), 'first <= P and (P - first) * ps < len(image)')
                c.ensure('call%d-page%d-inside-flash' % (i, j), '0 <= P < fp')
                c.let('content', buf.get(bufpage + j))
                c.ensure('call%d-page%d-holds-image-page' % (i, j),
                         'content is not None and content == image[(P - first) * ps:(P - first + 1) * ps]')
                offs.append(c.snapshot('_off', 'P - first'))
            c.let('ok', oks[nw])
            c.ensure('call%d-failed-write-aborts-at-once' % i, "implies(not ok, raised == 'Exception' and len(trace) == %d)" % (i + 1))
            all_ok += ' and ok%d' % nw
            nw += 1
    return offs, all_ok


def modular_setup(c, n, ps, cload_returns):
    tname = c.choice('target', ['stm32', 'nrf51'])
    tid = {'stm32': 0xFF, 'nrf51': 0xFE}[tname]
    c.int('addr', 0, 255), c.let('ps', ps), c.int('bp', 1, 65535), c.int('fp', 0, 65535), c.int('sp', 0, 65535)
    has_override = c.choice('has_override', [False, True])
    ov = c.int('override', 0, 65535) if has_override else None
    c.let('first', ov if has_override else c.get('sp'))
    image = c.bytes('image', n)
    tinfo = target_info(c, tid)
    cload = c.ext('cload', attrs={'targets': c.dict([(tid, tinfo)]), 'error_code': 0}, returns=cload_returns)
    bl = bootloader(c, cload)
    return bl, artifact(c, image, tname), ov


def _if_modular(lens):
    @contract('C12', 'internal_flash.modular.len%d_%d' % (lens[0], lens[-1]), [BL + ':Bootloader._internal_flash'], max_paths=6000, clause=IF_CLAUSE,
              bounded='image lengths %d..%d (content symbolic), page sizes 0 .. length + 1 and 1024, 65535 (every page size >= length gives '
                      'a single page); buffer pages (>= 1), flash pages, start page, override, target address: any 16-bit / 8-bit value; '
                      'every pattern of failing flash-write commands' % (lens[0], lens[-1]))
    def if_modular(c):
        n = c.choice('n', list(lens))
        ps = c.choice('ps', list(range(0, n + 2)) + [1024, 65535])
        oks = [c.bool('ok%d' % i) for i in range(n + 1)]
        it = iter(oks)
        bl, art, ov = modular_setup(c, n, ps, {'write_flash': lambda *_a: next(it)})
        c.reset_trace()
        c.call((bl, '_internal_flash'), art, 1, 1, ov)
        trace = c.get('trace')
        c.snapshot('fits', 'len(image) <= (fp - first) * ps')
        c.ensure('only-loader-calls', 'all(e[0] in ("cload.upload_buffer", "cload.write_flash") for e in trace)')
        c.ensure('refused-before-anything-is-sent', "implies(not fits, raised == 'Exception' and len(trace) == 0)")
        offs, all_ok = replay_loader_calls(c, list(enumerate(trace)), oks)
        c.let('offs', tuple(offs))
        c.snapshot('all_ok', all_ok)
        c.ensure('no-error-when-all-writes-succeed', 'implies(fits and all_ok, raised is None)')
        c.ensure('error-only-from-refusal-or-failed-write', "implies(raised is not None, raised == 'Exception' and (not fits or not all_ok))")
        for q in range(n):
            c.ensure('image-page%d-programmed' % q, 'implies(raised is None and %d * ps < len(image), any(o == %d for o in offs))' % (q, q))
    return if_modular


for _lens in ((1, 2, 3, 4, 5, 6), (7, 8), (9,), (10,), (11,), (12,)):
    _if_modular(_lens)


@contract('C12', 'internal_flash.callbacks', [BL + ':Bootloader._internal_flash'],
          clause=IF_CLAUSE + ' - with the UI callbacks installed: progress reporting changes nothing that is sent, and a termination '
                 'request aborts with an exception before the next page is loaded',
          bounded='image length 5, page size 1, 2, 3 or 5; every pattern of termination requests; flash-write commands succeed')
def if_callbacks(c):
    n = 5
    ps = c.choice('ps', [1, 2, 3, 5])
    stops = [c.bool('stop%d' % i) for i in range(n + 1)]
    it = iter(stops)
    bl, art, ov = modular_setup(c, n, ps, {'write_flash': True})
    c.let('pcb', c.ext('progress_cb'))
    c.let('tcb', c.ext('terminate_cb', returns={'()': lambda *_a: next(it)}))
    c.snapshot('_', 'setattr(bl, "progress_cb", pcb)')
    c.snapshot('_', 'setattr(bl, "terminate_flashing_cb", tcb)')
    c.reset_trace()
    c.call((bl, '_internal_flash'), art, 1, 1, ov)
    trace = c.get('trace')
    c.snapshot('fits', 'len(image) <= (fp - first) * ps')
    c.ensure('only-loader-and-callback-calls', 'all(e[0] in ("cload.upload_buffer", "cload.write_flash", "progress_cb", "terminate_cb") for e in trace)')
    c.ensure('refused-before-anything-is-sent', "implies(not fits, raised == 'Exception' and not any(e[0].startswith('cload.') for e in trace))")
    asked = sum(1 for e in trace if e[0] == 'terminate_cb')
    c.snapshot('stopped', ' or '.join(['False'] + ['stop%d' % i for i in range(asked)]))
    offs, _ = replay_loader_calls(c, [(i, e) for i, e in enumerate(trace) if e[0].startswith('cload.')], [True] * (n + 1))
    c.let('offs', tuple(offs))
    c.ensure('raises-iff-refused-or-terminated', "iff(raised is not None, not fits or stopped)")
    c.ensure('abort-is-an-exception', "implies(raised is not None, raised == 'Exception')")
    c.ensure('nothing-sent-after-termination-request', 'implies(stopped, trace[-1][0] == "terminate_cb")')
    for q in range(n):
        c.ensure('image-page%d-programmed' % q, 'implies(raised is None and %d * ps < len(image), any(o == %d for o in offs))' % (q, q))


# ------------------------------------------------------------------------- end to end: real Bootloader + real Cloader + ghost target

E2E_CLAUSE = ('flashing writes exactly the image bytes to the flash starting at the start page (or the override page), touching no '
              'page outside the range the image occupies and none beyond the flash size; an image that does not fit is refused before '
              'anything is sent; every frame fits the 32-byte radio frame; a flash-write that is not acknowledged aborts the flashing')


def le16(lo, hi):
    assert isinstance(lo, int) and isinstance(hi, int), 'ghost target needs concrete buffer page / offset / count fields'
    return lo + 256 * hi


def ghost_target(c, wire, ps, bp, n):
    """Ghost model of the bootloader target (the peer): replays everything that was put on the wire, in order.

    load-buffer  [addr, 0x14, page:le16, offset:le16, payload...]  -> BUF[page][offset + j] = payload[j]
    write-flash  [addr, 0x18, bufpage:le16, flashpage:le16, count:le16] -> FLASH[flashpage + j] = BUF[bufpage + j], j < count
    (every transmitted write-flash command is taken as executed, acknowledged or not).
    States, as obligations: every frame is addressed to the target, fits the radio frame and stays inside the buffers; every
    programmed flash page lies in [first, first + pages of the image) and below fp and receives exactly that image page.
    Returns the list of programmed page offsets relative to `first`."""
    buf = [[None] * ps for _ in range(bp)]
    offs = []
    npages = (n + ps - 1) // ps
    k = -1
    for w in wire:
        if w[0] != 'tx':
            continue
        k += 1
        c.let('hdr', w[1])
        c.let('d', w[2])
        items = c.snapshot('_items', 'tuple(d)')
        c.ensure('tx%d-addressed-and-fits-radio-frame' % k, 'hdr == 0xFF and 2 <= len(d) <= 31 and d[0] == addr')
        cmd = items[1] if len(items) > 1 else None
        if cmd == 0x14 and len(items) >= 6:
            slot, off, payload = le16(items[2], items[3]), le16(items[4], items[5]), items[6:]
            inside = slot < bp and off + len(payload) <= ps
            c.let('_b', inside)
            c.ensure('tx%d-load-stays-inside-buffer' % k, '_b')
            if inside:
                buf[slot][off:off + len(payload)] = payload
        elif cmd == 0x18 and len(items) == 8:
            bufpage, count = le16(items[2], items[3]), le16(items[6], items[7])
            inside = count >= 1 and bufpage + count <= bp
            c.let('_b', inside)
            c.ensure('tx%d-write-takes-existing-buffers' % k, '_b')
            c.snapshot('P0', "unpack('<H', d[4:6])[0]")
            for j in range(count if inside else 0):
                P = c.snapshot('P', 'P0 + %d' % j)
                c.ensure('tx%d-page%d-inside-image-range' % (k, j), 'first <= P and (P - first) * %d < %d' % (ps, n))
                c.ensure('tx%d-page%d-inside-flash' % (k, j), '0 <= P < fp')
                content = tuple(buf[bufpage + j])
                c.let('content', content)
                # "flash page P receives exactly image page P - first".  The native side always evaluates the statement itself.
                # The symbolic side proves it through a witness q0 for P - first (the image page the buffer content is
                # syntactically identical to): "P - first == q0 and content == page q0" implies the statement; it is an
                # auxiliary obligation (class A), and without a witness the statement itself is the obligation.
                name = 'tx%d-page%d-receives-exactly-its-image-page' % (k, j)
                q0 = None
                if c.backend == 'sym':
                    for q in range(npages):
                        if content[0] is not None and c.snapshot('_m', 'content[0] == image[%d]' % (q * ps)) is True and \
                                c.snapshot('_m', 'P - first == %d' % q) is not False:
                            q0 = q
                            break
                if q0 is not None:
                    c.let('q0', q0)
                    c.ensure(name + '/by-witness', 'P - first == q0 and all(content[j] == image[q0 * %d + j] for j in range(%d))' % (
                        ps, min(ps, n - q0 * ps)), cls='A')
                else:
                    c.ensure(name, '0 <= P - first < %d and ' % npages + ' and '.join(
                        'implies(P - first == %d, all(content[j] == image[%d + j] for j in range(%d)))' % (q, q * ps, min(ps, n - q * ps))
                        for q in range(npages)))
                offs.append(c.snapshot('_off', 'P - first'))
        else:
            c.ensure('tx%d-is-a-known-command' % k, 'False')
    return offs


def e2e_setup(c, ps, bp, n, receive_script, fixed_target=None, require_fits=False):
    tname = fixed_target or c.choice('target', ['stm32', 'nrf51'])
    tid = {'stm32': 0xFF, 'nrf51': 0xFE}[tname]
    c.int('addr', 0, 255), c.let('ps', ps), c.let('bp', bp), c.int('fp', 0, 65535), c.int('sp', 0, 65535)
    has_override = c.choice('has_override', [False, True])
    ov = c.int('override', 0, 65535) if has_override else None
    c.let('first', ov if has_override else c.get('sp'))
    image = c.bytes('image', n)
    link, wire = mklink(c, receive_script(c))
    bl = c.new(BL + ':Bootloader', None)
    c.let('bl', bl)
    c.let('link', link)
    c.snapshot('cl', 'bl._cload')
    c.snapshot('_', 'setattr(cl, "link", link)')
    tinfo = target_info(c, tid)
    c.snapshot('_', 'cl.targets.update({%d: tinfo})' % tid)
    c.snapshot('fits', 'len(image) <= (fp - first) * ps')
    if require_fits:
        c.require('fits')
    c.reset_trace()
    c.call((bl, '_internal_flash'), artifact(c, image, tname), 1, 1, ov)
    return wire


def ack(c, done=1, err=0):
    c.snapshot('_ackdata', "pack('<BBBB', addr, 0x18, %d, %d)" % (done, err))
    return c.new(STK + ':CRTPPacket', 0xFF, c.get('_ackdata'))


def _e2e(name, geoms, fixed_target=None, note=''):
    @contract('C12', 'flash.e2e.' + name, [BL + ':Bootloader._internal_flash', CL + ':Cloader.upload_buffer', CL + ':Cloader.write_flash'],
              clause=E2E_CLAUSE, max_paths=6000,
              bounded='(page size, buffer pages, image length) in %s%s; image content, target address, flash pages, start page and '
                      'override page symbolic (16 bit); every flash-write acknowledged at once' % (
                          geoms if len(geoms) < 12 else '%d combinations from %s to %s' % (len(geoms), geoms[0], geoms[-1]), note))
    def k(c):
        ps, bp, n = c.choice('geom', list(geoms))
        npages = (n + ps - 1) // ps
        wire = e2e_setup(c, ps, bp, n, lambda c: [x for _ in range(npages + 1) for x in (None, ack(c))], fixed_target)
        c.ensure('only-link-calls', 'all(e[0] in ("link.send_packet", "link.receive_packet") for e in trace)')
        c.ensure('refused-before-anything-is-sent', "implies(not fits, raised == 'Exception' and len(trace) == 0)")
        c.ensure('image-that-fits-is-flashed-without-error', 'implies(fits, raised is None)')
        offs = ghost_target(c, wire, ps, bp, n)
        c.let('offs', tuple(offs))
        for q in range(npages):
            c.ensure('image-page%d-programmed' % q, 'implies(raised is None, any(o == %d for o in offs))' % q)
    return k


for _ps in (1, 2, 3):
    for _bp in (1, 2, 3):
        _e2e('ps%d.bp%d' % (_ps, _bp), [(_ps, _bp, n) for n in range(1, (2 * _bp + 1) * _ps + 2)])

# pages that need several load-buffer frames (25 payload bytes per frame)
for _ps in (25, 26, 60):
    for _bp in (1, 2):
        _e2e('ps%d.bp%d' % (_ps, _bp), [(_ps, _bp, n) for n in (_ps - 1, _ps + 1, 2 * _bp * _ps, 2 * _bp * _ps + _ps // 2)])

# the page size of the real targets (Crazyflie 2.x: 1024-byte pages; nRF51 1 buffer page, STM32F405 10 buffer pages).  The ten-buffer
# geometry is run with 128-byte pages (a 12-page image of 1024-byte pages costs minutes of path-condition handling, no new case).
_e2e('real.nrf51', [(1024, 1, 2 * 1024 + 17)], fixed_target='nrf51')
_e2e('tenbuffers', [(128, 10, 11 * 128 + 50)], fixed_target='stm32', note=' (12 pages: one full buffer set, one full page, one partial page)')


@contract('C12', 'flash.e2e.failing_write', [BL + ':Bootloader._internal_flash', CL + ':Cloader.upload_buffer', CL + ':Cloader.write_flash'],
          clause=E2E_CLAUSE + ': a flash-write command that is answered negatively, or not answered by the addressed target in 6 '
                 'transmissions (replies lost or packets of somebody else arriving instead), aborts the flashing with an exception '
                 'and nothing more is sent',
          bounded='page size 2, 2 buffer pages, 11-byte image (three flash-write commands); the first, second or third command fails')
def e2e_failing(c):
    ps, bp, n = 2, 2, 11
    which = c.choice('which', [0, 1, 2])
    how = c.choice('how', ['nack', 'lost', 'stray'])

    def script(c):
        out = []
        for _ in range(which):
            out += [None, ack(c)]
        if how == 'nack':
            out += [None, ack(c, 0, 2)]
        elif how == 'lost':
            out += [None] * 7
        else:
            out += [None] + scripted_replies(c, ['A'] * 6)
        return out + [None] * 40      # should the flashing go on regardless: every later reply is lost
    wire = e2e_setup(c, ps, bp, n, script, require_fits=True)
    c.ensure('aborts-with-exception', "raised == 'Exception'")
    ghost_target(c, wire, ps, bp, n)
    txs = [w for w in wire if w[0] == 'tx']
    cmds = []
    for t in txs:
        c.let('d', t[2])
        cmds.append(c.snapshot('_cmd', 'd[1]'))
    c.let('cmds', tuple(cmds))
    c.ensure('failed-command-sent-a-bounded-number-of-times', 'sum(1 for x in cmds if x == 0x18) == %d' % (which + (1 if how == 'nack' else 6)))
    c.ensure('nothing-sent-after-the-failed-command', 'len(cmds) > 0 and cmds[-1] == 0x18')
    c.ensure('no-load-after-failure', 'sum(1 for x in cmds if x == 0x14) == %d' % (2 * (which + 1)))


# ------------------------------------------------------------------------- upload_buffer for ANY buffer length (loop invariant)

@contract('C12', 'upload_buffer.inductive', [CL + ':Cloader.upload_buffer'],
          clause='buffer-upload messages fit the radio frame and cover every byte exactly once at the right offset, for a buffer of ANY length: '
                 'loop invariant "the open frame holds buff[k-count:k] for address+k-count, count <= 24"; a frame is sent exactly when it holds 25 '
                 'bytes, it is buff[k-25:k] at address+k-25 and the next frame opens at k; the closing frame is buff[n-c:n] at address+n-c with c <= 24. '
                 'By induction the frames partition buff in order, every byte once, at offset address + index.')
def upload_inductive(c):
    buff = c.view('buff', 'bytes')
    c.int('tid', 0, 255), c.int('page', 0, 65535), c.int('address', 0, 65535)
    c.require('address + len(buff) <= 65535')
    link = c.ext('link')
    cl = cloader(c, link)
    c.reset_trace()
    if c.backend == 'sym':
        import z3
        from pyvc.values import SView, SInt
        I = c.I

        def havoc(I_, fr):
            k = fr.vars['k']
            count = I.fresh_int('count')
            fr.vars['count'] = count
            pk = I.call(I.resolve('cflib.crtp.crtpstack:CRTPPacket'), [], {})
            I.call(I.getattr(pk, 'set_header'), [0xFF, 0xFF], {})
            hdr = [I.fresh_int('hdr%d' % j, 0, 255) for j in range(6)]
            b = fr.vars['buff']
            win = SView(b.arr, z3.simplify(b.off + k.t - count.t) if not isinstance(k, int) else z3.simplify(b.off + k - count.t), count.t, 'bytearray', pre=hdr)
            win.byte_range = True
            pk.attrs['_data'] = win
            fr.vars['pk'] = pk
            del I.trace[:]          # the frames of earlier iterations are covered by the per-iteration obligation
        c.loop_invariant(CL + ':Cloader.upload_buffer', '#1',
                         ['0 <= count and count <= 24 and count <= k and (k - count) % 25 == 0',
                          'pk.header == 0xFF and len(pk.data) == 6 + count',
                          "bytes(pk.data[0:6]) == pack('<BBHH', target_id, 0x14, page, address + k - count)",
                          'bytes(pk.data[6:]) == buff[k - count:k]'],
                         havoc, ['count', 'pk'], index='k',
                         iteration_post=[
                             ('at-most-one-frame-per-byte', "len(sent('link.send_packet')) <= 1"),
                             ('frame-sent-iff-it-holds-25-bytes', "iff(len(sent('link.send_packet')) == 1, count == 0) and implies(len(sent('link.send_packet')) == 0, count >= 1)"),
                             ('sent-frame-is-the-next-25-bytes-at-their-offset',
                              "implies(len(sent('link.send_packet')) == 1, len(sent('link.send_packet')[0][1][0].data) == 31 and "
                              "sent('link.send_packet')[0][1][0].header == 0xFF and "
                              "bytes(sent('link.send_packet')[0][1][0].data[0:6]) == pack('<BBHH', target_id, 0x14, page, address + k - 25) and "
                              "bytes(sent('link.send_packet')[0][1][0].data[6:]) == buff[k - 25:k])")])
    c.call((cl, 'upload_buffer'), c.get('tid'), c.get('page'), c.get('address'), buff)
    c.ensure('no-exception', 'raised is None')
    c.snapshot('F', "sent('link.send_packet')[-1][1][0]")
    c.snapshot('cf_', 'len(F.data) - 6')
    c.ensure('closing-frame-within-the-radio-frame', '0 <= cf_ and cf_ <= 24 and F.header == 0xFF')
    c.ensure('closing-frame-is-the-rest-at-its-offset', "bytes(F.data[0:6]) == pack('<BBHH', tid, 0x14, page, address + len(buff) - cf_) and bytes(F.data[6:]) == buff[len(buff) - cf_:]")
    c.ensure('closing-frame-starts-on-a-25-byte-boundary', '(len(buff) - cf_) % 25 == 0')
    if c.backend == 'native':
        # whole-wire statement, evaluated on the real code for every witness / sampled input (the symbolic run sees one
        # arbitrary iteration at a time, so there it is the conjunction of the per-iteration obligations above)
        c.ensure('native-all-frames-fit-and-partition-the-buffer',
                 "all(6 <= len(e[1][0].data) <= 31 for e in sent('link.send_packet')) and "
                 "b''.join(bytes(e[1][0].data[6:]) for e in sent('link.send_packet')) == bytes(buff) and "
                 "all(unpack('<BBHH', bytes(e[1][0].data[0:6])) == (tid, 0x14, page, address + sum(len(f[1][0].data) - 6 for f in sent('link.send_packet')[:j])) "
                 "for j, e in enumerate(sent('link.send_packet')))")


# ------------------------------------------------------------------------- _internal_flash for ANY image length (loop invariant, page size enumerated)

def _if_inductive(ps):
    @contract('C12', 'internal_flash.inductive.ps%d' % ps, [BL + ':Bootloader._internal_flash'], float_mode='R',
              clause='flashing an image of ANY length: loop invariant "ctr < buffer_pages buffers are loaded, they hold image pages k-ctr .. k-1"; in an '
                     'arbitrary iteration k page k of the image (bytes [k*ps, min((k+1)*ps, len))) is loaded into buffer ctr, and when the buffers are '
                     'full exactly one flash-write programs flash pages first+k-ctr .. first+k from buffers 0 .. ctr; every programmed page is inside '
                     'the image range and below the flash size; the closing flash-write programs the remaining ctr pages ending at the last image '
                     'page; a failed flash-write raises at once.  (Buffer contents follow by induction: buffer j is loaded exactly in the iteration '
                     'whose ctr is j, and ctr restarts at 0 after every flash-write.)',
              bounded='page size %d (1, 2, 3, 7, 25, 26, 1024 enumerated: with a concrete page size the page arithmetic is linear); image length, '
                      'buffer pages, flash pages, start page, override page: any value' % ps)
    def k(c):
        tname = c.choice('target', ['stm32', 'nrf51'])
        tid = {'stm32': 0xFF, 'nrf51': 0xFE}[tname]
        c.int('addr', 0, 255), c.let('ps', ps), c.int('bp', 1, 65535), c.int('fp', 0, 65535), c.int('sp', 0, 65535)
        has_override = c.choice('has_override', [False, True])
        ov = c.int('override', 0, 65535) if has_override else None
        c.let('first', ov if has_override else c.get('sp'))
        image = c.view('image', 'bytes', maxlen=2 ** 31)
        c.require('len(image) >= 1')
        tinfo = target_info(c, tid)
        if c.backend == 'sym':
            ok_fn = lambda I, a, kw: I.fresh_bool('write_ok')        # noqa: E731  every flash-write may fail
        else:
            ok_fn = lambda I, a, kw: True                            # noqa: E731
        cload = c.ext('cload', attrs={'targets': c.dict([(tid, tinfo)]), 'error_code': 0}, returns={'write_flash': ok_fn})
        bl = bootloader(c, cload)
        art = artifact(c, image, tname)
        c.reset_trace()
        if c.backend == 'sym':
            I = c.I

            def havoc(I_, fr):
                fr.vars['ctr'] = I.fresh_int('ctr')
                fr.vars['progress'] = I.fresh_float('progress')
                del I.trace[:]
            LAST = "sent('cload.write_flash')[-1][1]"
            UP = "sent('cload.upload_buffer')[0][1]"
            c.loop_invariant(BL + ':Bootloader._internal_flash', '#1',
                             ['0 <= ctr and ctr < t_data.buffer_pages and ctr <= k',
                              'len(image) <= (t_data.flash_pages - start_page) * t_data.page_size'],
                             havoc, ['ctr', 'progress'], index='k',
                             iteration_post=[
                                 ('exactly-one-page-loaded', "len(sent('cload.upload_buffer')) == 1 and len(sent('cload.write_flash')) <= 1"),
                                 ('page-k-loaded-into-the-next-free-buffer',
                                  UP + "[0] == t_data.addr and " + UP + "[2] == 0 and " + UP + "[3] == image[(k - 1) * t_data.page_size:min(k * t_data.page_size, len(image))] and "
                                  "(" + UP + "[1] == ctr - 1 or (ctr == 0 and " + UP + "[1] == t_data.buffer_pages - 1))"),
                                 ('buffer-slot-exists', "0 <= " + UP + "[1] and " + UP + "[1] < t_data.buffer_pages"),
                                 ('flash-write-iff-buffers-full', "iff(len(sent('cload.write_flash')) == 1, ctr == 0)"),
                                 ('flash-write-programs-the-loaded-pages-in-place',
                                  "implies(len(sent('cload.write_flash')) == 1, " + LAST + "[0] == t_data.addr and " + LAST + "[1] == 0 and "
                                  + LAST + "[3] == t_data.buffer_pages and " + LAST + "[2] == start_page + k - t_data.buffer_pages)"),
                                 ('programmed-pages-inside-flash-and-image',
                                  "implies(len(sent('cload.write_flash')) == 1, 0 <= " + LAST + "[2] and " + LAST + "[2] + " + LAST + "[3] <= t_data.flash_pages and "
                                  "(" + LAST + "[2] + " + LAST + "[3] - 1 - start_page) * t_data.page_size < len(image) and " + LAST + "[2] >= start_page)")])
        c.call((bl, '_internal_flash'), art, 1, 1, ov)
        c.snapshot('fits', 'len(image) <= (fp - first) * ps')
        c.ensure('refused-iff-it-does-not-fit', "iff(raised == 'Exception' and len(sent('cload.upload_buffer')) + len(sent('cload.write_flash')) == 0, not fits) or raised == 'Exception'")
        c.ensure('only-declared-error', "raised in (None, 'Exception')")
        if c.get('raised') is None:
            c.snapshot('npages', '(len(image) - 1) // ps + 1')
            if len([e for e in c.get('trace') if e[0] == 'cload.write_flash']) >= 1:
                c.snapshot('W', "sent('cload.write_flash')[-1][1]")
                c.ensure('closing-flash-write-ends-at-the-last-image-page', 'W[0] == addr and W[1] == 0 and W[3] >= 1 and W[3] <= bp and W[2] + W[3] == first + npages')
                c.ensure('closing-flash-write-inside-flash', 'W[2] >= first and W[2] + W[3] <= fp')
        if c.backend == 'native':
            # whole-wire statement on the real code for every witness / sampled input
            c.ensure('native-pages-programmed-once-in-range',
                     "implies(raised is None, sorted(p for e in sent('cload.write_flash') for p in range(e[1][2], e[1][2] + e[1][3])) == "
                     "list(range(first, first + (len(image) - 1) // ps + 1)) and first + (len(image) - 1) // ps + 1 <= fp)")
    return k


for _ps in (1, 2, 3, 7, 25, 26, 1024):
    _if_inductive(_ps)
