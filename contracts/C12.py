"""C12 - flashing writes exactly the image, nowhere else (work in progress)."""
from pyvc.api import contract

BL = 'cflib.bootloader'
CL = 'cflib.bootloader.cloader'
BT = 'cflib.bootloader.boottypes'
STK = 'cflib.crtp.crtpstack'


def mklink(c, replies):
    """External radio link.  `send_packet` records what is on the wire AT SEND TIME (header byte and a copy of the
    data bytes) in the ghost list `wire`; `receive_packet` answers from the scripted `replies` (running out of
    scripted replies is a contract error, never a pass)."""
    wire = []
    it = iter(replies)

    def send(I, args, kw):
        pk = args[0]
        if I is None:
            wire.append(('tx', pk.header, bytes(pk.data)))
        else:
            wire.append(('tx', I.getattr(pk, 'header'), I.call(I.models.builtin(I, 'bytes'), [I.getattr(pk, 'data')], {})))
        return None

    def recv(I, args, kw):
        r = next(it)
        wire.append(('rx', r, None))
        return r
    link = c.ext('link', returns={'send_packet': send, 'receive_packet': recv})
    return link, wire


def cloader(c, link):
    cl = c.new(CL + ':Cloader', None)
    c.let('cl', cl)
    c.let('link', link)
    c.snapshot('_', 'setattr(cl, "link", link)')
    return cl


def _upload(lens):
    @contract('C12', 'upload_buffer.len%d_%d' % (lens[0], lens[-1]), [CL + ':Cloader.upload_buffer'],
              clause='buffer-upload messages fit the 32-byte radio frame and cover every byte exactly once at the right offset',
              bounded='buffer lengths %d..%d enumerated' % (lens[0], lens[-1]))
    def k(c):
        n = c.choice('n', list(lens))
        link, wire = mklink(c, [])
        cl = cloader(c, link)
        c.int('tid', 0, 255), c.int('page', 0, 65535), c.int('address', 0, 65535)
        buff = c.bytes('buff', n)
        c.require('address + len(buff) <= 65535')
        c.reset_trace()
        c.call((cl, 'upload_buffer'), c.get('tid'), c.get('page'), c.get('address'), buff)
        c.ensure('no-exception', 'raised is None')
        c.ensure('only-sends', 'all(e[0] == "link.send_packet" for e in trace)')
        c.ensure('one-packet-per-send', 'len(trace) == %d' % len(wire))
        off = 0
        for i, w in enumerate(wire):
            c.let('hdr', w[1])
            c.let('d', w[2])
            ln = c.snapshot('ln', 'len(d)')
            c.ensure('frame%d-fits-radio-frame' % i, 'hdr == 0xFF and 6 <= len(d) <= 31')
            c.let('off', off)
            c.let('pl', max(ln - 6, 0))
            c.ensure('frame%d-layout' % i, "d[:6] == pack('<BBHH', tid, 0x14, page, address + off) and d[6:] == buff[off:off + pl]")
            if i < len(wire) - 1:
                c.ensure('frame%d-not-empty' % i, 'pl > 0')
            off += max(ln - 6, 0)
        c.let('off', off)
        c.ensure('every-byte-covered', 'off == len(buff)')
    return k


for _lo in (0, 21, 42, 63):
    _upload(range(_lo, _lo + 21))


# ------------------------------------------------------------------------- write_flash

WF_CLAUSE = ('a flash-write command that fails or goes unanswered is retried a bounded number of times (at most 6 transmissions '
             'of the same command) and is reported as failed; it is reported as done only on a positive reply of the addressed '
             'target to the last transmission')


def reply_packet(c, name, n):
    """a received packet with arbitrary header byte and n arbitrary data bytes, built by the real constructor"""
    h = c.int(name + '_h', 0, 255)
    d = c.bytearray(name + '_d', n)
    return c.new(STK + ':CRTPPacket', h, d)


def wf_args(c):
    c.int('addr', 0, 255), c.int('pbuf', 0, 65535), c.int('tpage', 0, 65535), c.int('count', 0, 65535)
    return [c.get(x) for x in ('addr', 'pbuf', 'tpage', 'count')]


def wf_post(c, wire, replies_after_flush, nflush):
    """post-conditions of write_flash; replies_after_flush[k] is what the link delivers after the k-th transmission"""
    txs = [w for w in wire if w[0] == 'tx']
    nsent = len(txs)
    c.ensure('only-link-calls', 'all(e[0] in ("link.send_packet", "link.receive_packet") for e in trace)')
    c.ensure('bounded-transmissions', '1 <= %d <= 6' % nsent)
    for i, w in enumerate(txs):
        c.let('hdr', w[1])
        c.let('d', w[2])
        c.ensure('tx%d-is-the-flash-write-command' % i, "hdr == 0xFF and d == pack('<BBHHH', addr, 0x18, pbuf, tpage, count)")
    # order on the wire: flush receives, then strictly alternating transmission / reception
    kinds = [w[0] for w in wire]
    c.let('kinds', tuple(kinds))
    c.let('expected_kinds', tuple(['rx'] * (nflush + 1) + ['tx', 'rx'] * nsent))
    c.ensure('flush-then-alternate', 'kinds == expected_kinds')
    last = replies_after_flush[nsent - 1] if 1 <= nsent <= len(replies_after_flush) else None
    c.let('last', last)
    if last is None:
        c.let('answered', False)
        c.let('positive', False)
    else:
        c.snapshot('answered', 'last.header == 0xFF and len(last.data) >= 2 and last.data[0] == addr and last.data[1] == 0x18')
        c.snapshot('positive', 'answered and len(last.data) >= 3 and last.data[2] == 1')
    c.ensure('gives-up-only-after-6', 'implies(not answered, %d == 6)' % nsent)
    if c.get('raised') is None:
        c.ensure('result-is-bool', 'result is True or result is False')
        c.ensure('done-iff-positive-reply-to-last-transmission', 'iff(result, positive)')
        c.ensure('unanswered-reports-error-minus-1', 'implies(not answered, result is False and cl.error_code == -1)')
        if last is not None:
            c.ensure('answered-reports-target-error-code', 'implies(answered, cl.error_code == last.data[3])')
    else:
        # a reply of the addressed target that is too short to carry done/error bytes
        c.ensure('raises-only-on-truncated-reply', "raised == 'IndexError' and answered and len(last.data) < 4")


def _wf_patterns(first):
    @contract('C12', 'write_flash.patterns.%s' % first, [CL + ':Cloader.write_flash'], clause=WF_CLAUSE, max_paths=6000,
              bounded='every pattern over 6 attempts of {reply lost, arbitrary 4-byte packet with arbitrary header}; downlink empty at start')
    def k(c):
        args = wf_args(c)
        replies = []
        for i in range(6):
            kind = first[i] if i < len(first) else c.choice('kind%d' % i, ['L', 'X'])
            replies.append(None if kind == 'L' else reply_packet(c, 'r%d' % i, 4))
        link, wire = mklink(c, [None] + replies)
        cl = cloader(c, link)
        c.reset_trace()
        c.call((cl, 'write_flash'), *args)
        wf_post(c, wire, replies, 0)
    return k


for _f in ('L', 'X'):
    _wf_patterns(_f)
