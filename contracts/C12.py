"""C12 - flashing writes exactly the image, nowhere else (work in progress)."""
from pyvc.api import contract

BL = 'cflib.bootloader'
CL = 'cflib.bootloader.cloader'
BT = 'cflib.bootloader.boottypes'
STK = 'cflib.crtp.crtpstack'


def mklink(c, replies):
    """External radio link.  `send_packet` records what is on the wire AT SEND TIME (header byte and a copy of the
    data bytes) in the ghost list `wire`; `receive_packet` answers from the scripted `replies` (running out of
    scripted replies is a contract error, never a pass)."""
    wire = []
    it = iter(replies)

    def send(I, args, kw):
        pk = args[0]
        if I is None:
            wire.append(('tx', pk.header, bytes(pk.data)))
        else:
            wire.append(('tx', I.getattr(pk, 'header'), I.call(I.models.builtin(I, 'bytes'), [I.getattr(pk, 'data')], {})))
        return None

    def recv(I, args, kw):
        r = next(it)
        wire.append(('rx', r, None))
        return r
    link = c.ext('link', returns={'send_packet': send, 'receive_packet': recv})
    return link, wire


def cloader(c, link):
    cl = c.new(CL + ':Cloader', None)
    c.let('cl', cl)
    c.let('link', link)
    c.snapshot('_', 'setattr(cl, "link", link)')
    return cl


def _upload(lens):
    @contract('C12', 'upload_buffer.len%d_%d' % (lens[0], lens[-1]), [CL + ':Cloader.upload_buffer'],
              clause='buffer-upload messages fit the 32-byte radio frame and cover every byte exactly once at the right offset',
              bounded='buffer lengths %d..%d enumerated' % (lens[0], lens[-1]))
    def k(c):
        n = c.choice('n', list(lens))
        link, wire = mklink(c, [])
        cl = cloader(c, link)
        c.int('tid', 0, 255), c.int('page', 0, 65535), c.int('address', 0, 65535)
        buff = c.bytes('buff', n)
        c.require('address + len(buff) <= 65535')
        c.reset_trace()
        c.call((cl, 'upload_buffer'), c.get('tid'), c.get('page'), c.get('address'), buff)
        c.ensure('no-exception', 'raised is None')
        c.ensure('only-sends', 'all(e[0] == "link.send_packet" for e in trace)')
        c.ensure('one-packet-per-send', 'len(trace) == %d' % len(wire))
        off = 0
        for i, w in enumerate(wire):
            c.let('hdr', w[1])
            c.let('d', w[2])
            ln = c.snapshot('ln', 'len(d)')
            c.ensure('frame%d-fits-radio-frame' % i, 'hdr == 0xFF and 6 <= len(d) <= 31')
            c.let('off', off)
            c.let('pl', max(ln - 6, 0))
            c.ensure('frame%d-layout' % i, "d[:6] == pack('<BBHH', tid, 0x14, page, address + off) and d[6:] == buff[off:off + pl]")
            if i < len(wire) - 1:
                c.ensure('frame%d-not-empty' % i, 'pl > 0')
            off += max(ln - 6, 0)
        c.let('off', off)
        c.ensure('every-byte-covered', 'off == len(buff)')
    return k


for _lo in (0, 21, 42, 63):
    _upload(range(_lo, _lo + 21))


# ------------------------------------------------------------------------- write_flash

WF_CLAUSE = ('a flash-write command that fails or goes unanswered is retried a bounded number of times (at most 6 transmissions '
             'of the same command) and is reported as failed; it is reported as done only on a positive reply of the addressed '
             'target to the last transmission')


def reply_packet(c, name, n):
    """a received packet with arbitrary header byte and n arbitrary data bytes, built by the real constructor"""
    h = c.int(name + '_h', 0, 255)
    d = c.bytearray(name + '_d', n)
    return c.new(STK + ':CRTPPacket', h, d)


def wf_args(c):
    c.int('addr', 0, 255), c.int('pbuf', 0, 65535), c.int('tpage', 0, 65535), c.int('count', 0, 65535)
    return [c.get(x) for x in ('addr', 'pbuf', 'tpage', 'count')]


def wf_post(c, wire, replies_after_flush, nflush, strict_last=False):
    """post-conditions of write_flash; replies_after_flush[k] is what the link delivers after the k-th transmission"""
    txs = [w for w in wire if w[0] == 'tx']
    nsent = len(txs)
    c.let('nsent', nsent)
    c.ensure('only-link-calls', 'all(e[0] in ("link.send_packet", "link.receive_packet") for e in trace)')
    c.ensure('bounded-transmissions', '1 <= nsent <= 6')
    for i, w in enumerate(txs):
        c.let('hdr', w[1])
        c.let('d', w[2])
        c.ensure('tx%d-is-the-flash-write-command' % i, "hdr == 0xFF and d == pack('<BBHHH', addr, 0x18, pbuf, tpage, count)")
    # order on the wire: the downlink is drained first, then transmission and reception strictly alternate and
    # nothing is transmitted after the reply that ended the exchange
    c.let('kinds', tuple(w[0] for w in wire))
    c.let('expected_kinds', tuple(['rx'] * (nflush + 1) + ['tx', 'rx'] * nsent))
    c.ensure('drain-then-alternate', 'kinds == expected_kinds')
    last = replies_after_flush[nsent - 1] if 1 <= nsent <= len(replies_after_flush) else None
    c.let('last', last)
    if last is None:
        c.let('answered', False)
        c.let('positive', False)
    else:
        c.snapshot('answered', 'last.header == 0xFF and len(last.data) >= 2 and last.data[0] == addr and last.data[1] == 0x18')
        c.snapshot('positive', 'answered and len(last.data) >= 3 and last.data[2] == 1')
    c.ensure('gives-up-only-after-6-transmissions', 'implies(not answered, nsent == 6)')
    if c.get('raised') is None:
        c.ensure('result-is-bool', 'result is True or result is False')
        c.ensure('done-only-on-positive-reply-to-last-transmission', 'implies(result, positive)')
        c.ensure('unanswered-or-negative-is-reported-failed', 'implies(not positive, result is False)')
        c.ensure('unanswered-reports-error-minus-1', 'implies(not answered, cl.error_code == -1)')
        # completeness (the flash was programmed, so the caller should go on): stated for the first five transmissions;
        # the sixth is the contract write_flash.sixth_reply_honoured (FINDING, see module docstring)
        c.ensure('positive-reply-is-reported-done', 'implies(positive and nsent <= 5, result is True)')
        if last is not None:
            c.ensure('answered-reports-target-error-code', 'implies(answered and nsent <= 5, cl.error_code == last.data[3])')
        if strict_last:
            c.ensure('positive-reply-to-sixth-transmission-is-reported-done', 'implies(positive, result is True)')
    else:
        # a reply of the addressed target that is too short to carry the done / error bytes
        c.ensure('raises-only-on-truncated-reply', "raised == 'IndexError' and answered and len(last.data) < 4")


REPLY_KINDS = {
    'L': None,                                                       # reply lost
    'X': 'True',                                                     # arbitrary packet
    'H': '{r}.header != 0xFF',                                       # packet of another port / channel
    'A': '{r}.header == 0xFF and not ({r}.data[0] == addr and {r}.data[1] == 0x18)',   # other target or other command
    'M': '{r}.header == 0xFF and {r}.data[0] == addr and {r}.data[1] == 0x18',          # reply to this command
}


def scripted_replies(c, kinds, n=4):
    out = []
    for i, kd in enumerate(kinds):
        if kd == 'L':
            out.append(None)
            continue
        r = reply_packet(c, 'r%d' % i, n)
        c.let('r%d' % i, r)
        c.require(REPLY_KINDS[kd].format(r='r%d' % i))
        out.append(r)
    return out


def _wf_patterns(k0, k1):
    @contract('C12', 'write_flash.patterns.%s%s' % (k0, k1), [CL + ':Cloader.write_flash'], clause=WF_CLAUSE,
              bounded='replies are lost or 4 bytes long (other lengths: write_flash.reply_lengths); downlink empty at start '
                      '(write_flash.drain); patterns: first two attempts %s,%s (L lost, H other header, A other target/command), '
                      'then every pattern of {lost, arbitrary packet} - the 9 contracts + write_flash.early are exhaustive' % (k0, k1))
    def k(c):
        args = wf_args(c)
        kinds = [k0, k1] + [c.choice('kind%d' % i, ['L', 'X']) for i in range(2, 6)]
        replies = scripted_replies(c, kinds)
        link, wire = mklink(c, [None] + replies)
        cl = cloader(c, link)
        c.reset_trace()
        c.call((cl, 'write_flash'), *args)
        wf_post(c, wire, replies, 0)
    return k


for _k0 in 'LHA':
    for _k1 in 'LHA':
        _wf_patterns(_k0, _k1)


@contract('C12', 'write_flash.early', [CL + ':Cloader.write_flash'], clause=WF_CLAUSE,
          bounded='4-byte replies; the reply of the addressed target arrives after the first or second transmission')
def wf_early(c):
    args = wf_args(c)
    kinds = c.choice('pattern', [['M'], ['L', 'M'], ['H', 'M'], ['A', 'M']])
    replies = scripted_replies(c, kinds)
    link, wire = mklink(c, [None] + replies)
    cl = cloader(c, link)
    c.reset_trace()
    c.call((cl, 'write_flash'), *args)
    wf_post(c, wire, replies, 0)
    c.ensure('no-retry-after-the-reply', 'nsent == %d' % len(kinds))


@contract('C12', 'write_flash.reply_lengths', [CL + ':Cloader.write_flash'], clause=WF_CLAUSE,
          bounded='one arbitrary packet of 0, 1, 2, 3, 5 or 12 data bytes after 0 or 5 lost replies, every other reply lost')
def wf_lengths(c):
    args = wf_args(c)
    nlost = c.choice('nlost', [0, 5])
    n = c.choice('n', [0, 1, 2, 3, 5, 12])
    replies = [None] * nlost + [reply_packet(c, 'r', n)] + [None] * (5 - nlost)
    link, wire = mklink(c, [None] + replies)
    cl = cloader(c, link)
    c.reset_trace()
    c.call((cl, 'write_flash'), *args)
    wf_post(c, wire, replies, 0)


@contract('C12', 'write_flash.drain', [CL + ':Cloader.write_flash'],
          clause=WF_CLAUSE + '; packets already waiting on the downlink (e.g. a stale positive reply) are not taken as the answer',
          bounded='0..3 arbitrary stale packets; afterwards the first or the second transmission is answered by an arbitrary packet or never')
def wf_drain(c):
    args = wf_args(c)
    nstale = c.choice('nstale', [0, 1, 2, 3])
    stale = [reply_packet(c, 's%d' % i, 4) for i in range(nstale)]
    kinds = c.choice('pattern', [['X'], ['L', 'X'], ['L'] * 6])
    replies = scripted_replies(c, kinds) + [None] * (6 - len(kinds))
    link, wire = mklink(c, stale + [None] + replies)
    cl = cloader(c, link)
    c.reset_trace()
    c.call((cl, 'write_flash'), *args)
    wf_post(c, wire, replies, nstale)


@contract('C12', 'write_flash.sixth_reply_honoured', [CL + ':Cloader.write_flash'],
          clause='FINDING (not required by C12, which only asks for a bounded retry and an abort): a positive reply to the sixth '
                 'transmission is reported as failed with error code -1 although the target has programmed the pages',
          thorough_only=True)
def wf_sixth(c):
    args = wf_args(c)
    replies = scripted_replies(c, ['L'] * 5 + ['M'])
    link, wire = mklink(c, [None] + replies)
    cl = cloader(c, link)
    c.reset_trace()
    c.call((cl, 'write_flash'), *args)
    wf_post(c, wire, replies, 0, strict_last=True)


# ------------------------------------------------------------------------- _internal_flash (modular)

def bootloader(c, cload):
    bl = c.new(BL + ':Bootloader', None)
    c.let('bl', bl)
    c.let('cload_', cload)
    c.snapshot('_', 'setattr(bl, "_cload", cload_)')
    return bl


def target_info(c, tid):
    """the geometry record the bootloader keeps per target, built by the real constructor"""
    t = c.new(BT + ':Target', tid)
    c.let('tinfo', t)
    for f in ('addr', 'ps', 'bp', 'fp', 'sp'):
        c.let('_v', c.get(f))
        c.snapshot('_', 'setattr(tinfo, %r, _v)' % {'addr': 'addr', 'ps': 'page_size', 'bp': 'buffer_pages', 'fp': 'flash_pages', 'sp': 'start_page'}[f])
    return t


def artifact(c, image, tname, typ='fw'):
    return c.namedtuple(BL + ':FlashArtifact', image, c.namedtuple(BL + ':Target', 'cf2', tname, typ, [], []), None)


IF_CLAUSE = ('an image that does not fit between the effective start page (target start page or override) and the end of the '
             'flash is refused before anything is sent; otherwise every flash-write command programs, from buffers that hold '
             'exactly the corresponding image pages, only pages inside [start, start + pages of the image) and below the flash '
             'size, every image page is programmed, and a failed flash-write aborts with an exception before anything else is sent')


def if_modular_post(c, oks, maxpages):
    """Ghost replay of the calls made on the loader against the contracts of upload_buffer (loads `data` into buffer
    `slot` at `address`) and write_flash (programs flash pages page..page+count-1 from buffers bufpage.. iff it returns True)."""
    trace = c.get('trace')
    c.snapshot('fits', 'len(image) <= (fp - first) * ps')
    c.ensure('only-loader-calls', 'all(e[0] in ("cload.upload_buffer", "cload.write_flash") for e in trace)')
    c.ensure('refused-before-anything-is-sent', "implies(not fits, raised == 'Exception' and len(trace) == 0)")
    c.ensure('image-that-fits-is-not-refused', 'implies(fits and raised is not None, len(trace) > 0)')
    buf = {}
    offs = []
    nw = 0
    prior_ok = 'True'
    for i, e in enumerate(trace):
        c.let('a', e[1])
        if e[0] == 'cload.upload_buffer':
            slot = e[1][1]
            assert isinstance(slot, int), 'ghost replay needs a concrete buffer slot'
            c.ensure('call%d-upload-in-buffer' % i, 'len(a) == 4 and a[0] == addr and 0 <= a[1] < bp and a[2] == 0 and 1 <= len(a[3]) <= ps')
            buf[slot] = e[1][3]
        elif e[0] == 'cload.write_flash':
            bufpage, count = e[1][1], e[1][3]
            assert isinstance(bufpage, int) and isinstance(count, int), 'ghost replay needs concrete buffer page and count'
            c.ensure('call%d-write-from-buffers' % i, 'len(a) == 4 and a[0] == addr and a[1] >= 0 and a[3] >= 1 and a[1] + a[3] <= bp')
            for j in range(count):
                c.snapshot('P', 'a[2] + %d' % j)
                c.ensure('call%d-page%d-inside-image-range' % (i, j), 'first <= P and (P - first) * ps < len(image)')
                c.ensure('call%d-page%d-inside-flash' % (i, j), '0 <= P < fp')
                c.let('content', buf.get(bufpage + j))
                c.ensure('call%d-page%d-holds-image-page' % (i, j),
                         'content is not None and content == image[(P - first) * ps:(P - first + 1) * ps]')
                offs.append(c.snapshot('_off', 'P - first'))
            c.let('ok', oks[nw])
            c.ensure('call%d-failed-write-aborts-at-once' % i, "implies(not ok, raised == 'Exception' and len(trace) == %d)" % (i + 1))
            prior_ok += ' and ok%d' % nw
            nw += 1
    c.let('offs', tuple(offs))
    c.snapshot('all_ok', prior_ok)
    c.ensure('no-error-when-all-writes-succeed', 'implies(fits and all_ok, raised is None)')
    c.ensure('error-only-from-refusal-or-failed-write', "implies(raised is not None, raised == 'Exception' and (not fits or not all_ok))")
    for q in range(maxpages):
        c.ensure('image-page%d-programmed' % q, 'implies(raised is None and %d * ps < len(image), any(o == %d for o in offs))' % (q, q))


def _if_modular(lens):
    @contract('C12', 'internal_flash.modular.len%d_%d' % (lens[0], lens[-1]), [BL + ':Bootloader._internal_flash'], max_paths=6000, clause=IF_CLAUSE,
              bounded='image lengths %d..%d (content symbolic), every page size from 1 to length + 1 and 1024, 65535 (all page sizes >= length '
                      'give a single page); buffer pages (>= 1), flash pages, start page, override, target address: any 16-bit / 8-bit value; '
                      'every pattern of failing flash-write commands' % (lens[0], lens[-1]))
    def if_modular(c):
        n = c.choice('n', list(lens))
        ps = c.choice('ps', list(range(1, n + 2)) + [1024, 65535])
        tname = c.choice('target', ['stm32', 'nrf51'])
        tid = {'stm32': 0xFF, 'nrf51': 0xFE}[tname]
        c.int('addr', 0, 255), c.let('ps', ps), c.int('bp', 1, 65535), c.int('fp', 0, 65535), c.int('sp', 0, 65535)
        has_override = c.choice('has_override', [False, True])
        ov = c.int('override', 0, 65535) if has_override else None
        c.let('first', ov if has_override else c.get('sp'))
        image = c.bytes('image', n)
        oks = [c.bool('ok%d' % i) for i in range(n + 1)]
        it = iter(oks)
        tinfo = target_info(c, tid)
        cload = c.ext('cload', attrs={'targets': c.dict([(tid, tinfo)]), 'error_code': 0},
                      returns={'write_flash': lambda *_a: next(it)})
        bl = bootloader(c, cload)
        c.reset_trace()
        c.call((bl, '_internal_flash'), artifact(c, image, tname), 1, 1, ov)
        if_modular_post(c, oks, n)
    return if_modular


for _lens in ((1, 2, 3, 4, 5, 6), (7, 8), (9,), (10,), (11,), (12,)):
    _if_modular(_lens)


# ------------------------------------------------------------------------- end to end: real Bootloader + real Cloader + ghost target

E2E_CLAUSE = ('flashing writes exactly the image bytes to the flash starting at the start page (or the override page), touching no '
              'page outside the range the image occupies and none beyond the flash size; an image that does not fit is refused before '
              'anything is sent; every frame fits the 32-byte radio frame; a flash-write that is not acknowledged aborts the flashing')


def le16(lo, hi):
    assert isinstance(lo, int) and isinstance(hi, int), 'ghost target needs concrete buffer page / offset / count fields'
    return lo + 256 * hi


def ghost_target(c, wire, ps, bp, n):
    """Ghost model of the bootloader target (the peer): replays everything that was put on the wire, in order.

    load-buffer  [addr, 0x14, page:le16, offset:le16, payload...]  -> BUF[page][offset + j] = payload[j]
    write-flash  [addr, 0x18, bufpage:le16, flashpage:le16, count:le16] -> FLASH[flashpage + j] = BUF[bufpage + j], j < count
    (every transmitted write-flash command is taken as executed, acknowledged or not).
    States, as obligations: every frame is addressed to the target, fits the radio frame and stays inside the buffers; every
    programmed flash page lies in [first, first + pages of the image) and below fp and receives exactly that image page.
    Returns the list of programmed page offsets relative to `first`."""
    buf = [[None] * ps for _ in range(bp)]
    offs = []
    npages = (n + ps - 1) // ps
    k = -1
    for w in wire:
        if w[0] != 'tx':
            continue
        k += 1
        c.let('hdr', w[1])
        c.let('d', w[2])
        items = c.snapshot('_items', 'tuple(d)')
        c.ensure('tx%d-addressed-and-fits-radio-frame' % k, 'hdr == 0xFF and 2 <= len(d) <= 31 and d[0] == addr')
        cmd = items[1] if len(items) > 1 else None
        if cmd == 0x14 and len(items) >= 6:
            slot, off, payload = le16(items[2], items[3]), le16(items[4], items[5]), items[6:]
            inside = slot < bp and off + len(payload) <= ps
            c.let('_b', inside)
            c.ensure('tx%d-load-stays-inside-buffer' % k, '_b')
            if inside:
                buf[slot][off:off + len(payload)] = payload
        elif cmd == 0x18 and len(items) == 8:
            bufpage, count = le16(items[2], items[3]), le16(items[6], items[7])
            inside = count >= 1 and bufpage + count <= bp
            c.let('_b', inside)
            c.ensure('tx%d-write-takes-existing-buffers' % k, '_b')
            c.snapshot('P0', "unpack('<H', d[4:6])[0]")
            for j in range(count if inside else 0):
                P = c.snapshot('P', 'P0 + %d' % j)
                c.ensure('tx%d-page%d-inside-image-range' % (k, j), 'first <= P and (P - first) * %d < %d' % (ps, n))
                c.ensure('tx%d-page%d-inside-flash' % (k, j), '0 <= P < fp')
                content = tuple(buf[bufpage + j])
                c.let('content', content)
                # "flash page P receives exactly image page P - first": proved through a witness q0 for P - first.  The witness
                # is only a hint (found by looking for the image page the buffer content is identical to); the obligation
                # itself states both that q0 is the page offset and that the content is that image page.
                q0 = None
                for q in range(npages):
                    if content[0] is None or c.snapshot('_m', 'content[0] == image[%d]' % (q * ps)) is not True:
                        continue
                    if c.snapshot('_m', 'P - first == %d' % q) is False:
                        continue
                    q0 = q
                    break
                name = 'tx%d-page%d-receives-exactly-its-image-page' % (k, j)
                if q0 is not None:
                    c.let('q0', q0)
                    c.ensure(name, 'P - first == q0 and all(content[j] == image[q0 * %d + j] for j in range(%d))' % (ps, min(ps, n - q0 * ps)))
                else:       # no witness: the statement itself (the page offset is known to be in range from the obligations above)
                    c.ensure(name, ' and '.join('implies(P - first == %d, all(content[j] == image[%d + j] for j in range(%d)))' % (
                        q, q * ps, min(ps, n - q * ps)) for q in range(npages)))
                offs.append(c.snapshot('_off', 'P - first'))
        else:
            c.ensure('tx%d-is-a-known-command' % k, 'False')
    return offs


def e2e_setup(c, ps, bp, n, receive_script, fixed_target=None):
    tname = fixed_target or c.choice('target', ['stm32', 'nrf51'])
    tid = {'stm32': 0xFF, 'nrf51': 0xFE}[tname]
    c.int('addr', 0, 255), c.let('ps', ps), c.let('bp', bp), c.int('fp', 0, 65535), c.int('sp', 0, 65535)
    has_override = c.choice('has_override', [False, True])
    ov = c.int('override', 0, 65535) if has_override else None
    c.let('first', ov if has_override else c.get('sp'))
    image = c.bytes('image', n)
    link, wire = mklink(c, receive_script(c))
    bl = c.new(BL + ':Bootloader', None)
    c.let('bl', bl)
    c.let('link', link)
    c.snapshot('cl', 'bl._cload')
    c.snapshot('_', 'setattr(cl, "link", link)')
    tinfo = target_info(c, tid)
    c.snapshot('_', 'cl.targets.update({%d: tinfo})' % tid)
    c.reset_trace()
    c.call((bl, '_internal_flash'), artifact(c, image, tname), 1, 1, ov)
    c.snapshot('fits', 'len(image) <= (fp - first) * ps')
    return wire


def ack(c, done=1, err=0):
    c.snapshot('_ackdata', "pack('<BBBB', addr, 0x18, %d, %d)" % (done, err))
    return c.new(STK + ':CRTPPacket', 0xFF, c.get('_ackdata'))


def _e2e(name, geoms, fixed_target=None, note=''):
    @contract('C12', 'flash.e2e.' + name, [BL + ':Bootloader._internal_flash', CL + ':Cloader.upload_buffer', CL + ':Cloader.write_flash'],
              clause=E2E_CLAUSE, max_paths=6000,
              bounded='(page size, buffer pages, image length) in %s%s; image content, target address, flash pages, start page and '
                      'override page symbolic (16 bit); every flash-write acknowledged at once' % (
                          geoms if len(geoms) < 12 else '%d combinations from %s to %s' % (len(geoms), geoms[0], geoms[-1]), note))
    def k(c):
        ps, bp, n = c.choice('geom', list(geoms))
        npages = (n + ps - 1) // ps
        wire = e2e_setup(c, ps, bp, n, lambda c: [x for _ in range(npages + 1) for x in (None, ack(c))], fixed_target)
        c.ensure('only-link-calls', 'all(e[0] in ("link.send_packet", "link.receive_packet") for e in trace)')
        c.ensure('refused-before-anything-is-sent', "implies(not fits, raised == 'Exception' and len(trace) == 0)")
        c.ensure('image-that-fits-is-flashed-without-error', 'implies(fits, raised is None)')
        offs = ghost_target(c, wire, ps, bp, n)
        c.let('offs', tuple(offs))
        for q in range(npages):
            c.ensure('image-page%d-programmed' % q, 'implies(raised is None, any(o == %d for o in offs))' % q)
    return k


for _ps in (1, 2, 3):
    for _bp in (1, 2, 3):
        _e2e('ps%d.bp%d' % (_ps, _bp), [(_ps, _bp, n) for n in range(1, (2 * _bp + 1) * _ps + 2)])

# pages that need several load-buffer frames (25 payload bytes per frame)
for _ps in (25, 26, 60):
    for _bp in (1, 2):
        _e2e('ps%d.bp%d' % (_ps, _bp), [(_ps, _bp, n) for n in (_ps - 1, _ps + 1, 2 * _bp * _ps, 2 * _bp * _ps + _ps // 2)])

# the page size of the real targets (Crazyflie 2.x: 1024-byte pages; nRF51 1 buffer page, STM32F405 10 buffer pages).  The ten-buffer
# geometry is run with 128-byte pages (a 12-page image of 1024-byte pages costs minutes of path-condition handling, no new case).
_e2e('real.nrf51', [(1024, 1, 2 * 1024 + 17)], fixed_target='nrf51')
_e2e('tenbuffers', [(128, 10, 11 * 128 + 50)], fixed_target='stm32', note=' (12 pages: one full buffer set, one full page, one partial page)')


@contract('C12', 'flash.e2e.failing_write', [BL + ':Bootloader._internal_flash', CL + ':Cloader.upload_buffer', CL + ':Cloader.write_flash'],
          clause=E2E_CLAUSE + ': a flash-write command that is answered negatively, or not answered by the addressed target in 6 '
                 'transmissions (replies lost or packets of somebody else arriving instead), aborts the flashing with an exception '
                 'and nothing more is sent',
          bounded='page size 2, 2 buffer pages, 11-byte image (three flash-write commands); the first, second or third command fails')
def e2e_failing(c):
    ps, bp, n = 2, 2, 11
    which = c.choice('which', [0, 1, 2])
    how = c.choice('how', ['nack', 'lost', 'stray'])

    def script(c):
        out = []
        for _ in range(which):
            out += [None, ack(c)]
        if how == 'nack':
            out += [None, ack(c, 0, 2)]
        elif how == 'lost':
            out += [None] * 7
        else:
            out += [None] + scripted_replies(c, ['A'] * 6)
        return out + [None] * 40      # should the flashing go on regardless: every later reply is lost
    wire = e2e_setup(c, ps, bp, n, script)
    c.require('fits')
    c.ensure('aborts-with-exception', "raised == 'Exception'")
    ghost_target(c, wire, ps, bp, n)
    txs = [w for w in wire if w[0] == 'tx']
    cmds = []
    for t in txs:
        c.let('d', t[2])
        cmds.append(c.snapshot('_cmd', 'd[1]'))
    c.let('cmds', tuple(cmds))
    c.ensure('failed-command-sent-a-bounded-number-of-times', 'sum(1 for x in cmds if x == 0x18) == %d' % (which + (1 if how == 'nack' else 6)))
    c.ensure('nothing-sent-after-the-failed-command', 'len(cmds) > 0 and cmds[-1] == 0x18')
    c.ensure('no-load-after-failure', 'sum(1 for x in cmds if x == 0x14) == %d' % (2 * (which + 1)))
