"""C12 - flashing writes exactly the image, nowhere else.

Functions under contract: Bootloader._internal_flash, Cloader.upload_buffer, Cloader.write_flash (real code, real constructors of
Bootloader, Cloader, boottypes.Target, CRTPPacket).  The radio link is the only external object; its send_packet records what is
on the wire AT SEND TIME (header byte + copy of the data), its receive_packet answers from a script.

The peer is specified here, independently of the library (bootloader protocol of the Crazyflie 2.x targets, little endian):
  load-buffer  [addr, 0x14, bufpage:u16, offset:u16, payload ...]      BUF[bufpage][offset + j] = payload[j]
  write-flash  [addr, 0x18, bufpage:u16, flashpage:u16, count:u16]     FLASH[flashpage + j] = BUF[bufpage + j] for j < count,
               answered by [addr, 0x18, done, error] on port/channel 0xFF; done == 1 means programmed
  a radio frame carries one header byte and at most 31 data bytes.
This table is an assumption about the firmware (not in the sandbox) and is part of the trusted base.

Clauses of DESIGN.md section C12 and where they are decided
  O1 refusal of an image that does not fit, nothing sent ......... internal_flash.modular.*, flash.e2e.* (also with override page)
  O2 upload_buffer frames: header, <= 31 bytes, contiguous exact cover, right offsets ... upload_buffer.len* (lengths 0..83, i.e.
     up to four frames; enumerated instead of the loop invariant: the loop is a `for`, which the engine only unrolls) and
     flash.e2e.* for whole pages incl. 1024-byte pages (41 frames)
  O3 _internal_flash page bookkeeping: every programmed page inside [first, first + pages) and below flash_pages, holds exactly its
     image page, every image page programmed, final partial flush ........ internal_flash.modular.* (against the contracts of
     upload_buffer / write_flash, geometry symbolic except page size) and flash.e2e.* (real Cloader, ghost target replaying the wire)
  O4 write_flash: at most 6 transmissions of the same command, False/-1 when unanswered, done only on a positive reply of the
     addressed target to the last transmission, stale downlink packets drained first ......... write_flash.*;
     a False result aborts _internal_flash before anything else is sent ......... internal_flash.modular.*, flash.e2e.failing_write
  UI callbacks (progress / terminate) change nothing that is sent ............ internal_flash.callbacks
  (extension round)
  O5 the geometry used is what the addressed target reported in its info reply; unanswered: no record invented / changed ..........
     update_info.geometry, update_info.unanswered (Cloader._update_info, request_info_update, check_link_and_get_info, Bootloader.get_target)
  O6 several images on ONE Bootloader / Cloader: every target ends up with exactly its images, a failed flash-write aborts the whole
     sequence, a second flashing after a success / refusal / termination / abort starts from scratch .......... flash_flash.e2e,
     internal_flash.second-use; an image for an unknown target is written nowhere .......... internal_flash.unknown-target
  O7 Bootloader.flash / flash_full (release files, cold boot): which file goes where, override page of the bootloader+softdevice image,
     geometry asked again after the reconnect (no stale start page), deck / other-platform files never reach the MCU flash, abort on a
     failed flash-write .......... flash.release.*, flash_full.* (reactive peer model `mkpeer`, ghost flash `ghost_flash`)
  O2' a packet handed to the link is not modified afterwards (the radio driver serialises it later) .......... upload_buffer.len*,
     every contract that uses ghost_flash

Bounds (all stated in the `bounded=` option of the contracts; inside a bound every path is explored and every value left symbolic is
unrestricted): loops over the image are unrolled, so image lengths and page sizes are enumerated (modular: lengths 1..12 with every
page size 0..length+1, 1024, 65535; end to end: page sizes 1, 2, 3 with 1..3 buffer pages and every length up to two buffer sets plus
one page plus one byte; 25, 26, 60 (multi-frame pages); 1024-byte pages with one buffer; 10 buffers with 128-byte pages).  Buffer
pages, flash pages, start page, override page, target address and image content are symbolic.  write_flash replies: lost or 4 data
bytes in every pattern over the 6 attempts, other lengths in write_flash.reply_lengths.

Not covered, and why
  * image of length 0: ZeroDivisionError in the progress factor before anything is sent (the property starts at 1 byte);
  * page_size == 0 is covered (always refused); buffer_pages == 0 is excluded (a target without buffers cannot be flashed);
  * geometry values above 16 bit cannot come out of the info packet ('H' fields) and are excluded; upload_buffer is specified for
    offsets that stay inside a 16-bit page (address + len <= 65535), beyond that struct.error is raised after some frames went out;
  * Bootloader.flash / flash_full are covered for COLD boot with concrete small geometries (flash.release.*, flash_full.*); stubs of the
    contract there: the zip reader (_get_flash_artifacts_from_zip: zipfile / json / importlib.resources are outside the engine), packaging's
    Version, the radio reset procedure (Cloader.reset_to_bootloader / reset_to_firmware), scan_for_bootloader, cflib.crtp.get_link_driver,
    _get_boot_delay.  Warm boot (start_bootloader(warm_boot=True)), the deck update after a warm boot (_flash_deck_incrementally: decks are
    written through the memory subsystem, not through this bootloader protocol) and read_flash are not covered.  The link driver itself
    (radio, retries of the radio layer, real time-outs) is external: receive_packet's timeout argument is not interpreted;
  * end-to-end image lengths / page counts beyond the enumerated ones; the any-length statements are the loop-invariant contracts
    upload_buffer.inductive and internal_flash.inductive.* (page sizes enumerated AND, in internal_flash.inductive.psANY, any page size
    1..65535).  int((len - 1) / page_size) is evaluated in floating point by the library: the inductive contracts use float_mode R
    (mathematical division), so lengths >= 2**53 are not proved;
  * a truncated (2 or 3 byte) reply of the addressed target raises IndexError out of write_flash (stated as such in wf_post; the
    flashing aborts, nothing more is sent).

OBSERVATION 2 (not an obligation; shown, with its actual behaviour, by flash.release.sd-odd-length): Bootloader.flash blanks the first firmware
page of the nRF51 BEFORE it flashes the bootloader+softdevice image with page override flash_pages - len // page_size; when the length of that
image is not a whole number of pages the override is one page too high, _internal_flash refuses the image ("Not enough space") and flash() ends
with an exception, leaving the blanked firmware page behind.  Each single image obeys C12 (the refused one is refused before anything of it is
sent; the blank page is an image of its own), and the shipped nrf51-s110-and-bl.bin is 94 * 1024 bytes, so this is reported, not counted.

OBSERVATION (not an obligation; C12 only asks for bounded retries and an abort): a positive reply to the sixth and last
transmission is reported as failed (False, error_code -1) although the target programmed the pages; C12 only asks for a bounded retry
followed by an abort, so the property itself holds.
"""
from pyvc.api import contract

BL = 'cflib.bootloader'
CL = 'cflib.bootloader.cloader'
BT = 'cflib.bootloader.boottypes'
STK = 'cflib.crtp.crtpstack'


def mklink(c, replies):
    """External radio link.  `send_packet` records what is on the wire AT SEND TIME (header byte and a copy of the
    data bytes) in the ghost list `wire`; `receive_packet` answers from the scripted `replies` (running out of
    scripted replies is a contract error, never a pass)."""
    wire = []
    it = iter(replies)

    def send(I, args, kw):
        pk = args[0]
        if I is None:
            wire.append(('tx', pk.header, bytes(pk.data)))
        else:
            wire.append(('tx', I.getattr(pk, 'header'), I.call(I.models.builtin(I, 'bytes'), [I.getattr(pk, 'data')], {})))
        return None

    def recv(I, args, kw):
        r = next(it)
        wire.append(('rx', r, None))
        return r
    link = c.ext('link', returns={'send_packet': send, 'receive_packet': recv})
    return link, wire


def cloader(c, link):
    cl = c.new(CL + ':Cloader', None)
    c.let('cl', cl)
    c.let('link', link)
    c.snapshot('_', 'setattr(cl, "link", link)')
    return cl


def _upload(lens, thorough_only=False):
    @contract('C12', 'upload_buffer.len%d_%d' % (lens[0], lens[-1]), [CL + ':Cloader.upload_buffer'], thorough_only=thorough_only,
              clause='buffer-upload messages fit the 32-byte radio frame and cover every byte exactly once at the right offset',
              bounded='buffer lengths %d..%d enumerated' % (lens[0], lens[-1]))
    def k(c):
        n = c.choice('n', list(lens))
        link, wire = mklink(c, [])
        cl = cloader(c, link)
        c.int('tid', 0, 255), c.int('page', 0, 65535), c.int('address', 0, 65535)
        buff = c.bytes('buff', n)
        c.require('address + len(buff) <= 65535')
        c.reset_trace()
        c.call((cl, 'upload_buffer'), c.get('tid'), c.get('page'), c.get('address'), buff)
        c.ensure('no-exception', 'raised is None')
        c.ensure('only-sends', 'all(e[0] == "link.send_packet" for e in trace)')
        c.ensure('one-packet-per-send', 'len(trace) == %d' % len(wire))
        off = 0
        for i, w in enumerate(wire):
            c.let('hdr', w[1])
            c.let('d', w[2])
            ln = c.snapshot('ln', 'len(d)')
            c.ensure('frame%d-fits-radio-frame' % i, 'hdr == 0xFF and 6 <= len(d) <= 31')
            c.let('off', off)
            c.let('pl', max(ln - 6, 0))
            c.ensure('frame%d-layout' % i, "d[:6] == pack('<BBHH', tid, 0x14, page, address + off) and d[6:] == buff[off:off + pl]")
            if i < len(wire) - 1:
                c.ensure('frame%d-not-empty' % i, 'pl > 0')
            # the link driver keeps the packet object (the real radio driver queues it and serialises it later): what was handed over
            # must still be what it was at send time when upload_buffer returns
            c.ensure('frame%d-not-modified-after-send' % i, 'trace[%d][1][0].header == hdr and bytes(trace[%d][1][0].data) == d' % (i, i))
            off += max(ln - 6, 0)
        c.let('off', off)
        c.ensure('every-byte-covered', 'off == len(buff)')
    return k


for _lo in (0, 21, 42, 63):
    _upload(range(_lo, _lo + 21))
for _lo in (84, 105, 126, 147):          # thorough tier: up to eight frames (the any-length statement is upload_buffer.inductive)
    _upload(range(_lo, _lo + 21), thorough_only=True)


# ------------------------------------------------------------------------- write_flash

WF_CLAUSE = ('a flash-write command that fails or goes unanswered is retried a bounded number of times (at most 6 transmissions '
             'of the same command) and is reported as failed; it is reported as done only on a positive reply of the addressed '
             'target to the last transmission')


PAD = [None] * 6     # replies (all lost) beyond the sixth, should the code retry more often than allowed


def reply_packet(c, name, n):
    """a received packet with arbitrary header byte and n arbitrary data bytes, built by the real constructor"""
    h = c.int(name + '_h', 0, 255)
    d = c.bytearray(name + '_d', n)
    return c.new(STK + ':CRTPPacket', h, d)


def wf_args(c):
    c.int('addr', 0, 255), c.int('pbuf', 0, 65535), c.int('tpage', 0, 65535), c.int('count', 0, 65535)
    return [c.get(x) for x in ('addr', 'pbuf', 'tpage', 'count')]


def wf_post(c, wire, replies_after_flush, nflush, strict_last=False):
    """post-conditions of write_flash; replies_after_flush[k] is what the link delivers after the k-th transmission"""
    txs = [w for w in wire if w[0] == 'tx']
    nsent = len(txs)
    c.let('nsent', nsent)
    c.ensure('only-link-calls', 'all(e[0] in ("link.send_packet", "link.receive_packet") for e in trace)')
    c.ensure('bounded-transmissions', '1 <= nsent <= 6')
    for i, w in enumerate(txs):
        c.let('hdr', w[1])
        c.let('d', w[2])
        c.ensure('tx%d-is-the-flash-write-command' % i, "hdr == 0xFF and d == pack('<BBHHH', addr, 0x18, pbuf, tpage, count)")
    # order on the wire: the downlink is drained first, then transmission and reception strictly alternate and
    # nothing is transmitted after the reply that ended the exchange
    c.let('kinds', tuple(w[0] for w in wire))
    c.let('expected_kinds', tuple(['rx'] * (nflush + 1) + ['tx', 'rx'] * nsent))
    c.ensure('drain-then-alternate', 'kinds == expected_kinds')
    last = replies_after_flush[nsent - 1] if 1 <= nsent <= len(replies_after_flush) else None
    c.let('last', last)
    if last is None:
        c.let('answered', False)
        c.let('positive', False)
    else:
        c.snapshot('answered', 'last.header == 0xFF and len(last.data) >= 2 and last.data[0] == addr and last.data[1] == 0x18')
        c.snapshot('positive', 'answered and len(last.data) >= 3 and last.data[2] == 1')
    c.ensure('gives-up-only-after-6-transmissions', 'implies(not answered, nsent == 6)')
    if c.get('raised') is None:
        c.ensure('result-is-bool', 'result is True or result is False')
        c.ensure('done-only-on-positive-reply-to-last-transmission', 'implies(result, positive)')
        c.ensure('unanswered-or-negative-is-reported-failed', 'implies(not positive, result is False)')
        c.ensure('unanswered-reports-error-minus-1', 'implies(not answered, cl.error_code == -1)')
        # completeness (the flash was programmed, so the caller should go on): stated for the first five transmissions;
        # the sixth is the contract write_flash.sixth_reply_honoured (FINDING, see module docstring)
        c.ensure('positive-reply-is-reported-done', 'implies(positive and nsent <= 5, result is True)')
        if last is not None:
            c.ensure('answered-reports-target-error-code', 'implies(answered and nsent <= 5, cl.error_code == last.data[3])')
        if strict_last:
            c.ensure('positive-reply-to-sixth-transmission-is-reported-done', 'implies(positive, result is True)')
    else:
        # a reply of the addressed target that is too short to carry the done / error bytes
        if last is None:
            c.ensure('raises-only-on-truncated-reply', 'False')
        else:
            c.ensure('raises-only-on-truncated-reply', "raised == 'IndexError' and answered and len(last.data) < 4")


REPLY_KINDS = {
    'L': None,                                                       # reply lost
    'X': 'True',                                                     # arbitrary packet
    'H': '{r}.header != 0xFF',                                       # packet of another port / channel
    'A': '{r}.header == 0xFF and not ({r}.data[0] == addr and {r}.data[1] == 0x18)',   # other target or other command
    'M': '{r}.header == 0xFF and {r}.data[0] == addr and {r}.data[1] == 0x18',          # reply to this command
}


def scripted_replies(c, kinds, n=4):
    out = []
    for i, kd in enumerate(kinds):
        if kd == 'L':
            out.append(None)
            continue
        r = reply_packet(c, 'r%d' % i, n)
        c.let('r%d' % i, r)
        c.require(REPLY_KINDS[kd].format(r='r%d' % i))
        out.append(r)
    return out


def _wf_patterns(k0, k1):
    @contract('C12', 'write_flash.patterns.%s%s' % (k0, k1), [CL + ':Cloader.write_flash'], clause=WF_CLAUSE,
              bounded='replies are lost or 4 bytes long (other lengths: write_flash.reply_lengths); downlink empty at start '
                      '(write_flash.drain); patterns: first two attempts %s,%s (L lost, H other header, A other target/command), '
                      'then every pattern of {lost, arbitrary packet} - the 9 contracts + write_flash.early are exhaustive' % (k0, k1))
    def k(c):
        args = wf_args(c)
        kinds = [k0, k1] + [c.choice('kind%d' % i, ['L', 'X']) for i in range(2, 6)]
        replies = scripted_replies(c, kinds)
        link, wire = mklink(c, [None] + replies + PAD)
        cl = cloader(c, link)
        c.reset_trace()
        c.call((cl, 'write_flash'), *args)
        wf_post(c, wire, replies, 0)
    return k


for _k0 in 'LHA':
    for _k1 in 'LHA':
        _wf_patterns(_k0, _k1)


@contract('C12', 'write_flash.early', [CL + ':Cloader.write_flash'], clause=WF_CLAUSE,
          bounded='4-byte replies; the reply of the addressed target arrives after the first or second transmission')
def wf_early(c):
    args = wf_args(c)
    kinds = c.choice('pattern', [['M'], ['L', 'M'], ['H', 'M'], ['A', 'M']])
    replies = scripted_replies(c, kinds)
    link, wire = mklink(c, [None] + replies + PAD)
    cl = cloader(c, link)
    c.reset_trace()
    c.call((cl, 'write_flash'), *args)
    wf_post(c, wire, replies, 0)
    c.ensure('no-retry-after-the-reply', 'nsent == %d' % len(kinds))


def _wf_lengths(name, nlosts, ns, thorough_only=False):
    return contract('C12', name, [CL + ':Cloader.write_flash'], clause=WF_CLAUSE, thorough_only=thorough_only,
                    bounded='one arbitrary packet of %s data bytes after %s lost replies, every other reply lost' % (
                        ', '.join(map(str, ns)) if len(ns) < 8 else '%d..%d' % (ns[0], ns[-1]),
                        ' or '.join(map(str, nlosts))))(lambda c: wf_lengths(c, nlosts, ns))


def wf_lengths(c, nlosts, ns):
    args = wf_args(c)
    nlost = c.choice('nlost', list(nlosts))
    n = c.choice('n', list(ns))
    replies = [None] * nlost + [reply_packet(c, 'r', n)] + [None] * (5 - nlost)
    link, wire = mklink(c, [None] + replies + PAD)
    cl = cloader(c, link)
    c.reset_trace()
    c.call((cl, 'write_flash'), *args)
    wf_post(c, wire, replies, 0)


_wf_lengths('write_flash.reply_lengths', [0, 5], [0, 1, 2, 3, 5, 12])
_wf_lengths('write_flash.reply_lengths.all', [0, 1, 2, 3, 4, 5], list(range(0, 32)), thorough_only=True)   # every length a radio frame can carry


def _wf_drain(name, stales, thorough_only=False):
    return contract('C12', name, [CL + ':Cloader.write_flash'], thorough_only=thorough_only,
                    clause=WF_CLAUSE + '; packets already waiting on the downlink (e.g. a stale positive reply) are not taken as the answer',
                    bounded='%d..%d arbitrary stale packets; afterwards the first or the second transmission is answered by an arbitrary packet '
                            'or never' % (stales[0], stales[-1]))(lambda c: wf_drain(c, stales))


def wf_drain(c, stales):
    args = wf_args(c)
    nstale = c.choice('nstale', list(stales))
    stale = [reply_packet(c, 's%d' % i, 4) for i in range(nstale)]
    kinds = c.choice('pattern', [['X'], ['L', 'X'], ['L'] * 6])
    replies = scripted_replies(c, kinds) + [None] * (6 - len(kinds))
    link, wire = mklink(c, stale + [None] + replies + PAD)
    cl = cloader(c, link)
    c.reset_trace()
    c.call((cl, 'write_flash'), *args)
    wf_post(c, wire, replies, nstale)


_wf_drain('write_flash.drain', [0, 1, 2, 3])
_wf_drain('write_flash.drain.more', [4, 5, 6, 7, 8], thorough_only=True)


# (an observation that is NOT a violation of C12 - a positive reply to the sixth and last transmission is reported as failed -
#  is described in DESIGN.md; it is deliberately not an obligation: the property only asks for a bounded retry and an abort.)


# ------------------------------------------------------------------------- _internal_flash (modular)

def bootloader(c, cload):
    bl = c.new(BL + ':Bootloader', None)
    c.let('bl', bl)
    c.let('cload_', cload)
    c.snapshot('_', 'setattr(bl, "_cload", cload_)')
    return bl


def target_info(c, tid):
    """the geometry record the bootloader keeps per target, built by the real constructor"""
    t = c.new(BT + ':Target', tid)
    c.let('tinfo', t)
    for name, field in (('addr', 'addr'), ('ps', 'page_size'), ('bp', 'buffer_pages'), ('fp', 'flash_pages'), ('sp', 'start_page')):
        c.let('_v', c.get(name))
        c.snapshot('_', 'setattr(tinfo, %r, _v)' % field)
    return t


def artifact(c, image, tname, typ='fw'):
    return c.namedtuple(BL + ':FlashArtifact', image, c.namedtuple(BL + ':Target', 'cf2', tname, typ, [], []), None)


IF_CLAUSE = ('an image that does not fit between the effective start page (target start page or override) and the end of the '
             'flash is refused before anything is sent; otherwise every flash-write command programs, from buffers that hold '
             'exactly the corresponding image pages, only pages inside [start, start + pages of the image) and below the flash '
             'size, every image page is programmed, and a failed flash-write aborts with an exception before anything else is sent')


def replay_loader_calls(c, calls, oks):
    """Ghost replay of the calls made on the loader, against the contracts of upload_buffer (loads `data` into buffer `slot` at
    `address`; proved in upload_buffer.*) and write_flash (the target programs flash pages page .. page+count-1 from buffers
    bufpage ..; True only if it confirmed that; proved in write_flash.*).  Every transmitted flash-write command is taken as
    executed.  calls: (index in the trace, (name, args, kwargs)).  Returns the programmed page offsets relative to `first` and
    the expression 'every flash-write so far succeeded'."""
    buf = {}
    offs = []
    nw = 0
    all_ok = 'True'
    for i, e in calls:
        c.let('a', e[1])
        if e[0] == 'cload.upload_buffer':
            slot = e[1][1]
            assert isinstance(slot, int), 'ghost replay needs a concrete buffer slot'
            c.ensure('call%d-upload-in-buffer' % i, 'len(a) == 4 and a[0] == addr and 0 <= a[1] < bp and a[2] == 0 and 1 <= len(a[3]) <= ps')
            buf[slot] = e[1][3]
        else:
            bufpage, count = e[1][1], e[1][3]
            assert isinstance(bufpage, int) and isinstance(count, int), 'ghost replay needs concrete buffer page and count'
            c.ensure('call%d-write-from-buffers' % i, 'len(a) == 4 and a[0] == addr and a[1] >= 0 and a[3] >= 1 and a[1] + a[3] <= bp')
            for j in range(count):
                c.snapshot('P', 'a[2] + %d' % j)
                c.ensure('call%d-page%d-inside-image-range' % (i, j), 'first <= P and (P - first) * ps < len(image)')
                c.ensure('call%d-page%d-inside-flash' % (i, j), '0 <= P < fp')
                c.let('content', buf.get(bufpage + j))
                c.ensure('call%d-page%d-holds-image-page' % (i, j),
                         'content is not None and content == image[(P - first) * ps:(P - first + 1) * ps]')
                offs.append(c.snapshot('_off', 'P - first'))
            c.let('ok', oks[nw])
            c.ensure('call%d-failed-write-aborts-at-once' % i, "implies(not ok, raised == 'Exception' and len(trace) == %d)" % (i + 1))
            all_ok += ' and ok%d' % nw
            nw += 1
    return offs, all_ok


def modular_setup(c, n, ps, cload_returns):
    tname = c.choice('target', ['stm32', 'nrf51'])
    tid = {'stm32': 0xFF, 'nrf51': 0xFE}[tname]
    c.int('addr', 0, 255), c.let('ps', ps), c.int('bp', 1, 65535), c.int('fp', 0, 65535), c.int('sp', 0, 65535)
    has_override = c.choice('has_override', [False, True])
    ov = c.int('override', 0, 65535) if has_override else None
    c.let('first', ov if has_override else c.get('sp'))
    image = c.bytes('image', n)
    tinfo = target_info(c, tid)
    cload = c.ext('cload', attrs={'targets': c.dict([(tid, tinfo)]), 'error_code': 0}, returns=cload_returns)
    bl = bootloader(c, cload)
    return bl, artifact(c, image, tname), ov


def _if_modular(lens, thorough_only=False):
    @contract('C12', 'internal_flash.modular.len%d_%d' % (lens[0], lens[-1]), [BL + ':Bootloader._internal_flash'], max_paths=20000, clause=IF_CLAUSE,
              thorough_only=thorough_only,
              bounded='image lengths %d..%d (content symbolic), page sizes 0 .. length + 1 and 1024, 65535 (every page size >= length gives '
                      'a single page); buffer pages (>= 1), flash pages, start page, override, target address: any 16-bit / 8-bit value; '
                      'every pattern of failing flash-write commands' % (lens[0], lens[-1]))
    def if_modular(c):
        n = c.choice('n', list(lens))
        ps = c.choice('ps', list(range(0, n + 2)) + [1024, 65535])
        oks = [c.bool('ok%d' % i) for i in range(n + 1)]
        it = iter(oks)
        bl, art, ov = modular_setup(c, n, ps, {'write_flash': lambda *_a: next(it)})
        c.reset_trace()
        c.call((bl, '_internal_flash'), art, 1, 1, ov)
        trace = c.get('trace')
        c.snapshot('fits', 'len(image) <= (fp - first) * ps')
        c.ensure('only-loader-calls', 'all(e[0] in ("cload.upload_buffer", "cload.write_flash") for e in trace)')
        c.ensure('refused-before-anything-is-sent', "implies(not fits, raised == 'Exception' and len(trace) == 0)")
        offs, all_ok = replay_loader_calls(c, list(enumerate(trace)), oks)
        c.let('offs', tuple(offs))
        c.snapshot('all_ok', all_ok)
        c.ensure('no-error-when-all-writes-succeed', 'implies(fits and all_ok, raised is None)')
        c.ensure('error-only-from-refusal-or-failed-write', "implies(raised is not None, raised == 'Exception' and (not fits or not all_ok))")
        for q in range(n):
            c.ensure('image-page%d-programmed' % q, 'implies(raised is None and %d * ps < len(image), any(o == %d for o in offs))' % (q, q))
    return if_modular


@contract('C12', 'internal_flash.failed-write-aborts', [BL + ':Bootloader._internal_flash'], max_paths=4000,
          clause='a failed flash-write aborts with an exception before anything else is sent (the abort clause of ' 'IF_CLAUSE on its own: small, so that a change which removes the abort is reported quickly instead of through the ' 'exponentially larger exploration it causes in internal_flash.modular.*)',
          bounded='image lengths 1..4 (content symbolic), page size 1, buffer pages 1..2: the k-th flash-write command (k = 0..3) is the ' 'first that fails; flash pages, start page, override, target address: any 16-bit / 8-bit value')
def if_failed_write_aborts(c):
    n = c.choice('n', [1, 2, 3, 4])
    k = c.choice('k', list(range(0, 4)))
    oks = [i != k for i in range(n + 1)]
    it = iter(oks)
    bl, art, ov = modular_setup(c, n, 1, {'write_flash': lambda *_a: next(it)})
    c.require('bp <= 2')
    c.reset_trace()
    c.call((bl, '_internal_flash'), art, 1, 1, ov)
    trace = c.get('trace')
    nw = len([e for e in trace if e[0] == 'cload.write_flash'])
    c.let('nw', nw)
    c.let('k', k)
    c.let('last_is_write', len(trace) > 0 and trace[-1][0] == 'cload.write_flash')
    c.snapshot('fits', 'len(image) <= (fp - first) * ps')
    c.ensure('no-flash-write-after-the-failed-one', 'nw <= k + 1')
    c.ensure('failed-write-raises', "implies(nw == k + 1, raised == 'Exception')")
    c.ensure('nothing-sent-after-the-failed-write', 'implies(nw == k + 1, last_is_write)')
    c.ensure('no-error-when-no-write-failed', "implies(fits and nw <= k, raised is None)")


for _lens in ((1, 2, 3, 4, 5, 6), (7, 8), (9,), (10,), (11,), (12,)):
    _if_modular(_lens)
for _lens in ((13,), (14,), (15,)):       # thorough tier (any length: internal_flash.inductive.*)
    _if_modular(_lens, thorough_only=True)


@contract('C12', 'internal_flash.callbacks', [BL + ':Bootloader._internal_flash'],
          clause=IF_CLAUSE + ' - with the UI callbacks installed: progress reporting changes nothing that is sent, and a termination '
                 'request aborts with an exception before the next page is loaded',
          bounded='image length 5, page size 1, 2, 3 or 5; every pattern of termination requests; flash-write commands succeed')
def if_callbacks(c):
    n = 5
    ps = c.choice('ps', [1, 2, 3, 5])
    stops = [c.bool('stop%d' % i) for i in range(n + 1)]
    it = iter(stops)
    bl, art, ov = modular_setup(c, n, ps, {'write_flash': True})
    c.let('pcb', c.ext('progress_cb'))
    c.let('tcb', c.ext('terminate_cb', returns={'()': lambda *_a: next(it)}))
    c.snapshot('_', 'setattr(bl, "progress_cb", pcb)')
    c.snapshot('_', 'setattr(bl, "terminate_flashing_cb", tcb)')
    c.reset_trace()
    c.call((bl, '_internal_flash'), art, 1, 1, ov)
    trace = c.get('trace')
    c.snapshot('fits', 'len(image) <= (fp - first) * ps')
    c.ensure('only-loader-and-callback-calls', 'all(e[0] in ("cload.upload_buffer", "cload.write_flash", "progress_cb", "terminate_cb") for e in trace)')
    c.ensure('refused-before-anything-is-sent', "implies(not fits, raised == 'Exception' and not any(e[0].startswith('cload.') for e in trace))")
    asked = sum(1 for e in trace if e[0] == 'terminate_cb')
    c.snapshot('stopped', ' or '.join(['False'] + ['stop%d' % i for i in range(asked)]))
    offs, _ = replay_loader_calls(c, [(i, e) for i, e in enumerate(trace) if e[0].startswith('cload.')], [True] * (n + 1))
    c.let('offs', tuple(offs))
    c.ensure('raises-iff-refused-or-terminated', "iff(raised is not None, not fits or stopped)")
    c.ensure('abort-is-an-exception', "implies(raised is not None, raised == 'Exception')")
    c.ensure('nothing-sent-after-termination-request', 'implies(stopped, trace[-1][0] == "terminate_cb")')
    for q in range(n):
        c.ensure('image-page%d-programmed' % q, 'implies(raised is None and %d * ps < len(image), any(o == %d for o in offs))' % (q, q))


# ------------------------------------------------------------------------- end to end: real Bootloader + real Cloader + ghost target

E2E_CLAUSE = ('flashing writes exactly the image bytes to the flash starting at the start page (or the override page), touching no '
              'page outside the range the image occupies and none beyond the flash size; an image that does not fit is refused before '
              'anything is sent; every frame fits the 32-byte radio frame; a flash-write that is not acknowledged aborts the flashing')


def le16(lo, hi):
    assert isinstance(lo, int) and isinstance(hi, int), 'ghost target needs concrete buffer page / offset / count fields'
    return lo + 256 * hi


def ghost_target(c, wire, ps, bp, n):
    """Ghost model of the bootloader target (the peer): replays everything that was put on the wire, in order.

    load-buffer  [addr, 0x14, page:le16, offset:le16, payload...]  -> BUF[page][offset + j] = payload[j]
    write-flash  [addr, 0x18, bufpage:le16, flashpage:le16, count:le16] -> FLASH[flashpage + j] = BUF[bufpage + j], j < count
    (every transmitted write-flash command is taken as executed, acknowledged or not).
    States, as obligations: every frame is addressed to the target, fits the radio frame and stays inside the buffers; every
    programmed flash page lies in [first, first + pages of the image) and below fp and receives exactly that image page.
    Returns the list of programmed page offsets relative to `first`."""
    buf = [[None] * ps for _ in range(bp)]
    offs = []
    npages = (n + ps - 1) // ps
    k = -1
    for w in wire:
        if w[0] != 'tx':
            continue
        k += 1
        c.let('hdr', w[1])
        c.let('d', w[2])
        items = c.snapshot('_items', 'tuple(d)')
        c.ensure('tx%d-addressed-and-fits-radio-frame' % k, 'hdr == 0xFF and 2 <= len(d) <= 31 and d[0] == addr')
        cmd = items[1] if len(items) > 1 else None
        if cmd == 0x14 and len(items) >= 6:
            slot, off, payload = le16(items[2], items[3]), le16(items[4], items[5]), items[6:]
            inside = slot < bp and off + len(payload) <= ps
            c.let('_b', inside)
            c.ensure('tx%d-load-stays-inside-buffer' % k, '_b')
            if inside:
                buf[slot][off:off + len(payload)] = payload
        elif cmd == 0x18 and len(items) == 8:
            bufpage, count = le16(items[2], items[3]), le16(items[6], items[7])
            inside = count >= 1 and bufpage + count <= bp
            c.let('_b', inside)
            c.ensure('tx%d-write-takes-existing-buffers' % k, '_b')
            c.snapshot('P0', "unpack('<H', d[4:6])[0]")
            for j in range(count if inside else 0):
                P = c.snapshot('P', 'P0 + %d' % j)
                c.ensure('tx%d-page%d-inside-image-range' % (k, j), 'first <= P and (P - first) * %d < %d' % (ps, n))
                c.ensure('tx%d-page%d-inside-flash' % (k, j), '0 <= P < fp')
                content = tuple(buf[bufpage + j])
                c.let('content', content)
                # "flash page P receives exactly image page P - first".  The native side always evaluates the statement itself.
                # The symbolic side proves it through a witness q0 for P - first (the image page the buffer content is
                # syntactically identical to): "P - first == q0 and content == page q0" implies the statement; it is an
                # auxiliary obligation (class A), and without a witness the statement itself is the obligation.
                name = 'tx%d-page%d-receives-exactly-its-image-page' % (k, j)
                q0 = None
                if c.backend == 'sym':
                    for q in range(npages):
                        if content[0] is not None and c.snapshot('_m', 'content[0] == image[%d]' % (q * ps)) is True and \
                                c.snapshot('_m', 'P - first == %d' % q) is not False:
                            q0 = q
                            break
                if q0 is not None:
                    c.let('q0', q0)
                    c.ensure(name + '/by-witness', 'P - first == q0 and all(content[j] == image[q0 * %d + j] for j in range(%d))' % (
                        ps, min(ps, n - q0 * ps)), cls='A')
                else:
                    c.ensure(name, '0 <= P - first < %d and ' % npages + ' and '.join(
                        'implies(P - first == %d, all(content[j] == image[%d + j] for j in range(%d)))' % (q, q * ps, min(ps, n - q * ps))
                        for q in range(npages)))
                offs.append(c.snapshot('_off', 'P - first'))
        else:
            c.ensure('tx%d-is-a-known-command' % k, 'False')
    return offs


def e2e_setup(c, ps, bp, n, receive_script, fixed_target=None, require_fits=False):
    tname = fixed_target or c.choice('target', ['stm32', 'nrf51'])
    tid = {'stm32': 0xFF, 'nrf51': 0xFE}[tname]
    c.int('addr', 0, 255), c.let('ps', ps), c.let('bp', bp), c.int('fp', 0, 65535), c.int('sp', 0, 65535)
    has_override = c.choice('has_override', [False, True])
    ov = c.int('override', 0, 65535) if has_override else None
    c.let('first', ov if has_override else c.get('sp'))
    image = c.bytes('image', n)
    link, wire = mklink(c, receive_script(c))
    bl = c.new(BL + ':Bootloader', None)
    c.let('bl', bl)
    c.let('link', link)
    c.snapshot('cl', 'bl._cload')
    c.snapshot('_', 'setattr(cl, "link", link)')
    tinfo = target_info(c, tid)
    c.snapshot('_', 'cl.targets.update({%d: tinfo})' % tid)
    c.snapshot('fits', 'len(image) <= (fp - first) * ps')
    if require_fits:
        c.require('fits')
    c.reset_trace()
    c.call((bl, '_internal_flash'), artifact(c, image, tname), 1, 1, ov)
    return wire


def ack(c, done=1, err=0):
    c.snapshot('_ackdata', "pack('<BBBB', addr, 0x18, %d, %d)" % (done, err))
    return c.new(STK + ':CRTPPacket', 0xFF, c.get('_ackdata'))


def _e2e(name, geoms, fixed_target=None, note='', thorough_only=False):
    @contract('C12', 'flash.e2e.' + name, [BL + ':Bootloader._internal_flash', CL + ':Cloader.upload_buffer', CL + ':Cloader.write_flash'],
              clause=E2E_CLAUSE, max_paths=6000, thorough_only=thorough_only,
              bounded='(page size, buffer pages, image length) in %s%s; image content, target address, flash pages, start page and '
                      'override page symbolic (16 bit); every flash-write acknowledged at once' % (
                          geoms if len(geoms) < 12 else '%d combinations from %s to %s' % (len(geoms), geoms[0], geoms[-1]), note))
    def k(c):
        ps, bp, n = c.choice('geom', list(geoms))
        npages = (n + ps - 1) // ps
        wire = e2e_setup(c, ps, bp, n, lambda c: [x for _ in range(npages + 1) for x in (None, ack(c))], fixed_target)
        c.ensure('only-link-calls', 'all(e[0] in ("link.send_packet", "link.receive_packet") for e in trace)')
        c.ensure('refused-before-anything-is-sent', "implies(not fits, raised == 'Exception' and len(trace) == 0)")
        c.ensure('image-that-fits-is-flashed-without-error', 'implies(fits, raised is None)')
        offs = ghost_target(c, wire, ps, bp, n)
        c.let('offs', tuple(offs))
        for q in range(npages):
            c.ensure('image-page%d-programmed' % q, 'implies(raised is None, any(o == %d for o in offs))' % q)
    return k


for _ps in (1, 2, 3):
    for _bp in (1, 2, 3):
        _e2e('ps%d.bp%d' % (_ps, _bp), [(_ps, _bp, n) for n in range(1, (2 * _bp + 1) * _ps + 2)])

# pages that need several load-buffer frames (25 payload bytes per frame)
for _ps in (25, 26, 60):
    for _bp in (1, 2):
        _e2e('ps%d.bp%d' % (_ps, _bp), [(_ps, _bp, n) for n in (_ps - 1, _ps + 1, 2 * _bp * _ps, 2 * _bp * _ps + _ps // 2)])

# the page size of the real targets (Crazyflie 2.x: 1024-byte pages; nRF51 1 buffer page, STM32F405 10 buffer pages).  The ten-buffer
# geometry is run with 128-byte pages (a 12-page image of 1024-byte pages costs minutes of path-condition handling, no new case).
_e2e('real.nrf51', [(1024, 1, 2 * 1024 + 17)], fixed_target='nrf51')
_e2e('tenbuffers', [(128, 10, 11 * 128 + 50)], fixed_target='stm32', note=' (12 pages: one full buffer set, one full page, one partial page)')

# thorough tier: larger geometries of the same clause
for _ps, _bp in ((4, 1), (4, 2), (4, 3), (1, 4), (2, 4), (3, 4), (4, 4), (5, 2)):
    _e2e('ps%d.bp%d' % (_ps, _bp), [(_ps, _bp, n) for n in range(1, (2 * _bp + 1) * _ps + 2)], thorough_only=True)
for _ps in (25, 26, 60):
    _e2e('ps%d.bp3' % _ps, [(_ps, 3, n) for n in (_ps, 3 * _ps, 3 * _ps + 1, 6 * _ps, 7 * _ps - 1)], thorough_only=True)
_e2e('real.stm32', [(1024, 10, 11 * 1024 + 50)], fixed_target='stm32', thorough_only=True,
     note=' (the STM32F405 of the Crazyflie 2.x: 1024-byte pages, 10 buffers; 12 pages)')
_e2e('real.nrf51.exact', [(1024, 1, 3 * 1024)], fixed_target='nrf51', thorough_only=True, note=' (exact multiple of the page size)')


def _e2e_failing(name, ps, bp, n, thorough_only=False):
    npages = (n + ps - 1) // ps
    nwr = (npages + bp - 1) // bp
    frames = (ps + 24) // 25            # load-buffer frames per full page

    @contract('C12', 'flash.e2e.' + name, [BL + ':Bootloader._internal_flash', CL + ':Cloader.upload_buffer', CL + ':Cloader.write_flash'],
              clause=E2E_CLAUSE + ': a flash-write command that is answered negatively, or not answered by the addressed target in 6 '
                     'transmissions (replies lost or packets of somebody else arriving instead), aborts the flashing with an exception '
                     'and nothing more is sent', thorough_only=thorough_only, max_paths=6000,
              bounded='page size %d, %d buffer pages, %d-byte image (%d flash-write commands); any one of the commands fails' % (ps, bp, n, nwr))
    def e2e_failing(c):
        which = c.choice('which', list(range(nwr)))
        how = c.choice('how', ['nack', 'lost', 'stray'])

        def script(c):
            out = []
            for _ in range(which):
                out += [None, ack(c)]
            if how == 'nack':
                out += [None, ack(c, 0, 2)]
            elif how == 'lost':
                out += [None] * 7
            else:
                out += [None] + scripted_replies(c, ['A'] * 6)
            return out + [None] * (6 * nwr + 40)      # should the flashing go on regardless: every later reply is lost
        wire = e2e_setup(c, ps, bp, n, script, require_fits=True)
        c.ensure('aborts-with-exception', "raised == 'Exception'")
        ghost_target(c, wire, ps, bp, n)
        txs = [w for w in wire if w[0] == 'tx']
        cmds = []
        for t in txs:
            c.let('d', t[2])
            cmds.append(c.snapshot('_cmd', 'd[1]'))
        c.let('cmds', tuple(cmds))
        c.ensure('failed-command-sent-a-bounded-number-of-times', 'sum(1 for x in cmds if x == 0x18) == %d' % (which + (1 if how == 'nack' else 6)))
        c.ensure('nothing-sent-after-the-failed-command', 'len(cmds) > 0 and cmds[-1] == 0x18')
        loaded = min(bp * (which + 1), npages)          # pages loaded when the failing command goes out
        nframes = sum((min(ps, n - q * ps) + 24) // 25 for q in range(loaded))
        c.ensure('no-load-after-failure', 'sum(1 for x in cmds if x == 0x14) == %d' % nframes)
    return e2e_failing


_e2e_failing('failing_write', 2, 2, 11)
_e2e_failing('failing_write.ps3.bp3', 3, 3, 31, thorough_only=True)
_e2e_failing('failing_write.ps30.bp2', 30, 2, 5 * 30 + 7, thorough_only=True)


# ------------------------------------------------------------------------- upload_buffer for ANY buffer length (loop invariant)

@contract('C12', 'upload_buffer.inductive', [CL + ':Cloader.upload_buffer'],
          clause='buffer-upload messages fit the radio frame and cover every byte exactly once at the right offset, for a buffer of ANY length: '
                 'loop invariant "the open frame holds buff[k-count:k] for address+k-count, count <= 24"; a frame is sent exactly when it holds 25 '
                 'bytes, it is buff[k-25:k] at address+k-25 and the next frame opens at k; the closing frame is buff[n-c:n] at address+n-c with c <= 24. '
                 'By induction the frames partition buff in order, every byte once, at offset address + index.')
def upload_inductive(c):
    buff = c.view('buff', 'bytes')
    c.int('tid', 0, 255), c.int('page', 0, 65535), c.int('address', 0, 65535)
    c.require('address + len(buff) <= 65535')
    link = c.ext('link')
    cl = cloader(c, link)
    c.reset_trace()
    if c.backend == 'sym':
        import z3
        from pyvc.values import SView, SInt
        I = c.I

        def havoc(I_, fr):
            k = fr.vars['k']
            count = I.fresh_int('count')
            fr.vars['count'] = count
            pk = I.call(I.resolve('cflib.crtp.crtpstack:CRTPPacket'), [], {})
            I.call(I.getattr(pk, 'set_header'), [0xFF, 0xFF], {})
            hdr = [I.fresh_int('hdr%d' % j, 0, 255) for j in range(6)]
            b = fr.vars['buff']
            win = SView(b.arr, z3.simplify(b.off + k.t - count.t) if not isinstance(k, int) else z3.simplify(b.off + k - count.t), count.t, 'bytearray', pre=hdr)
            win.byte_range = True
            pk.attrs['_data'] = win
            fr.vars['pk'] = pk
            del I.trace[:]          # the frames of earlier iterations are covered by the per-iteration obligation
        c.loop_invariant(CL + ':Cloader.upload_buffer', '#1',
                         ['0 <= count and count <= 24 and count <= k and (k - count) % 25 == 0',
                          'pk.header == 0xFF and len(pk.data) == 6 + count',
                          "bytes(pk.data[0:6]) == pack('<BBHH', target_id, 0x14, page, address + k - count)",
                          'bytes(pk.data[6:]) == buff[k - count:k]'],
                         havoc, ['count', 'pk'], index='k',
                         iteration_post=[
                             ('at-most-one-frame-per-byte', "len(sent('link.send_packet')) <= 1"),
                             ('frame-sent-iff-it-holds-25-bytes', "iff(len(sent('link.send_packet')) == 1, count == 0) and implies(len(sent('link.send_packet')) == 0, count >= 1)"),
                             ('sent-frame-is-the-next-25-bytes-at-their-offset',
                              "implies(len(sent('link.send_packet')) == 1, len(sent('link.send_packet')[0][1][0].data) == 31 and "
                              "sent('link.send_packet')[0][1][0].header == 0xFF and "
                              "bytes(sent('link.send_packet')[0][1][0].data[0:6]) == pack('<BBHH', target_id, 0x14, page, address + k - 25) and "
                              "bytes(sent('link.send_packet')[0][1][0].data[6:]) == buff[k - 25:k])")])
    c.call((cl, 'upload_buffer'), c.get('tid'), c.get('page'), c.get('address'), buff)
    c.ensure('no-exception', 'raised is None')
    c.snapshot('F', "sent('link.send_packet')[-1][1][0]")
    c.snapshot('cf_', 'len(F.data) - 6')
    c.ensure('closing-frame-within-the-radio-frame', '0 <= cf_ and cf_ <= 24 and F.header == 0xFF')
    c.ensure('closing-frame-is-the-rest-at-its-offset', "bytes(F.data[0:6]) == pack('<BBHH', tid, 0x14, page, address + len(buff) - cf_) and bytes(F.data[6:]) == buff[len(buff) - cf_:]")
    c.ensure('closing-frame-starts-on-a-25-byte-boundary', '(len(buff) - cf_) % 25 == 0')
    if c.backend == 'native':
        # whole-wire statement, evaluated on the real code for every witness / sampled input (the symbolic run sees one
        # arbitrary iteration at a time, so there it is the conjunction of the per-iteration obligations above)
        c.ensure('native-all-frames-fit-and-partition-the-buffer',
                 "all(6 <= len(e[1][0].data) <= 31 for e in sent('link.send_packet')) and "
                 "b''.join(bytes(e[1][0].data[6:]) for e in sent('link.send_packet')) == bytes(buff) and "
                 "all(unpack('<BBHH', bytes(e[1][0].data[0:6])) == (tid, 0x14, page, address + sum(len(f[1][0].data) - 6 for f in sent('link.send_packet')[:j])) "
                 "for j, e in enumerate(sent('link.send_packet')))")


# ------------------------------------------------------------------------- _internal_flash for ANY image length (loop invariant, page size enumerated)

def _if_inductive(ps, thorough_only=False):
    @contract('C12', 'internal_flash.inductive.ps%s' % ps, [BL + ':Bootloader._internal_flash'], float_mode='R', thorough_only=thorough_only,
              clause='flashing an image of ANY length: loop invariant "ctr < buffer_pages buffers are loaded, they hold image pages k-ctr .. k-1"; in an '
                     'arbitrary iteration k page k of the image (bytes [k*ps, min((k+1)*ps, len))) is loaded into buffer ctr, and when the buffers are '
                     'full exactly one flash-write programs flash pages first+k-ctr .. first+k from buffers 0 .. ctr; every programmed page is inside '
                     'the image range and below the flash size; the closing flash-write programs the remaining ctr pages ending at the last image '
                     'page; a failed flash-write raises at once.  (Buffer contents follow by induction: buffer j is loaded exactly in the iteration '
                     'whose ctr is j, and ctr restarts at 0 after every flash-write.)',
              bounded=('page size: ANY value 1..65535 (non-linear page arithmetic, decided by z3 here; the enumerated page sizes stay as the linear '
                       'proofs); image length, buffer pages, flash pages, start page, override page: any value') if ps == 'ANY' else
                      ('page size %s (1, 2, 3, 7, 25, 26, 1024 enumerated: with a concrete page size the page arithmetic is linear); image length, '
                       'buffer pages, flash pages, start page, override page: any value' % ps))
    def k(c):
        tname = c.choice('target', ['stm32', 'nrf51'])
        tid = {'stm32': 0xFF, 'nrf51': 0xFE}[tname]
        c.int('addr', 0, 255), c.int('bp', 1, 65535), c.int('fp', 0, 65535), c.int('sp', 0, 65535)
        if ps == 'ANY':
            c.int('ps', 1, 65535)
        else:
            c.let('ps', ps)
        has_override = c.choice('has_override', [False, True])
        ov = c.int('override', 0, 65535) if has_override else None
        c.let('first', ov if has_override else c.get('sp'))
        image = c.view('image', 'bytes', maxlen=2 ** 31)
        c.require('len(image) >= 1')
        tinfo = target_info(c, tid)
        if c.backend == 'sym':
            ok_fn = lambda I, a, kw: I.fresh_bool('write_ok')        # noqa: E731  every flash-write may fail
        else:
            ok_fn = lambda I, a, kw: True                            # noqa: E731
        cload = c.ext('cload', attrs={'targets': c.dict([(tid, tinfo)]), 'error_code': 0}, returns={'write_flash': ok_fn})
        bl = bootloader(c, cload)
        art = artifact(c, image, tname)
        c.reset_trace()
        if c.backend == 'sym':
            I = c.I

            def havoc(I_, fr):
                fr.vars['ctr'] = I.fresh_int('ctr')
                fr.vars['progress'] = I.fresh_float('progress')
                del I.trace[:]
            LAST = "sent('cload.write_flash')[-1][1]"
            UP = "sent('cload.upload_buffer')[0][1]"
            c.loop_invariant(BL + ':Bootloader._internal_flash', '#1',
                             ['0 <= ctr and ctr < t_data.buffer_pages and ctr <= k',
                              'len(image) <= (t_data.flash_pages - start_page) * t_data.page_size'],
                             havoc, ['ctr', 'progress'], index='k',
                             iteration_post=[
                                 ('exactly-one-page-loaded', "len(sent('cload.upload_buffer')) == 1 and len(sent('cload.write_flash')) <= 1"),
                                 ('page-k-loaded-into-the-next-free-buffer',
                                  UP + "[0] == t_data.addr and " + UP + "[2] == 0 and " + UP + "[3] == image[(k - 1) * t_data.page_size:min(k * t_data.page_size, len(image))] and "
                                  "(" + UP + "[1] == ctr - 1 or (ctr == 0 and " + UP + "[1] == t_data.buffer_pages - 1))"),
                                 ('buffer-slot-exists', "0 <= " + UP + "[1] and " + UP + "[1] < t_data.buffer_pages"),
                                 ('flash-write-iff-buffers-full', "iff(len(sent('cload.write_flash')) == 1, ctr == 0)"),
                                 ('flash-write-programs-the-loaded-pages-in-place',
                                  "implies(len(sent('cload.write_flash')) == 1, " + LAST + "[0] == t_data.addr and " + LAST + "[1] == 0 and "
                                  + LAST + "[3] == t_data.buffer_pages and " + LAST + "[2] == start_page + k - t_data.buffer_pages)"),
                                 ('programmed-pages-inside-flash-and-image',
                                  "implies(len(sent('cload.write_flash')) == 1, 0 <= " + LAST + "[2] and " + LAST + "[2] + " + LAST + "[3] <= t_data.flash_pages and "
                                  "(" + LAST + "[2] + " + LAST + "[3] - 1 - start_page) * t_data.page_size < len(image) and " + LAST + "[2] >= start_page)")])
        c.call((bl, '_internal_flash'), art, 1, 1, ov)
        c.snapshot('fits', 'len(image) <= (fp - first) * ps')
        c.ensure('refused-iff-it-does-not-fit', "iff(raised == 'Exception' and len(sent('cload.upload_buffer')) + len(sent('cload.write_flash')) == 0, not fits) or raised == 'Exception'")
        c.ensure('only-declared-error', "raised in (None, 'Exception')")
        if c.get('raised') is None:
            c.snapshot('npages', '(len(image) - 1) // ps + 1')
            if len([e for e in c.get('trace') if e[0] == 'cload.write_flash']) >= 1:
                c.snapshot('W', "sent('cload.write_flash')[-1][1]")
                c.ensure('closing-flash-write-ends-at-the-last-image-page', 'W[0] == addr and W[1] == 0 and W[3] >= 1 and W[3] <= bp and W[2] + W[3] == first + npages')
                c.ensure('closing-flash-write-inside-flash', 'W[2] >= first and W[2] + W[3] <= fp')
        if c.backend == 'native':
            # whole-wire statement on the real code for every witness / sampled input
            c.ensure('native-pages-programmed-once-in-range',
                     "implies(raised is None, sorted(p for e in sent('cload.write_flash') for p in range(e[1][2], e[1][2] + e[1][3])) == "
                     "list(range(first, first + (len(image) - 1) // ps + 1)) and first + (len(image) - 1) // ps + 1 <= fp)")
    return k


for _ps in (1, 2, 3, 7, 25, 26, 1024):
    _if_inductive(_ps)
_if_inductive('ANY')


# ========================================================================= extension round (2026-09-27)
# New clauses: where the geometry comes from (info packet -> Target record, cache per Cloader), sequences of images on one
# Bootloader (_flash_flash, flash, flash_full), second uses of the same objects, packets kept by the link after send_packet.

# ------------------------------------------------------------------------- the geometry the flashing relies on: Cloader._update_info

INFO_CLAUSE = ('the geometry used for flashing (page size, buffer pages, flash pages, start page, address) is exactly what the addressed '
               'target reported in its info reply [addr, 0x10, pageSize:u16, nBuffPages:u16, nFlashPages:u16, flashStart:u16, cpuid(12), '
               'protocol version] (little endian; assumed firmware layout, part of the trusted base); replies of the other target, of '
               'another command or on another port are not taken as the answer')

CPUID = bytes(range(0x31, 0x3D))


def info_reply(c, name, tid_expr, extra):
    """info reply of the target `tid_expr`: geometry symbolic, cpuid concrete (only a string is formatted from it), `extra` bytes after
    the cpuid (protocol version, bootloader version) concrete for the same reason"""
    for f in ('ps', 'bp', 'fp', 'sp'):
        c.int(name + '_' + f, 0, 65535)
    c.snapshot(name + '_data', "bytearray(pack('<BBHHHH', %s, 0x10, %s_ps, %s_bp, %s_fp, %s_sp) + %r + %r)" % (tid_expr, name, name, name, name, CPUID, bytes(extra)))
    return c.new(STK + ':CRTPPacket', 0xFF, c.get(name + '_data'))


def other_packets(c, kinds, tid, cmd):
    """scripted downlink before the answer: 'L' nothing arrives, 'O' an arbitrary 4-byte packet that is NOT an answer of target `tid`
    to command `cmd` (another port, another target - e.g. the same command answered by the other target -, another command)"""
    out = []
    for i, kd in enumerate(kinds):
        if kd == 'L':
            out.append(None)
            continue
        r = reply_packet(c, 'o%d' % i, 4)
        c.let('o%d' % i, r)
        c.require('not (o%d.header == 0xFF and o%d.data[0] == %d and o%d.data[1] == %d)' % (i, i, tid, i, cmd))
        out.append(r)
    return out


BEFORE_QUICK = [[], ['L'], ['O'], ['L', 'O'], ['O', 'L']]
BEFORE_MORE = [['L', 'L'], ['O', 'O'], ['L', 'L', 'L'], ['O', 'L', 'O'], ['L', 'O', 'L'], ['O', 'O', 'O'], ['L', 'O', 'O', 'L'], ['O', 'L', 'L', 'O', 'L']]


def _update_info_geometry(name, patterns, thorough_only=False):
    return contract('C12', name, [CL + ':Cloader._update_info', CL + ':Cloader.request_info_update', CL + ':Cloader.check_link_and_get_info',
                                  BL + ':Bootloader.get_target'], thorough_only=thorough_only,
                    clause=INFO_CLAUSE + '; a record that exists already is refreshed by _update_info / check_link_and_get_info and returned '
                           'as it is (no traffic) by request_info_update / get_target',
                    bounded='the info reply arrives after one of the patterns %r of lost replies (L) / 4-byte packets of somebody else (O); cpuid and '
                            'the bytes after it (none, protocol version, protocol + bootloader version) concrete; the target is unknown so far or '
                            'known with another geometry' % (patterns,))(lambda c: update_info_geometry(c, patterns))


def update_info_geometry(c, patterns):
    tid = c.choice('tid', [0xFF, 0xFE])
    c.let('tid', tid)
    via = c.choice('via', ['_update_info', 'check_link_and_get_info', 'request_info_update', 'get_target'])
    before = c.choice('before', patterns)
    extra = c.choice('extra', [b'', b'\x10', bytes([0x10, 1, 0x80, 2, 3])])
    known = c.choice('known', [False, True])
    r = info_reply(c, 'r', 'tid', extra)
    link, wire = mklink(c, other_packets(c, before, tid, 0x10) + [r, None, None, None])
    bl = c.new(BL + ':Bootloader', None)
    c.let('bl', bl)
    c.let('link', link)
    c.snapshot('cl', 'bl._cload')
    c.snapshot('_', 'setattr(cl, "link", link)')
    if known:
        c.int('addr', 0, 255), c.int('ps', 0, 65535), c.int('bp', 0, 65535), c.int('fp', 0, 65535), c.int('sp', 0, 65535)
        target_info(c, tid)
        c.snapshot('_', 'cl.targets.update({%d: tinfo})' % tid)
    c.virtual_time(clock=[float(i) for i in range(16)])
    c.reset_trace()
    c.call((bl, via) if via == 'get_target' else (c.get('cl'), via), tid)
    c.ensure('no-exception', 'raised is None')
    c.snapshot('t', 'cl.targets[tid]')
    c.ensure('only-this-target-touched', 'tuple(cl.targets.keys()) == (tid,)')
    txs = [w for w in wire if w[0] == 'tx']
    if via in ('request_info_update', 'get_target'):
        c.ensure('result-is-the-record-of-the-target', 'is_same(result, t)')
    else:
        c.ensure('answered', 'result is True')
    if known and via in ('request_info_update', 'get_target'):
        c.ensure('known-target-no-traffic-record-unchanged', 'len(trace) == 0 and is_same(t, tinfo) and (t.addr, t.page_size, t.buffer_pages, '
                 't.flash_pages, t.start_page) == (addr, ps, bp, fp, sp)')
        return
    c.ensure('geometry-is-what-the-target-reported', 't.page_size == r_ps and t.buffer_pages == r_bp and t.flash_pages == r_fp and t.start_page == r_sp')
    c.ensure('address-is-the-target-id', 't.addr == tid and t.id == tid')
    mapping = extra[:1] == b'\x10' and tid == 0xFF       # protocol 0x10: the STM32 is also asked for its flash mapping [tid, 0x12]
    c.ensure('request-sent', 'len(trace) >= 2')
    for i, w in enumerate(txs):
        c.let('hdr', w[1])
        c.let('d', w[2])
        c.ensure('tx%d-is-an-info-request-nothing-is-written' % i, 'hdr == 0xFF and d[0] == tid and d[1] == %d and len(d) == 2' % (
            0x12 if mapping and i == len(txs) - 1 else 0x10))


_update_info_geometry('update_info.geometry', BEFORE_QUICK)
_update_info_geometry('update_info.geometry.more', BEFORE_MORE, thorough_only=True)


@contract('C12', 'update_info.unanswered', [CL + ':Cloader._update_info', CL + ':Cloader.request_info_update', CL + ':Cloader.check_link_and_get_info'],
          clause=INFO_CLAUSE + '; a target that does not answer within the time-out leaves no geometry behind: no record is invented, an '
                 'existing record is not changed, and asking for the geometry of an unknown target fails instead of flashing with defaults',
          bounded='16 clock readings one second apart; every reply lost or a 4-byte packet of somebody else')
def update_info_unanswered(c):
    tid = c.choice('tid', [0xFF, 0xFE])
    c.let('tid', tid)
    kind = c.choice('kind', ['L', 'O'])
    via = c.choice('via', ['_update_info', 'check_link_and_get_info', 'request_info_update'])
    known = c.choice('known', [False, True]) if via != 'request_info_update' else False
    link, wire = mklink(c, other_packets(c, [kind] * 3, tid, 0x10) + [None] * 12)
    cl = cloader(c, link)
    if known:
        c.int('addr', 0, 255), c.int('ps', 0, 65535), c.int('bp', 0, 65535), c.int('fp', 0, 65535), c.int('sp', 0, 65535)
        target_info(c, tid)
        c.snapshot('_', 'cl.targets.update({%d: tinfo})' % tid)
    c.virtual_time(clock=[float(i) for i in range(16)])
    c.reset_trace()
    c.call((cl, via), tid)
    if via == 'request_info_update':
        c.ensure('no-geometry-no-result', "raised == 'KeyError'")
    else:
        c.ensure('reported-as-failed', 'raised is None and result is False')
    if known:
        c.ensure('existing-record-unchanged', 'len(cl.targets) == 1 and is_same(cl.targets[tid], tinfo) and (tinfo.addr, tinfo.page_size, tinfo.buffer_pages, '
                 'tinfo.flash_pages, tinfo.start_page) == (addr, ps, bp, fp, sp)')
    else:
        c.ensure('no-record-invented', 'len(cl.targets) == 0')
    c.ensure('gives-up', "sum(1 for e in trace if e[0] == 'link.send_packet') <= 16")


# ------------------------------------------------------------------------- several images on one Bootloader: reactive peer + ghost flash

def _ints(I, v):
    """python list of the items of a bytes-like value of either back end (items are ints or symbolic bytes)"""
    if I is None:
        return list(v)
    from pyvc import ops
    return list(ops.seq_items(v))


def mkpeer(c, infos=None, nack_at=None, name='link', uri='radio://0/0/2M/B1CAFEBABE'):
    """Reactive model of the peer behind the radio link: both targets of a Crazyflie 2.x in bootloader mode.  Unlike the scripted link
    (mklink) it answers what was asked: a flash-write command [addr, 0x18, ...] is answered by [addr, 0x18, done, error] (done = 1 except
    for the command number `nack_at`, counted over the whole run, which is answered done = 0 / error 2), an info request [addr, 0x10] by
    the next prepared info reply of that target (infos[addr], used up in order; none left: no answer), everything else is not answered;
    receive_packet returns None when nothing is pending (so the drain of write_flash ends).  Everything transmitted is recorded at send
    time, in order, in st['wire'] as ('tx', header, data copy); several links (after a reconnect) share the record.
    The addressing byte and the command byte of every transmitted frame must be concrete."""
    st = {'wire': [], 'pending': [], 'nwrite': 0, 'infos': {k: list(v) for k, v in (infos or {}).items()}, 'c': c, 'nack_at': nack_at}
    return peer_link(c, st, name, uri), st


def peer_link(c, st, name, uri):
    def send(I, args, kw):
        pk = args[0]
        if I is None:
            hdr, data = pk.header, bytes(pk.data)
        else:
            hdr, data = I.getattr(pk, 'header'), I.call(I.models.builtin(I, 'bytes'), [I.getattr(pk, 'data')], {})
        st['wire'].append(('tx', hdr, data, pk))
        d = _ints(I, data)
        assert all(isinstance(x, int) for x in d[:2]), 'reactive peer needs concrete address / command bytes'
        del st['pending'][:]
        if hdr == 0xFF and len(d) >= 2:
            if d[1] == 0x18:
                bad = st['nack_at'] is not None and st['nwrite'] == st['nack_at']
                st['nwrite'] += 1
                st['pending'].append(st['c'].new(STK + ':CRTPPacket', 0xFF, bytearray([d[0], 0x18, 0 if bad else 1, 2 if bad else 0])))
            elif d[1] == 0x10 and st['infos'].get(d[0]):
                st['pending'].append(st['infos'][d[0]].pop(0))
        return None

    def recv(I, args, kw):
        r = st['pending'].pop(0) if st['pending'] else None
        st['wire'].append(('rx', r, None, None))
        return r
    return c.ext(name, attrs={'uri': uri}, returns={'send_packet': send, 'receive_packet': recv})


def ghost_flash(c, wire, geom, prefix=''):
    """Ghost model of the targets: replays every transmitted frame, in order (load-buffer / write-flash semantics of the module
    docstring; every transmitted write-flash command is taken as executed).  geom: {addr: (page size, buffer pages, flash pages)}, all
    concrete.  States, as obligations: every frame is a known command on the bootloader port, fits the radio frame, is not modified
    after it was handed to the link, stays inside the buffers / the flash of the addressed target.
    Returns {(addr, page): tuple of the bytes the page was programmed with (None = a buffer byte never loaded)}."""
    buf = {a: [[None] * g[0] for _ in range(g[1])] for a, g in geom.items()}
    flash = {}
    k = -1
    for w in wire:
        if w[0] != 'tx':
            continue
        k += 1
        c.let('hdr', w[1])
        c.let('d', w[2])
        c.let('_pk', w[3])
        items = list(c.snapshot('_items', 'tuple(d)'))
        c.ensure('%stx%d-fits-radio-frame' % (prefix, k), 'hdr == 0xFF and 2 <= len(d) <= 31')
        c.ensure('%stx%d-not-modified-after-send' % (prefix, k), '_pk.header == hdr and bytes(_pk.data) == d')
        a, cmd = items[0], items[1]
        if cmd in (0x10, 0x12) and len(items) == 2:
            continue                                                     # info / mapping request: writes nothing
        known = a in geom and ((cmd == 0x14 and len(items) >= 6) or (cmd == 0x18 and len(items) == 8)) and \
            all(isinstance(x, int) for x in items[2:6] + (items[6:8] if cmd == 0x18 else []))
        c.let('_b', known)
        c.ensure('%stx%d-is-a-known-command-to-a-known-target' % (prefix, k), '_b')
        if not known:
            continue
        ps, bp, fp = geom[a]
        if cmd == 0x14:
            slot, off, payload = le16(items[2], items[3]), le16(items[4], items[5]), items[6:]
            inside = slot < bp and off + len(payload) <= ps
            c.let('_b', inside)
            c.ensure('%stx%d-load-stays-inside-buffer' % (prefix, k), '_b')
            if inside:
                buf[a][slot][off:off + len(payload)] = payload
        else:
            bufpage, page, count = le16(items[2], items[3]), le16(items[4], items[5]), le16(items[6], items[7])
            inside = count >= 1 and bufpage + count <= bp and page + count <= fp
            c.let('_b', inside)
            c.ensure('%stx%d-write-takes-existing-buffers-and-stays-inside-flash' % (prefix, k), '_b')
            for j in range(count if inside else 0):
                flash[(a, page + j)] = tuple(buf[a][bufpage + j])
    return flash


def expect_flash(c, flash, expected, prefix='', complete=True):
    """`flash` (from ghost_flash) holds exactly `expected`: [(addr, first page, image value, length, page size)] in flashing order (a later
    image overrides an earlier one on a shared page).  The bytes of a last, partial page behind the end of the image are not constrained.
    complete=False (flashing was aborted): pages of the images may be missing, but nothing else may have been programmed."""
    want = {}
    for a, first, image, n, ps in expected:
        for q in range((n + ps - 1) // ps):
            want.setdefault((a, first + q), []).append((image, q * ps, min(ps, n - q * ps)))
    for key in sorted(set(flash) | set(want)):
        name = '%spage-%02X-%d' % (prefix, key[0], key[1])
        if key not in want:
            c.ensure(name + '-is-outside-every-image-and-must-not-be-programmed', 'False')
        elif key not in flash:
            if complete:
                c.ensure(name + '-of-an-image-must-be-programmed', 'False')
        else:
            # aborted sequence: a page shared by two images holds the page of either (the later one may not have got there)
            alts = []
            for i, (image, lo, ln) in enumerate(want[key][-1:] if complete else want[key]):
                c.let('_got%d' % i, flash[key][:ln])
                c.let('_img%d' % i, image)
                alts.append('(all(x is not None for x in _got%d) and bytes(_got%d) == bytes(_img%d[%d:%d]))' % (i, i, i, lo, lo + ln))
            c.ensure(name + '-holds-exactly-its-image-page', ' or '.join(alts))


def target_rec(c, tid, ps, bp, fp, sp):
    """geometry record of target `tid`, built by the real constructor; the address is the target id (as _update_info sets it)"""
    t = c.new(BT + ':Target', tid)
    for field, v in (('addr', tid), ('page_size', ps), ('buffer_pages', bp), ('flash_pages', fp), ('start_page', sp)):
        c.set(t, field, v)
    return t


def real_bootloader(c, link, records, protocol=0x10):
    """real Bootloader with its real Cloader on `link`, knowing the targets `records` ({tid: Target record})"""
    bl = c.new(BL + ':Bootloader', None)
    c.let('bl', bl)
    c.let('link', link)
    c.snapshot('cl', 'bl._cload')
    c.snapshot('_', 'setattr(cl, "link", link)')
    c.set(bl, 'protocol_version', protocol)
    c.set(c.get('cl'), 'protocol_version', protocol)
    for tid, t in records.items():
        c.let('_t', t)
        c.snapshot('_', 'cl.targets.update({%d: _t})' % tid)
    return bl


SEQ_GEOM = {0xFF: (3, 2, 9, 2), 0xFE: (2, 1, 8, 3)}      # target id -> page size, buffer pages, flash pages, start page
TNAME = {0xFF: 'stm32', 0xFE: 'nrf51'}


def n_writes(n, ps, bp):
    npages = (n + ps - 1) // ps
    return (npages + bp - 1) // bp


SEQ_CLAUSE = ('several images flashed one after the other on the same Bootloader / Cloader (as Bootloader._flash_flash does for the files of '
              'a release): in the end the flash of every target holds exactly the images addressed to it, each starting at the start page of '
              'ITS target, nothing else is programmed; of two images for the same target the later one wins on shared pages; a flash-write '
              'command that is answered negatively aborts the whole sequence with an exception: nothing more is sent, no later image is started')


def _flash_flash_e2e(name, orders, lens_stm, lens_nrf, thorough_only=False):
    return contract('C12', name, [BL + ':Bootloader._flash_flash', BL + ':Bootloader._internal_flash', CL + ':Cloader.upload_buffer',
                                  CL + ':Cloader.write_flash'], clause=SEQ_CLAUSE, max_paths=20000, thorough_only=thorough_only,
                    bounded='images (content symbolic) for the target sequences %r (FF stm32, FE nrf51; a later image for the same target overrides the '
                            'earlier one); lengths %r (stm32) and %r (nrf51); concrete geometries %r (page size, buffers, flash pages, start page); '
                            'every flash-write acknowledged, or exactly one of them (any one) answered negatively' % (
                                [tuple('%02X' % t for t in o) for o in orders], lens_stm, lens_nrf, SEQ_GEOM))(
                                    lambda c: flash_flash_e2e(c, orders, lens_stm, lens_nrf))


def flash_flash_e2e(c, orders, lens_stm, lens_nrf):
    order = c.choice('order', list(orders))
    lens = [c.choice('n%d' % i, list(lens_stm) if t == 0xFF else list(lens_nrf)) for i, t in enumerate(order)]
    total = sum(n_writes(n, SEQ_GEOM[t][0], SEQ_GEOM[t][1]) for n, t in zip(lens, order))
    nack_at = c.choice('nack_at', [None] + list(range(total)))
    images = [c.bytes('image%d' % i, n) for i, n in enumerate(lens)]
    link, st = mkpeer(c, nack_at=nack_at)
    bl = real_bootloader(c, link, {t: target_rec(c, t, *SEQ_GEOM[t]) for t in SEQ_GEOM})
    arts = [artifact(c, im, TNAME[t]) for im, t in zip(images, order)]
    c.reset_trace()
    c.call((bl, '_flash_flash'), c.list(arts), c.list([]))
    flash = ghost_flash(c, st['wire'], {t: g[:3] for t, g in SEQ_GEOM.items()})
    expected = [(t, SEQ_GEOM[t][3], im, n, SEQ_GEOM[t][0]) for t, im, n in zip(order, images, lens)]
    cmds = [_cmd_of(c, w) for w in st['wire'] if w[0] == 'tx']
    c.let('cmds', tuple(cmds))
    if nack_at is None:
        c.ensure('no-error', 'raised is None')
        expect_flash(c, flash, expected)
    else:
        c.ensure('aborts-with-exception', "raised == 'Exception'")
        c.ensure('nothing-sent-after-the-failed-command', 'len(cmds) > 0 and cmds[-1] == 0x18 and sum(1 for x in cmds if x == 0x18) == %d' % (nack_at + 1))
        expect_flash(c, flash, expected, complete=False)
    # (the order of images for DIFFERENT targets is not constrained: it cannot be seen in the flash.  For the same target the later image
    #  must win on shared pages - that is part of expect_flash.)


_flash_flash_e2e('flash_flash.e2e', [(0xFF, 0xFE), (0xFE, 0xFF), (0xFE, 0xFE), (0xFF, 0xFF)], [1, 7, 12], [1, 5])
_flash_flash_e2e('flash_flash.e2e.three', [(0xFF, 0xFE, 0xFF), (0xFE, 0xFF, 0xFE), (0xFE, 0xFE, 0xFF), (0xFF, 0xFF, 0xFF)], [3, 13, 18], [2, 7, 10],
                 thorough_only=True)


def _cmd_of(c, w):
    c.let('d', w[2])
    return c.snapshot('_cmd', 'd[1]')




@contract('C12', 'internal_flash.second-use', [BL + ':Bootloader._internal_flash', CL + ':Cloader.upload_buffer', CL + ':Cloader.write_flash'],
          clause='a second flashing on the same Bootloader / Cloader (after a flashing that succeeded, was refused, was terminated by the UI or '
                 'was aborted by a negative flash-write reply) starts from scratch: it loads every buffer it programs itself and programs exactly '
                 'its own image from the start page; over both runs nothing outside the two images is programmed',
          max_paths=6000,
          bounded='geometries %r; first image 7 or 12 bytes (stm32) / 5 bytes (nrf51), or 40 bytes (refused); second image 1, 4, 7 (stm32) / 1, 3, 5 '
                  '(nrf51) bytes; first run: ok, refused, terminated before page 0 / 1 / 2, or any one flash-write answered negatively' % (SEQ_GEOM,))
def internal_flash_second_use(c):
    t = c.choice('target', [0xFF, 0xFE])
    ps, bp, fp, sp = SEQ_GEOM[t]
    first = c.choice('first', ['ok', 'refused', 'stop0', 'stop1', 'stop2', 'nack0', 'nack1'] + (['nack2'] if t == 0xFE else []))
    n0 = 40 if first == 'refused' else (c.choice('n0', [7, 12]) if t == 0xFF else 5)
    n1 = c.choice('n1', [1, 4, 7] if t == 0xFF else [1, 3, 5])
    image0, image1 = c.bytes('image0', n0), c.bytes('image1', n1)
    link, st = mkpeer(c, nack_at=int(first[4:]) if first.startswith('nack') else None)
    bl = real_bootloader(c, link, {x: target_rec(c, x, *SEQ_GEOM[x]) for x in SEQ_GEOM})
    if first.startswith('stop'):
        asks = [False] * int(first[4:]) + [True] + [False] * 20
        it = iter(asks)
        c.let('tcb', c.ext('terminate_cb', returns={'()': lambda *_a: next(it)}))
        c.snapshot('_', 'setattr(bl, "terminate_flashing_cb", tcb)')
    c.reset_trace()
    c.call((bl, '_internal_flash'), artifact(c, image0, TNAME[t]))
    c.ensure('first-run-ends-as-scripted', "raised is None" if first == 'ok' else "raised == 'Exception'")
    mark = len(st['wire'])
    c.reset_trace()
    c.call((bl, '_internal_flash'), artifact(c, image1, TNAME[t]))
    c.ensure('second-run-succeeds', 'raised is None')
    geom = {x: g[:3] for x, g in SEQ_GEOM.items()}
    flash2 = ghost_flash(c, st['wire'][mark:], geom, prefix='run2-')
    expect_flash(c, flash2, [(t, sp, image1, n1, ps)], prefix='run2-')
    flash = ghost_flash(c, st['wire'], geom, prefix='both-')
    expect_flash(c, flash, ([] if first == 'refused' else [(t, sp, image0, n0, ps)]) + [(t, sp, image1, n1, ps)], prefix='both-', complete=False)


# ------------------------------------------------------------------------- Bootloader.flash / flash_full: the files of a release

FLASH_CLAUSE = ('Bootloader.flash (the files of a release zip, cold boot, Crazyflie 2.x): in the end the flash of every target holds exactly the '
                'firmware images addressed to it, each at the start page its target reports AT THAT TIME (the nRF51 start page moves when a new '
                'soft device is flashed: the geometry is asked again over the new link, no stale record is used); the bootloader+softdevice image '
                'is flashed only when needed, then it ends with the last flash page (page override = flash pages - pages of the image; the '
                'library\'s convention) and the first firmware page of the nRF51 is blanked with one page of 0xFF beforehand; files for decks or '
                'another platform are not written into the flash of the MCUs; nothing else is programmed; a release whose soft-device '
                'requirement cannot be met is refused before anything is sent; a flash-write command answered negatively aborts everything '
                'with an exception, nothing more is sent')

NRF_OLD = (2, 1, 120, 88)       # nRF51 with soft device s110: page size, buffer pages, flash pages, start page
NRF_NEW = (2, 1, 120, 108)      # ... after the new bootloader + soft device s130 started
STM = SEQ_GEOM[0xFF]
# release geometries: STM32, nRF51 before / after the soft device update, lengths of the STM32 / nRF51 firmware and of the
# bootloader+softdevice image (a whole number of nRF51 pages; 'sd-odd-length' adds one byte)
REL_SMALL = {'stm': STM, 'old': NRF_OLD, 'new': NRF_NEW, 'n_stm': 7, 'n_nrf': 3, 'n_sd': 4}
# pages of more than one load-buffer frame (25 payload bytes per frame), the blank page too
REL_FRAMES = {'stm': (30, 2, 9, 2), 'old': (27, 1, 120, 88), 'new': (27, 1, 120, 108), 'n_stm': 2 * 30 + 26, 'n_nrf': 27 + 5, 'n_sd': 2 * 27}


def bl_target(c, platform, target, typ, provides=(), requires=()):
    return c.namedtuple(BL + ':Target', platform, target, typ, c.list(list(provides)), c.list(list(requires)))


def info_packet(c, tid, geom, extra=b'\x10'):
    import struct
    return c.new(STK + ':CRTPPacket', 0xFF, bytearray(struct.pack('<BBHHHH', tid, 0x10, *geom) + CPUID + extra))


def flash_setup(c, scenario, nack_at, progress=False, connect='linked', G=None):
    """real Bootloader / Cloader on the reactive peer; the zip reader, packaging.version.Version, the radio reset procedure
    (Cloader.reset_to_bootloader) and cflib.crtp.get_link_driver are stubs of the contract (hardware / file system).
    connect='linked': the link is open and both targets are known; 'found' / 'not-found': nothing is open or known yet, the scan for a
    bootloader (a stub) finds one / none, the geometry of both targets comes out of their info replies"""
    G = G or REL_SMALL
    STM, NRF_OLD, NRF_NEW = G['stm'], G['old'], G['new']
    nrf_now = NRF_NEW if scenario in ('sd-present', 'sd-same-version') else NRF_OLD
    infos = {0xFF: [info_packet(c, 0xFF, STM)], 0xFE: [info_packet(c, 0xFE, NRF_NEW)]}
    if connect != 'linked':
        infos = {0xFF: [info_packet(c, 0xFF, STM)] + infos[0xFF], 0xFE: [info_packet(c, 0xFE, nrf_now)] + infos[0xFE]}
    link, st = mkpeer(c, infos=infos, nack_at=nack_at)
    if connect == 'linked':
        bl = real_bootloader(c, link, {0xFF: target_rec(c, 0xFF, *STM), 0xFE: target_rec(c, 0xFE, *nrf_now)})
    else:
        bl = c.new(BL + ':Bootloader', None)
        c.let('bl', bl)
        c.patch(CL + ':Cloader.scan_for_bootloader', c.ext('scan', returns={'()': 'radio://0/0/2M/B1CAFEBABE' if connect == 'found' else None}))
    link2 = peer_link(c, st, 'link2', 'radio://0/0/2M/B1CAFEBABE')
    c.patch('cflib.crtp:get_link_driver', c.ext('get_link_driver', returns={'()': lambda I, a, k: link2}))
    c.patch(CL + ':Cloader.reset_to_bootloader', c.ext('radio_reset', returns={'()': True}))
    c.patch(BL + ':Version', c.ext('Version', returns={'()': lambda I, a, k: a[0]}))
    img = {'stm': c.bytes('image_stm', G['n_stm']), 'nrf': c.bytes('image_nrf', G['n_nrf']),
           'sd': c.bytes('image_sd', G['n_sd'] + (1 if scenario == 'sd-odd-length' else 0)),
           'deck': c.bytes('image_deck', 4), 'cf1': c.bytes('image_cf1', 4)}
    need = {'fw-only': 'sd-s110', 'sd-present': 'sd-s130', 'sd-same-version': 'sd-s130'}.get(scenario, 'sd-s130')
    arts = [c.namedtuple(BL + ':FlashArtifact', img['stm'], bl_target(c, 'cf2', 'stm32', 'fw'), '2025.02'),
            c.namedtuple(BL + ':FlashArtifact', img['deck'], bl_target(c, 'deck', 'bcAI:gap8', 'fw'), '2025.02'),
            c.namedtuple(BL + ':FlashArtifact', img['cf1'], bl_target(c, 'cf1', 'stm32', 'fw'), '2025.02'),
            c.namedtuple(BL + ':FlashArtifact', img['nrf'], bl_target(c, 'cf2', 'nrf51', 'fw', requires=[need]), '2025.02')]
    if scenario in ('sd-flashed', 'sd-odd-length', 'sd-same-version'):
        arts.append(c.namedtuple(BL + ':FlashArtifact', img['sd'], bl_target(c, 'cf2', 'nrf51', 'bootloader+softdevice', provides=['sd-s130']),
                                 None if scenario == 'sd-same-version' else '1.2'))
    c.patch(BL + ':Bootloader._get_flash_artifacts_from_zip', c.ext('zipfile', returns={'()': lambda I, a, k: c.list(arts)}))
    if progress:
        c.let('pcb', c.ext('progress_cb'))
        c.snapshot('_', 'setattr(bl, "progress_cb", pcb)')
    c.virtual_time(clock=[0.125 * i for i in range(64)])
    return bl, st, img


def flash_writes(scenario, G=None):
    """number of flash-write commands of the whole release"""
    G = G or REL_SMALL
    fw = n_writes(G['n_stm'], G['stm'][0], G['stm'][1]) + n_writes(G['n_nrf'], G['old'][0], G['old'][1])
    return {'fw-only': fw, 'sd-present': fw, 'sd-same-version': fw, 'sd-odd-length': 1, 'sd-missing': 0,
            'sd-flashed': 1 + n_writes(G['n_sd'], G['old'][0], G['old'][1]) + fw}[scenario]


FLASH_WRITES = {sc: flash_writes(sc) for sc in ('fw-only', 'sd-present', 'sd-same-version', 'sd-flashed', 'sd-odd-length', 'sd-missing')}
assert FLASH_WRITES == {'fw-only': 4, 'sd-present': 4, 'sd-same-version': 4, 'sd-flashed': 7, 'sd-odd-length': 1, 'sd-missing': 0}


def flash_expected(scenario, img, G=None):
    G = G or REL_SMALL
    STM, NRF_OLD, NRF_NEW = G['stm'], G['old'], G['new']
    ps = NRF_OLD[0]
    stm = (0xFF, STM[3], img['stm'], G['n_stm'], STM[0])
    if scenario == 'fw-only':
        return [stm, (0xFE, NRF_OLD[3], img['nrf'], G['n_nrf'], ps)]
    if scenario in ('sd-present', 'sd-same-version'):
        return [stm, (0xFE, NRF_NEW[3], img['nrf'], G['n_nrf'], ps)]
    blank = (0xFE, NRF_OLD[3], [0xFF] * ps, ps, ps)
    if scenario == 'sd-flashed':
        return [blank, (0xFE, NRF_OLD[2] - G['n_sd'] // ps, img['sd'], G['n_sd'], ps), stm, (0xFE, NRF_NEW[3], img['nrf'], G['n_nrf'], ps)]
    if scenario == 'sd-odd-length':
        return [blank]          # OBSERVATION: the firmware page is blanked before the image, placed one page too high, is refused
    return []


def _flash_e2e(scenario, G=None, suffix='', thorough_only=False):
    G = G or REL_SMALL
    STM, NRF_OLD, NRF_NEW = G['stm'], G['old'], G['new']

    @contract('C12', 'flash.release.' + scenario + suffix, [BL + ':Bootloader.flash', BL + ':Bootloader._flash_flash', BL + ':Bootloader._internal_flash',
                                                   BL + ':Bootloader._get_current_nrf51_sd_version', BL + ':Bootloader._get_required_nrf51_sd_version',
                                                   BL + ':Bootloader._get_provided_nrf51_sd_version', BL + ':Bootloader._get_provided_nrf51_bl_version',
                                                   BL + ':Bootloader._get_platform_id', CL + ':Cloader.open_bootloader_uri',
                                                   CL + ':Cloader.check_link_and_get_info', CL + ':Cloader.request_info_update', CL + ':Cloader._update_info',
                                                   CL + ':Cloader.upload_buffer', CL + ':Cloader.write_flash'],
              clause=FLASH_CLAUSE, max_paths=6000, thorough_only=thorough_only,
              bounded='scenario %s: release with a %d-byte STM32 firmware, a %d-byte nRF51 firmware, a deck file and a file of another platform%s; concrete '
                      'geometries STM32 %r, nRF51 %r -> %r (page size, buffers, flash pages, start page); image contents symbolic; every flash-write '
                      'acknowledged or any one of them answered negatively; with and without progress callback' % (
                          scenario, G['n_stm'], G['n_nrf'],
                                    {'sd-flashed': ' and a bootloader+softdevice image of %d bytes (whole pages) that is needed (s110 running, s130 required)' % G['n_sd'],
                                     'sd-odd-length': ' and a bootloader+softdevice image of %d bytes (not a whole number of pages) that is needed' % (G['n_sd'] + 1),
                                     'sd-same-version': ' and a bootloader+softdevice image that is not needed (s130 running, same bootloader version)',
                                     'sd-present': ' (s130 required and running)', 'sd-missing': ' (s130 required, s110 running, none in the zip)',
                                     'fw-only': ' (s110 required and running)'}[scenario], STM, NRF_OLD, NRF_NEW))
    def k(c):
        nwr = flash_writes(scenario, G)
        nack_at = c.choice('nack_at', [None] + list(range(nwr)))
        progress = c.choice('progress', [False, True])
        bl, st, img = flash_setup(c, scenario, nack_at, progress, G=G)
        c.reset_trace()
        c.call((bl, 'flash'), 'release.zip', c.list([]))
        flash = ghost_flash(c, st['wire'], {0xFF: STM[:3], 0xFE: NRF_OLD[:3]})
        cmds = [_cmd_of(c, w) for w in st['wire'] if w[0] == 'tx']
        c.let('cmds', tuple(cmds))
        if scenario == 'sd-missing':
            c.ensure('refused-before-anything-is-sent', "raised == 'Exception' and len(cmds) == 0")
        elif scenario == 'sd-odd-length':
            c.ensure('ends-with-an-exception', "raised == 'Exception'")
            c.ensure('nothing-of-the-refused-image-is-sent', 'sum(1 for x in cmds if x == 0x18) <= 1')
            expect_flash(c, flash, flash_expected(scenario, img, G), complete=False)
        elif nack_at is None:
            c.ensure('no-error', 'raised is None')
            expect_flash(c, flash, flash_expected(scenario, img, G))
        else:
            c.ensure('aborts-with-exception', "raised == 'Exception'")
            c.ensure('nothing-sent-after-the-failed-command', 'len(cmds) > 0 and cmds[-1] == 0x18 and sum(1 for x in cmds if x == 0x18) == %d' % (nack_at + 1))
            expect_flash(c, flash, flash_expected(scenario, img, G), complete=False)
    return k


for _sc in ('fw-only', 'sd-present', 'sd-same-version', 'sd-flashed', 'sd-odd-length', 'sd-missing'):
    _flash_e2e(_sc)
for _sc in ('fw-only', 'sd-flashed', 'sd-odd-length'):       # thorough tier: every page (the blank one too) needs two load-buffer frames
    _flash_e2e(_sc, REL_FRAMES, '.frames', thorough_only=True)


def _flash_full(scenario):
    @contract('C12', 'flash_full.' + scenario, [BL + ':Bootloader.flash_full', BL + ':Bootloader.start_bootloader', BL + ':Bootloader.flash',
                                                BL + ':Bootloader.get_target', BL + ':Bootloader._internal_flash', CL + ':Cloader._update_info'],
              clause=FLASH_CLAUSE + ' - through Bootloader.flash_full (cold boot): the same holds whether the link was open already or the '
                     'bootloader is found by the scan (then the geometry used is the one the targets report); when no bootloader is found '
                     'or a flash-write fails, flash_full ends with an exception (it does not go on to restart the firmware as if flashed)',
              max_paths=6000,
              bounded='as flash.release.%s; link open and targets known / bootloader found by the (stubbed) scan / not found; every flash-write '
                      'acknowledged or the first, the third or the last one answered negatively; boot-delay detection and the reset to firmware are stubs' % scenario)
    def k(c):
        nwr = FLASH_WRITES[scenario]
        connect = c.choice('connect', ['linked', 'found', 'not-found'])
        nack_at = c.choice('nack_at', [None] + sorted(set([0, 2, nwr - 1])))
        with_info_cb = c.choice('info_cb', [False, True])
        bl, st, img = flash_setup(c, scenario, nack_at, False, connect)
        c.patch(BL + ':Bootloader._get_boot_delay', c.ext('boot_delay', returns={'()': 0.0}))
        c.patch(CL + ':Cloader.reset_to_firmware', c.ext('reset_to_firmware', returns={'()': True}))
        c.reset_trace()
        c.call((bl, 'flash_full'), None, 'release.zip', False, c.list([]), c.ext('info_cb') if with_info_cb else None)
        flash = ghost_flash(c, st['wire'], {0xFF: STM[:3], 0xFE: NRF_OLD[:3]})
        cmds = [_cmd_of(c, w) for w in st['wire'] if w[0] == 'tx']
        c.let('cmds', tuple(cmds))
        if connect == 'not-found':
            c.ensure('no-bootloader-no-flashing', "raised == 'Exception' and len(cmds) == 0")
        elif nack_at is None:
            c.ensure('no-error', 'raised is None')
            expect_flash(c, flash, flash_expected(scenario, img))
        else:
            c.ensure('aborts-with-exception', "raised == 'Exception'")
            c.ensure('nothing-sent-after-the-failed-command', 'len(cmds) > 0 and cmds[-1] == 0x18 and sum(1 for x in cmds if x == 0x18) == %d' % (nack_at + 1))
            expect_flash(c, flash, flash_expected(scenario, img), complete=False)
    return k


for _sc in ('fw-only', 'sd-flashed'):
    _flash_full(_sc)


@contract('C12', 'internal_flash.unknown-target', [BL + ':Bootloader._internal_flash', BT + ':TargetTypes.from_string'],
          clause='an image addressed to a target that is neither "stm32" nor "nrf51" is written nowhere: the flashing ends with an error before '
                 'anything is sent (it is not silently redirected to one of the two MCUs)',
          bounded='target names "", "STM32", "nrf52", "bcAI:gap8", "stm32 "; 3-byte image; both MCUs known')
def internal_flash_unknown_target(c):
    tname = c.choice('tname', ['', 'STM32', 'nrf52', 'bcAI:gap8', 'stm32 '])
    image = c.bytes('image', 3)
    link, st = mkpeer(c)
    bl = real_bootloader(c, link, {x: target_rec(c, x, *SEQ_GEOM[x]) for x in SEQ_GEOM})
    has_override = c.choice('has_override', [False, True])
    c.reset_trace()
    if has_override:
        c.call((bl, '_internal_flash'), artifact(c, image, tname), 1, 1, c.int('override', 0, 65535))
    else:
        c.call((bl, '_internal_flash'), artifact(c, image, tname))
    c.let('ntx', len([w for w in st['wire'] if w[0] == 'tx']))
    c.ensure('error-and-nothing-sent', 'raised is not None and ntx == 0')
