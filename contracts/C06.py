"""C06 - memory reads and writes are exact, complete and never wedge the subsystem.

Histories of REAL calls on a real `Memory` object (real constructor) against a device model written in the contract:
the device holds an image M; it answers each read request with the bytes of M at the address the request carries and
applies each write packet to its image, acknowledging with the address it received (that is the assumed peer contract).
The contract does not prescribe the library's chunk sizes: it answers whatever is asked and checks the protocol
limits (<= 30 payload bytes per message, a read chunk must fit one reply: <= 24 bytes) and the end result.

Lengths are enumerated around the chunk boundaries of both directions (bounded, stated per contract); addresses, memory
ids and contents are symbolic.  The per-step functions `_ReadRequest.add_data` and `_WriteRequest._write_new_chunk /
write_done` are additionally proved for data of ANY length (z3 sequences) in the `step.*` contracts.

Assumed: a duplicated acknowledgement never carries the start address of the *next* queued write to the same memory
(the protocol has no sequence numbers; such an acknowledgement is indistinguishable from a genuine one).
Not covered: requests issued concurrently from several threads (interleavings).
"""
from pyvc.api import contract

MEM = 'cflib.crazyflie.mem'
STK = 'cflib.crtp.crtpstack'
ELT = 'cflib.crazyflie.mem.memory_element:MemoryElement'

READ_F = [MEM + ':Memory.read', MEM + ':Memory._new_packet_cb', MEM + ':Memory._handle_chan_read', MEM + ':_ReadRequest.start',
          MEM + ':_ReadRequest._request_new_chunk', MEM + ':_ReadRequest.add_data']
WRITE_F = [MEM + ':Memory.write', MEM + ':Memory._new_packet_cb', MEM + ':Memory._handle_chan_write', MEM + ':_WriteRequest.start',
           MEM + ':_WriteRequest._write_new_chunk', MEM + ':_WriteRequest.write_done']


def setup(c):
    cf = c.ext('cf')
    memh = c.new(MEM + ':Memory', cf)
    c.let('memh', memh)
    for nm in ('mem_read_cb', 'mem_read_failed_cb', 'mem_write_cb', 'mem_write_failed_cb'):
        c.invoke((c.getfield(memh, nm), 'add_callback'), c.ext(nm.replace('mem_', 'note_').replace('_cb', '')))
    c.int('mid', 0, 255)
    mem = c.new(ELT, c.get('mid'), 0x18, 0x10000, memh)
    c.let('mem', mem)
    c.reset_trace()
    return memh, mem


def n_requests(c):
    return len(c.get('trace_now'))


def refresh(c):
    c.snapshot('trace_now', "sent('cf.send_packet')")


def reply(c, memh, channel, head_expr, status, tail_expr='b""'):
    """deliver a device packet on the MEM port: data = head (id + address) + status + tail"""
    c.snapshot('rdata', "bytes(%s) + bytes([%d]) + bytes(%s)" % (head_expr, status, tail_expr))
    pk = c.new(STK + ':CRTPPacket', (4 << 4) | channel, c.get('rdata'))
    c.call((memh, '_new_packet_cb'), pk)
    c.ensure('reply-handled-without-exception', 'raised is None')
    c.snapshot('trace', 'trace')   # keep name bound


def quiescent(c):
    c.ensure('no-pending-read-record', 'len(memh._read_requests) == 0')
    c.ensure('no-pending-write-record', 'all(len(v) == 0 for v in memh._write_requests.values())')
    c.ensure('write-lock-free', 'not memh._write_requests_lock.locked()')


# --------------------------------------------------------------------------------------- reads

def _read(L, fault):
    @contract('C06', 'read.len%d.%s' % (L, fault), READ_F,
              clause='reading any address range returns exactly the device bytes; one notification; messages within protocol limits; '
                     'duplicated / stale / error replies and link drop tolerated; nothing left behind',
              bounded='length %d (enumerated 0,1,19,20,21,40,41,61); address, memory id and content symbolic' % L)
    def k(c):
        memh, mem = setup(c)
        c.int('addr', 0, 2 ** 32 - 1 - max(L, 1))
        M = c.bytes('M', L)
        c.call((memh, 'read'), mem, c.get('addr'), L)
        c.ensure('read-accepted', 'raised is None and result is True')
        got = 0
        steps = 0
        failed = False
        while True:
            refresh(c)
            n = n_requests(c)
            if n != steps + 1:
                break
            steps += 1
            c.snapshot('rq', 'trace_now[-1][1][0]')
            c.ensure('request-on-mem-read-channel', 'rq.port == 4 and rq.channel == 1 and len(rq.data) == 6 and rq.data[0] == mid')
            off = c.concretize("unpack('<I', bytes(rq.data[1:5]))[0] - addr")
            ln = c.concretize('rq.data[5]')
            c.let('off', off), c.let('ln', ln)
            c.ensure('request-inside-range-and-fits-one-reply', '0 <= off and off + ln <= %d and ln <= 24' % L)
            c.ensure('retry-pattern-is-id-and-address', "trace_now[-1][2]['expected_reply'] == tuple(rq.data[0:5])")
            if fault == 'stale' and steps == 1:
                # a late reply for some other address of the same memory arrives first
                c.int('stale_addr', 0, 2 ** 32 - 1)
                c.require('stale_addr != addr + off')
                reply(c, memh, 1, "bytes([mid]) + pack('<I', stale_addr)", 0, 'M[0:%d]' % min(L, 3))
            if fault == 'error' and steps == (2 if L > 20 else 1):
                reply(c, memh, 1, 'rq.data[0:5]', 5)
                failed = True
                break
            if fault == 'drop' and steps == (2 if L > 20 else 1):
                c.call((memh, '_disconnected'), 'radio://0/1')
                c.ensure('disconnect-handled', 'raised is None')
                failed = True
                break
            reply(c, memh, 1, 'rq.data[0:5]', 0, 'M[%d:%d]' % (off, off + ln))
            if fault == 'dup':
                reply(c, memh, 1, 'rq.data[0:5]', 0, 'M[%d:%d]' % (off, off + ln))
            if steps > 8:
                break
        c.snapshot('trace', 'trace')
        if failed:
            c.ensure('exactly-one-failure-notification', "len(sent('note_read_failed')) == 1 and len(sent('note_read')) == 0")
        else:
            c.ensure('exactly-one-success-notification', "len(sent('note_read')) == 1 and len(sent('note_read_failed')) == 0")
            c.snapshot('note', "sent('note_read')[0][1]")
            c.ensure('data-equals-device-bytes', 'is_same(note[0], mem) and note[1] == addr and bytes(note[2]) == M')
        c.ensure('all-messages-within-30-bytes', "all(len(e[1][0].data) <= 30 for e in sent('cf.send_packet'))")
        if fault != 'drop':
            quiescent(c)
        else:
            c.ensure('state-cleared-after-drop', 'len(memh._read_requests) == 0 and len(memh._write_requests) == 0 and not memh._write_requests_lock.locked()')
        # further requests are still served
        c.reset_trace()
        c.call((memh, 'read'), mem, c.get('addr'), 1)
        c.ensure('next-read-accepted', "raised is None and result is True and len(sent('cf.send_packet')) == 1")
    return k


for _L in (0, 1, 19, 20, 21, 40, 41, 61):
    _read(_L, 'none')
for _L in (1, 21, 41):
    for _f in ('dup', 'stale', 'error', 'drop'):
        _read(_L, _f)


@contract('C06', 'read.busy', [MEM + ':Memory.read'],
          clause='a second read of a memory with a read in flight is refused without any transmission and without disturbing the first')
def read_busy(c):
    memh, mem = setup(c)
    c.int('a1', 0, 1000), c.int('a2', 0, 1000)
    c.call((memh, 'read'), mem, c.get('a1'), 30)
    c.require('raised is None')
    c.reset_trace()
    c.call((memh, 'read'), mem, c.get('a2'), 10)
    c.ensure('refused', 'raised is None and result is False and len(trace) == 0')
    c.ensure('first-still-pending', 'len(memh._read_requests) == 1 and memh._read_requests[mid].addr == a1')


# --------------------------------------------------------------------------------------- writes

def device_apply_write(c, L, image):
    """apply the last write packet to the device image (dict offset -> spec expression string is not possible:
    we keep the image as a list of (offset, name) pairs bound in the namespace)"""
    c.snapshot('wq', 'trace_now[-1][1][0]')
    c.ensure('packet-on-mem-write-channel', 'wq.port == 4 and wq.channel == 2 and len(wq.data) >= 5 and wq.data[0] == mid')
    c.ensure('message-within-30-bytes', 'len(wq.data) <= 30')
    off = c.concretize("unpack('<I', bytes(wq.data[1:5]))[0] - addr")
    c.let('woff', off)
    n = c.concretize('len(wq.data)') - 5
    c.ensure('write-inside-range', '0 <= woff and woff + %d <= %d' % (n, L))
    c.ensure('retry-pattern-is-id-and-address', "trace_now[-1][2]['expected_reply'] == tuple(wq.data[0:5])")
    for i in range(n):
        if 0 <= off + i < L:
            nm = 'img_%d_%d' % (off + i, len(image))
            c.snapshot(nm, 'wq.data[%d]' % (5 + i))
            image[off + i] = nm
    return off, n


def _write(L, fault, kind):
    @contract('C06', 'write.len%d.%s.%s' % (L, fault, kind), WRITE_F,
              clause='a completed write leaves the device memory equal to the written data over the addressed range and unchanged elsewhere; '
                     'one notification; messages within protocol limits; duplicated / error replies and link drop tolerated; no lock or record left behind',
              bounded='length %d (enumerated 0,1,24,25,26,50,51,76); address, memory id and content symbolic' % L)
    def k(c):
        memh, mem = setup(c)
        c.int('addr', 0, 2 ** 32 - 1 - max(L, 1))
        data = c.ints('data', L, 0, 255, kind=kind)
        use_progress = c.choice('progress_cb', [False, True]) if fault == 'none' and L in (0, 26) else False
        pcb = c.ext('progress') if use_progress else None
        c.call((memh, 'write'), mem, c.get('addr'), data, False, pcb)
        c.ensure('write-accepted', 'raised is None and result is True')
        image = {}
        steps = 0
        failed = False
        while True:
            refresh(c)
            if n_requests(c) != steps + 1:
                break
            steps += 1
            off, n = device_apply_write(c, L, image)
            if fault == 'error' and steps == (2 if L > 25 else 1):
                reply(c, memh, 2, 'wq.data[0:5]', 7)
                failed = True
                break
            if fault == 'drop' and steps == (2 if L > 25 else 1):
                c.call((memh, '_disconnected'), 'radio://0/1')
                c.ensure('disconnect-handled', 'raised is None')
                failed = True
                break
            reply(c, memh, 2, 'wq.data[0:5]', 0)
            if fault == 'dup':
                reply(c, memh, 2, 'wq.data[0:5]', 0)
            if steps > 8:
                break
        c.snapshot('trace', 'trace')
        if failed:
            c.ensure('exactly-one-failure-notification', "len(sent('note_write_failed')) == 1 and len(sent('note_write')) == 0")
        else:
            c.ensure('exactly-one-success-notification', "len(sent('note_write')) == 1 and len(sent('note_write_failed')) == 0")
            c.ensure('notification-names-the-request', "is_same(sent('note_write')[0][1][0], mem) and sent('note_write')[0][1][1] == addr")
            c.ensure('every-byte-written', 'True' if L == 0 else ' and '.join(('%d' % i) in '' or ('%s == data[%d]' % (image.get(i, 'None'), i)) for i in range(L)))
        if fault != 'drop':
            quiescent(c)
        else:
            c.ensure('state-cleared-after-drop', 'len(memh._read_requests) == 0 and len(memh._write_requests) == 0 and not memh._write_requests_lock.locked()')
        c.reset_trace()
        c.call((memh, 'write'), mem, c.get('addr'), (1, 2, 3))
        c.ensure('next-write-served', "raised is None and result is True and len(sent('cf.send_packet')) == 1")
    return k


for _L in (0, 1, 24, 25, 26, 50, 51, 76):
    _write(_L, 'none', 'tuple')
_write(26, 'none', 'list')
for _L in (1, 26, 51):
    for _f in ('dup', 'error', 'drop'):
        _write(_L, _f, 'tuple')


def _queued(fault):
    @contract('C06', 'write.queued.%s' % fault, WRITE_F,
              clause='queued writes to one memory are performed in order, each completing with exactly one notification, also when the first one fails',
              bounded='two writes of 30 and 3 bytes to the same memory')
    def k(c):
        memh, mem = setup(c)
        c.int('addr', 0, 1000)
        c.int('addr2', 2000, 3000)
        d1 = c.ints('d1', 30, 0, 255, kind='tuple')
        d2 = c.ints('d2', 3, 0, 255, kind='tuple')
        c.call((memh, 'write'), mem, c.get('addr'), d1)
        c.require('raised is None')
        c.call((memh, 'write'), mem, c.get('addr2'), d2)
        c.ensure('second-write-queued-not-sent', "raised is None and len(sent('cf.send_packet')) == 1")
        order = []
        for step in range(6):
            refresh(c)
            n = n_requests(c)
            if n != step + 1:
                break
            c.snapshot('wq', 'trace_now[-1][1][0]')
            a = c.concretize("unpack('<I', bytes(wq.data[1:5]))[0]", limit=4) if False else None
            c.snapshot('is_first', "unpack('<I', bytes(wq.data[1:5]))[0] < 2000")
            first = bool(c.concretize('is_first'))
            order.append(1 if first else 2)
            if fault == 'error' and step == 0:
                reply(c, memh, 2, 'wq.data[0:5]', 9)
            else:
                reply(c, memh, 2, 'wq.data[0:5]', 0)
        c.snapshot('trace', 'trace')
        c.let('order', tuple(order))
        if fault == 'error':
            c.ensure('first-fails-second-still-performed', "order == (1, 2) and len(sent('note_write_failed')) == 1 and len(sent('note_write')) == 1")
            c.ensure('notifications-attributed', "sent('note_write_failed')[0][1][1] == addr and sent('note_write')[0][1][1] == addr2")
        else:
            c.ensure('performed-in-order', "order == (1, 1, 2) and len(sent('note_write')) == 2 and len(sent('note_write_failed')) == 0")
            c.ensure('notifications-in-order', "sent('note_write')[0][1][1] == addr and sent('note_write')[1][1][1] == addr2")
        c.ensure('second-payload-exact', "bytes(sent('cf.send_packet')[-1][1][0].data[5:]) == bytes(d2)")
        quiescent(c)
    return k


_queued('none')
_queued('error')


def _reentrant(event):
    @contract('C06', 'write.reentrant.%s' % event, WRITE_F + [MEM + ':Memory._call_all_failed_callbacks', MEM + ':Memory._disconnected'],
              clause='completion callbacks may issue new requests (the lock is not held while they run): a write started from a '
                     'success / failure / link-drop notification is served, nothing deadlocks, no lock is left behind',
              bounded='one 3-byte write, new 2-byte write issued from the notification')
    def k(c):
        cf = c.ext('cf')
        memh = c.new(MEM + ':Memory', cf)
        c.let('memh', memh)
        c.int('mid', 0, 255)
        mem = c.new(ELT, c.get('mid'), 0x18, 0x10000, memh)
        c.let('mem', mem)
        fired = []

        def again(*_a):
            if not fired:
                fired.append(1)
                c.invoke((memh, 'write'), mem, 77, (5, 6))
            return None
        ok = c.ext('note_write', returns={'()': again})
        bad = c.ext('note_write_failed', returns={'()': again})
        c.invoke((c.getfield(memh, 'mem_write_cb'), 'add_callback'), ok)
        c.invoke((c.getfield(memh, 'mem_write_failed_cb'), 'add_callback'), bad)
        c.reset_trace()
        c.int('addr', 0, 1000)
        c.call((memh, 'write'), mem, c.get('addr'), (1, 2, 3))
        c.require('raised is None')
        c.snapshot('wq', "sent('cf.send_packet')[-1][1][0]")
        if event == 'drop':
            c.call((memh, '_disconnected'), 'radio://0/1')
        else:
            c.snapshot('rdata', "bytes(wq.data[0:5]) + bytes([%d])" % (0 if event == 'success' else 3))
            pk = c.new(STK + ':CRTPPacket', (4 << 4) | 2, c.get('rdata'))
            c.call((memh, '_new_packet_cb'), pk)
        c.ensure('no-deadlock-no-exception', 'raised is None')
        c.ensure('notified-once', "len(sent('note_write')) + len(sent('note_write_failed')) == 1")
        c.ensure('write-from-callback-transmitted', "len(sent('cf.send_packet')) == 2 and bytes(sent('cf.send_packet')[-1][1][0].data[5:]) == bytes([5, 6])")
        c.ensure('write-lock-free', 'not memh._write_requests_lock.locked()')
    return k


for _e in ('success', 'failure', 'drop'):
    _reentrant(_e)


# --------------------------------------------------------------------------------------- per-step contracts, data of ANY length

RR = MEM + ':_ReadRequest'
WR = MEM + ':_WriteRequest'


@contract('C06', 'step.read.add_data', [RR + '.add_data', RR + '._request_new_chunk'],
          clause='inductive step of a read of ANY length: with `data` holding the device bytes [addr0, cur) a reply for `cur` with the next n device '
                 'bytes extends it to [addr0, cur+n); a reply for any other address changes nothing and sends nothing; the request is complete '
                 'exactly when no byte is left, and then data equals the device bytes of the whole range; the next request asks for at most 20 '
                 'bytes at cur+n')
def step_read(c):
    M = c.view('M', 'bytes')            # device bytes of the requested range, any length
    c.int('addr0', 0, 2 ** 32 - 1), c.int('k', 0), c.int('n', 0, 24), c.int('addr', 0, 2 ** 32 - 1), c.int('mid', 0, 255)
    c.require('k + n <= len(M) and addr0 + len(M) <= 2 ** 32 - 1 and k < len(M)')
    cf = c.ext('cf')
    mem = c.ext('mem', attrs={'id': c.get('mid')})
    rr = c.new(RR, mem, c.get('addr0'), c.snapshot('len0', 'len(M)'), cf)
    c.set(rr, 'data', c.snapshot('d0', 'bytearray(M[0:k])'))
    c.set(rr, '_bytes_left', c.snapshot('left0', 'len(M) - k'))
    c.set(rr, '_current_addr', c.snapshot('cur0', 'addr0 + k'))
    c.let('rr', rr)
    # the device answers a chunk request for cur0 with the next n bytes (n >= 1 unless nothing is left); other replies carry anything
    on_time = c.choice('reply_is_for_current_address', [True, False])
    if on_time:
        c.require('addr == cur0 and n >= 1')
        c.snapshot('chunk', 'M[k:k + n]')
    else:
        c.require('addr != cur0')
        c.let('chunk', c.view('junk', 'bytes', maxlen=24))
    c.call((rr, 'add_data'), c.get('addr'), c.get('chunk'))
    c.ensure('no-exception', 'raised is None')
    if on_time:
        c.ensure('data-extended-by-exactly-the-device-bytes', 'bytes(rr.data) == M[0:k + n] and rr._current_addr == addr0 + k + n and rr._bytes_left == len(M) - k - n')
        c.ensure('complete-iff-nothing-left', 'iff(result is True, k + n == len(M)) and (result is True or result is False)')
        c.ensure('complete-means-whole-range', 'implies(result is True, bytes(rr.data) == M)')
        c.ensure('next-request-iff-incomplete', "iff(len(sent('cf.send_packet')) == 1, k + n < len(M)) and len(sent('cf.send_packet')) <= 1")
        if len(c.get('trace')) == 1:
            c.snapshot('pk', "sent('cf.send_packet')[0][1][0]")
            c.ensure('next-request-layout', "pk.port == 4 and pk.channel == 1 and bytes(pk.data) == pack('<BIB', mid, addr0 + k + n, min(len(M) - k - n, 20))")
    else:
        c.ensure('other-address-changes-nothing', 'result is None and bytes(rr.data) == M[0:k] and rr._current_addr == cur0 and rr._bytes_left == left0 and len(trace) == 0')


@contract('C06', 'step.write.write_done', [WR + '.write_done', WR + '._write_new_chunk'],
          clause='inductive step of a write of ANY length: with data0[off2:] still to send and the chunk data0[off:off2] in flight at address '
                 'addr0+off, its acknowledgement sends exactly the next chunk data0[off2:min(off2+25, len)] at address addr0+off2 in a message of at '
                 'most 30 bytes, or completes the request when nothing is left; an acknowledgement for another address changes nothing')
def step_write(c):
    D = c.view('D', 'bytes')
    c.int('addr0', 0, 2 ** 32 - 1), c.int('off', 0), c.int('off2', 0), c.int('addr', 0, 2 ** 32 - 1), c.int('mid', 0, 255)
    c.require('off <= off2 and off2 <= len(D) and off2 - off <= 25 and addr0 + len(D) <= 2 ** 32 - 1')
    cf = c.ext('cf')
    mem = c.ext('mem', attrs={'id': c.get('mid')})
    wr = c.new(WR, mem, c.get('addr0'), D, cf)
    c.set(wr, '_data', c.snapshot('rest0', 'D[off2:]'))
    c.set(wr, '_current_addr', c.snapshot('cur0', 'addr0 + off'))
    c.set(wr, '_addr_add', c.snapshot('add0', 'off2 - off'))
    c.set(wr, '_bytes_left', c.snapshot('left0', 'len(D) - off2'))
    c.let('wr', wr)
    on_time = c.choice('ack_is_for_current_address', [True, False])
    c.require('addr == cur0' if on_time else 'addr != cur0')
    c.call((wr, 'write_done'), c.get('addr'))
    c.ensure('no-exception', 'raised is None')
    if on_time:
        c.ensure('complete-iff-nothing-left', 'iff(result is True, off2 == len(D)) and (result is True or result is False)')
        c.ensure('next-chunk-iff-incomplete', "iff(len(sent('cf.send_packet')) == 1, off2 < len(D)) and len(sent('cf.send_packet')) <= 1")
        if len(c.get('trace')) == 1:
            c.snapshot('pk', "sent('cf.send_packet')[0][1][0]")
            c.snapshot('off3', 'min(off2 + 25, len(D))')
            c.ensure('next-chunk-layout', "pk.port == 4 and pk.channel == 2 and bytes(pk.data[0:5]) == pack('<BI', mid, addr0 + off2) and bytes(pk.data[5:]) == D[off2:off3]")
            c.ensure('message-within-30-bytes', 'len(pk.data) <= 30')
            c.ensure('state-advanced', 'bytes(wr._data) == D[off3:] and wr._current_addr == addr0 + off2 and wr._addr_add == off3 - off2')
            c.ensure('retry-pattern', "sent('cf.send_packet')[0][2]['expected_reply'] == tuple(pk.data[0:5])")
        else:
            c.ensure('state-kept-when-complete', 'wr._current_addr == cur0 and bytes(wr._data) == D[off2:]')
    else:
        c.ensure('other-address-changes-nothing', 'result is None and bytes(wr._data) == D[off2:] and wr._current_addr == cur0 and wr._addr_add == add0 and len(trace) == 0')


# --------------------------------------------------------------------------------------- deck memories (address mapping)

DM = 'cflib.crazyflie.mem.deck_memory'


@contract('C06', 'deck.read-write-mapping', [DM + ':DeckMemory.read', DM + ':DeckMemory.write', DM + ':DeckMemoryManager._read', DM + ':DeckMemoryManager._write',
                                             DM + ':DeckMemoryManager._new_data', DM + ':DeckMemoryManager._new_data_failed', DM + ':DeckMemory.contains'],
          clause='reading / writing an address range of a deck memory addresses exactly base + address in the deck-memory space and reports the '
                 'data under the deck-relative address, once; a second request while one is in flight is refused')
def deck_mapping(c):
    memh = c.ext('memh', returns={'read': True, 'write': True})
    mgr = c.new(DM + ':DeckMemoryManager', 7, 0x19, 0x10000, memh)
    # deck memory windows start above the info and command sections of the deck-memory space (firmware: 0x10000000 per deck)
    c.int('base', 0x10000000, 2 ** 31), c.int('address', 0, 0x0FFFFFFF), c.int('length', 0, 4096)
    dm = c.new(DM + ':DeckMemory', mgr, 0x1100)
    c.set(dm, '_base_address', c.get('base'))
    c.set(dm, '_bit_field1', 1 | 2 | 4 | 8)        # valid, started, readable, writable
    c.let('mgr', mgr), c.let('dm', dm)
    ok, bad = c.ext('read_ok'), c.ext('read_failed')
    c.call((dm, 'read'), c.get('address'), c.get('length'), ok, bad)
    c.ensure('read-forwarded-to-mapped-address', "raised is None and len(trace) == 1 and sent('memh.read')[0][1] == (mgr, base + address, length)")
    c.call((dm, 'read'), c.get('address'), c.get('length'), ok, bad)
    c.ensure('second-read-refused-while-one-is-in-flight', "raised == 'Exception' and len(sent('memh.read')) == 1")
    outcome = c.choice('outcome', ['data', 'failed'])
    data = c.bytes('data', 3)
    c.reset_trace()
    if outcome == 'data':
        c.call((mgr, '_new_data'), mgr, c.snapshot('mapped', 'base + address'), data)
        c.ensure('data-reported-under-relative-address-once', "raised is None and len(trace) == 1 and sent('read_ok')[0][1] == (address, data)")
    else:
        c.call((mgr, '_new_data_failed'), mgr, c.snapshot('mapped', 'base + address'), data)
        c.ensure('failure-reported-under-relative-address-once', "raised is None and len(trace) == 1 and sent('read_failed')[0][1] == (address,)")
    c.reset_trace()
    c.call((dm, 'read'), c.get('address'), 1, ok, bad)
    c.ensure('next-read-served', "raised is None and len(sent('memh.read')) == 1")
    c.ensure('contains-iff-in-window', 'dm.contains(base) and dm.contains(base + dm.MEMORY_MAX_SIZE - 1) and not dm.contains(base + dm.MEMORY_MAX_SIZE) and (base == 0 or not dm.contains(base - 1))')
    wdata = c.bytes('wdata', 4)
    c.reset_trace()
    c.call((dm, 'write'), c.get('address'), wdata, c.ext('write_ok'), c.ext('write_failed'))
    c.ensure('write-forwarded-to-mapped-address', "raised is None and len(trace) == 1 and sent('memh.write')[0][1][0:3] == (mgr, base + address, wdata)")


def _read_reentrant(event):
    @contract('C06', 'read.reentrant.%s' % event, READ_F,
              clause='afterwards further requests are still served, also from inside the notification: a read of the same memory issued from the '
                     'success / failure notification of the previous one is accepted and transmitted, and no pending-request record is left behind',
              bounded='one 3-byte read; new 2-byte read issued from the notification')
    def k(c):
        cf = c.ext('cf')
        memh = c.new(MEM + ':Memory', cf)
        c.let('memh', memh)
        c.int('mid', 0, 255)
        mem = c.new(ELT, c.get('mid'), 0x18, 0x10000, memh)
        c.let('mem', mem)
        accepted = []

        def again(*_a):
            if not accepted:
                accepted.append(c.invoke((memh, 'read'), mem, 500, 2))
            return None
        ok = c.ext('note_read', returns={'()': again})
        bad = c.ext('note_read_failed', returns={'()': again})
        c.invoke((c.getfield(memh, 'mem_read_cb'), 'add_callback'), ok)
        c.invoke((c.getfield(memh, 'mem_read_failed_cb'), 'add_callback'), bad)
        c.reset_trace()
        c.int('addr', 0, 400)
        M = c.bytes('M', 3)
        c.call((memh, 'read'), mem, c.get('addr'), 3)
        c.require('raised is None')
        c.snapshot('rq', "sent('cf.send_packet')[-1][1][0]")
        c.snapshot('rdata', "bytes(rq.data[0:5]) + bytes([%d]) + M" % (0 if event == 'success' else 4))
        pk = c.new(STK + ':CRTPPacket', (4 << 4) | 1, c.get('rdata'))
        c.call((memh, '_new_packet_cb'), pk)
        c.ensure('no-exception', 'raised is None')
        c.ensure('notified-once', "len(sent('note_read')) + len(sent('note_read_failed')) == 1")
        c.let('accepted', accepted[0] if accepted else None)
        c.ensure('read-from-the-notification-accepted', 'accepted is True')
        c.ensure('read-from-the-notification-transmitted', "len(sent('cf.send_packet')) == 2 and bytes(sent('cf.send_packet')[-1][1][0].data) == pack('<BIB', mid, 500, 2)")
        c.ensure('exactly-the-new-request-is-pending', 'len(memh._read_requests) == 1 and memh._read_requests[mid].addr == 500')
    return k


for _e in ('success', 'failure'):
    _read_reentrant(_e)


@contract('C06', 'deck.write-completion', [DM + ':DeckMemory.write', DM + ':DeckMemoryManager._write', DM + ':DeckMemoryManager._write_done',
                                          DM + ':DeckMemoryManager._write_failed'],
          clause='every deck-memory write completes with exactly one success or failure notification (when a callback was given) and no pending '
                 'record is left behind: the next write is served whether or not the previous one failed and whether or not a failure callback '
                 'was supplied')
def deck_write_completion(c):
    memh = c.ext('memh', returns={'read': True, 'write': True})
    mgr = c.new(DM + ':DeckMemoryManager', 7, 0x19, 0x10000, memh)
    c.int('base', 0x10000000, 2 ** 31), c.int('address', 0, 0x0FFFFFFF)
    dm = c.new(DM + ':DeckMemory', mgr, 0x1100)
    c.set(dm, '_base_address', c.get('base'))
    c.set(dm, '_bit_field1', 1 | 2 | 4 | 8)
    c.let('mgr', mgr), c.let('dm', dm)
    outcome = c.choice('outcome', ['done', 'failed'])
    with_failed_cb = c.choice('failure_callback_given', [True, False])
    ok, bad = c.ext('write_ok'), c.ext('write_failed')
    wdata = c.bytes('wdata', 4)
    if with_failed_cb:
        c.call((dm, 'write'), c.get('address'), wdata, ok, bad)
    else:
        c.call((dm, 'write'), c.get('address'), wdata, ok)
    c.require('raised is None')
    c.reset_trace()
    if outcome == 'done':
        c.call((mgr, '_write_done'), mgr, c.snapshot('mapped', 'base + address'))
        c.ensure('success-notified-once', "raised is None and calls() == ('write_ok',)")
    else:
        c.call((mgr, '_write_failed'), mgr, c.snapshot('mapped', 'base + address'))
        c.let('with_cb', with_failed_cb)
        c.ensure('failure-notified-once-when-a-callback-was-given', "calls() == (('write_failed',) if with_cb else ())")
    c.reset_trace()
    c.call((dm, 'write'), c.get('address'), wdata, ok, bad)
    c.ensure('next-write-served', "raised is None and len(sent('memh.write')) == 1")
