"""C06 - memory reads and writes are exact, complete and never wedge the subsystem.

Histories of REAL calls on a real `Memory` object (real constructor) against a device model written in the contract:
the device holds an image M; it answers each read request with the bytes of M at the address the request carries and
applies each write packet to its image, acknowledging with the address it received (that is the assumed peer contract).
The contract does not prescribe the library's chunk sizes: it answers whatever is asked and checks the protocol
limits (<= 30 payload bytes per message, a read chunk must fit one reply: <= 24 bytes) and the end result.

Lengths of whole transfers are enumerated around the chunk boundaries of both directions (bounded, stated per contract);
addresses, memory ids and contents are symbolic.  For transfers of ANY length the induction over the chunks is closed by the
`step.*` contracts (data = window of an SMT array of symbolic length): base case `step.read.start` / `step.write.start`
(Memory.read / Memory.write establish the request state), request-level step `step.read.add_data` / `step.write.write_done`,
handler-level step `step.read.handler` / `step.write.handler` (notification raised and record removed exactly at the last chunk,
next queued write started).

Histories with several requests: flush_queue (write.flush.*: only the WAITING writes are superseded, the write in flight
completes), two memories with interleaved replies, read + write of one memory, link drop with five requests pending
(drop.every-pending-request-fails-once, incl. late replies of the old connection and re-use afterwards), unsolicited replies,
retransmission of the chunk in flight (read.resend / write.resend).
Timing: read.reply-before-send-returns.* delivers the first reply from INSIDE cf.send_packet (explicit schedule through an
effectful stub: the receiving thread is faster than the caller of Memory.read).
Objects requests are made through: enumeration.* (Memory.refresh ... get_mem / get_mems), tester.* (MemoryTester end to end
through the real Memory), deck.* (DeckMemory / DeckMemoryManager: address mapping, completion, blocking wrappers with the
completion delivered while the caller waits, command writes, disconnect, end to end through the real Memory).

Contracts under `thorough_only=True` that FAIL on the unchanged tree (each replays natively; reported to the maintainer of this
directory, not "fixed" here): tester.read.len0, tester.read.error-then-next-served, tester.read.validated-before-reported,
deck.write-notification-names-the-request, deck.query-failure-notified, enumeration.second-refresh-then-deck-read,
invalid-request.leaves-nothing-behind.

Assumed: a duplicated acknowledgement never carries the start address of the *next* queued write to the same memory
(the protocol has no sequence numbers; such an acknowledgement is indistinguishable from a genuine one).
Not covered: pre-emption between two statements of one function (two threads inside Memory.read of the same memory between
the busy check and the registration; Memory.write racing _call_all_failed_callbacks).  The lock model is sequential: a second
thread that has to WAIT for the write lock cannot be expressed (it is the pseudo exception Deadlock), so for writes the schedule
"acknowledgement handled before Memory.write has released the lock" is not explored separately - the lock itself makes it
equivalent to the sequential order the write.* histories run.  Not covered either: 1-wire memories (Memory.ow_search,
Memory._mem_update_done: header / element parsing of OWElement belongs to the 1-wire property), the other typed memories.
"""
from pyvc.api import contract

MEM = 'cflib.crazyflie.mem'
STK = 'cflib.crtp.crtpstack'
ELT = 'cflib.crazyflie.mem.memory_element:MemoryElement'

READ_F = [MEM + ':Memory.read', MEM + ':Memory._new_packet_cb', MEM + ':Memory._handle_chan_read', MEM + ':_ReadRequest.start',
          MEM + ':_ReadRequest._request_new_chunk', MEM + ':_ReadRequest.add_data']
WRITE_F = [MEM + ':Memory.write', MEM + ':Memory._new_packet_cb', MEM + ':Memory._handle_chan_write', MEM + ':_WriteRequest.start',
           MEM + ':_WriteRequest._write_new_chunk', MEM + ':_WriteRequest.write_done']


def setup(c, cf_returns=None):
    cf = c.ext('cf', returns=cf_returns or {})
    memh = c.new(MEM + ':Memory', cf)
    c.let('memh', memh)
    for nm in ('mem_read_cb', 'mem_read_failed_cb', 'mem_write_cb', 'mem_write_failed_cb'):
        c.invoke((c.getfield(memh, nm), 'add_callback'), c.ext(nm.replace('mem_', 'note_').replace('_cb', '')))
    c.int('mid', 0, 255)
    mem = c.new(ELT, c.get('mid'), 0x18, 0x10000, memh)
    c.let('mem', mem)
    c.reset_trace()
    return memh, mem


def n_requests(c):
    return len(c.get('trace_now'))


def refresh(c):
    c.snapshot('trace_now', "sent('cf.send_packet')")


def reply(c, memh, channel, head_expr, status, tail_expr='b""', tag=''):
    """deliver a device packet on the MEM port: data = head (id + address) + status + tail
    (tag: makes the obligation name unique when a history delivers several replies - replay and concordance match by name)"""
    c.snapshot('rdata', "bytes(%s) + bytes([%d]) + bytes(%s)" % (head_expr, status, tail_expr))
    pk = c.new(STK + ':CRTPPacket', (4 << 4) | channel, c.get('rdata'))
    c.call((memh, '_new_packet_cb'), pk)
    c.ensure('reply-handled-without-exception' + tag, 'raised is None')
    c.snapshot('trace', 'trace')   # keep name bound


def quiescent(c):
    c.ensure('no-pending-read-record', 'len(memh._read_requests) == 0')
    c.ensure('no-pending-write-record', 'all(len(v) == 0 for v in memh._write_requests.values())')
    c.ensure('write-lock-free', 'not memh._write_requests_lock.locked()')


# --------------------------------------------------------------------------------------- reads

def _read(L, fault):
    @contract('C06', 'read.len%d.%s' % (L, fault), READ_F,
              clause='reading any address range returns exactly the device bytes; one notification; messages within protocol limits; '
                     'duplicated / stale / error replies and link drop tolerated; nothing left behind',
              bounded='length %d (enumerated 0,1,19,20,21,40,41,61); address, memory id and content symbolic' % L)
    def k(c):
        memh, mem = setup(c)
        c.int('addr', 0, 2 ** 32 - 1 - max(L, 1))
        M = c.bytes('M', L)
        c.call((memh, 'read'), mem, c.get('addr'), L)
        c.ensure('read-accepted', 'raised is None and result is True')
        got = 0
        steps = 0
        failed = False
        while True:
            refresh(c)
            n = n_requests(c)
            if n != steps + 1:
                break
            steps += 1
            c.snapshot('rq', 'trace_now[-1][1][0]')
            c.ensure('request-on-mem-read-channel', 'rq.port == 4 and rq.channel == 1 and len(rq.data) == 6 and rq.data[0] == mid')
            off = c.concretize("unpack('<I', bytes(rq.data[1:5]))[0] - addr")
            ln = c.concretize('rq.data[5]')
            c.let('off', off), c.let('ln', ln)
            c.ensure('request-inside-range-and-fits-one-reply', '0 <= off and off + ln <= %d and ln <= 24' % L)
            c.ensure('retry-pattern-is-id-and-address', "trace_now[-1][2]['expected_reply'] == tuple(rq.data[0:5])")
            if fault == 'stale' and steps == 1:
                # a late reply for some other address of the same memory arrives first
                c.int('stale_addr', 0, 2 ** 32 - 1)
                c.require('stale_addr != addr + off')
                reply(c, memh, 1, "bytes([mid]) + pack('<I', stale_addr)", 0, 'M[0:%d]' % min(L, 3))
            if fault == 'error' and steps == (2 if L > 20 else 1):
                reply(c, memh, 1, 'rq.data[0:5]', 5)
                failed = True
                break
            if fault == 'drop' and steps == (2 if L > 20 else 1):
                c.call((memh, '_disconnected'), 'radio://0/1')
                c.ensure('disconnect-handled', 'raised is None')
                failed = True
                break
            reply(c, memh, 1, 'rq.data[0:5]', 0, 'M[%d:%d]' % (off, off + ln))
            if fault == 'dup':
                reply(c, memh, 1, 'rq.data[0:5]', 0, 'M[%d:%d]' % (off, off + ln))
            if steps > 8:
                break
        c.snapshot('trace', 'trace')
        if failed:
            c.ensure('exactly-one-failure-notification', "len(sent('note_read_failed')) == 1 and len(sent('note_read')) == 0")
        else:
            c.ensure('exactly-one-success-notification', "len(sent('note_read')) == 1 and len(sent('note_read_failed')) == 0")
            c.snapshot('note', "sent('note_read')[0][1]")
            c.ensure('data-equals-device-bytes', 'is_same(note[0], mem) and note[1] == addr and bytes(note[2]) == M')
        c.ensure('all-messages-within-30-bytes', "all(len(e[1][0].data) <= 30 for e in sent('cf.send_packet'))")
        if fault != 'drop':
            quiescent(c)
        else:
            c.ensure('state-cleared-after-drop', 'len(memh._read_requests) == 0 and len(memh._write_requests) == 0 and not memh._write_requests_lock.locked()')
        # further requests are still served
        c.reset_trace()
        c.call((memh, 'read'), mem, c.get('addr'), 1)
        c.ensure('next-read-accepted', "raised is None and result is True and len(sent('cf.send_packet')) == 1")
    return k


for _L in (0, 1, 19, 20, 21, 40, 41, 61):
    _read(_L, 'none')
for _L in (1, 21, 41):
    for _f in ('dup', 'stale', 'error', 'drop'):
        _read(_L, _f)


@contract('C06', 'read.busy', [MEM + ':Memory.read'],
          clause='a second read of a memory with a read in flight is refused without any transmission and without disturbing the first')
def read_busy(c):
    memh, mem = setup(c)
    c.int('a1', 0, 1000), c.int('a2', 0, 1000)
    c.call((memh, 'read'), mem, c.get('a1'), 30)
    c.require('raised is None')
    c.reset_trace()
    c.call((memh, 'read'), mem, c.get('a2'), 10)
    c.ensure('refused', 'raised is None and result is False and len(trace) == 0')
    c.ensure('first-still-pending', 'len(memh._read_requests) == 1 and memh._read_requests[mid].addr == a1')


# --------------------------------------------------------------------------------------- writes

def device_apply_write(c, L, image):
    """apply the last write packet to the device image (dict offset -> spec expression string is not possible:
    we keep the image as a list of (offset, name) pairs bound in the namespace)"""
    c.snapshot('wq', 'trace_now[-1][1][0]')
    c.ensure('packet-on-mem-write-channel', 'wq.port == 4 and wq.channel == 2 and len(wq.data) >= 5 and wq.data[0] == mid')
    c.ensure('message-within-30-bytes', 'len(wq.data) <= 30')
    off = c.concretize("unpack('<I', bytes(wq.data[1:5]))[0] - addr")
    c.let('woff', off)
    n = c.concretize('len(wq.data)') - 5
    c.ensure('write-inside-range', '0 <= woff and woff + %d <= %d' % (n, L))
    c.ensure('retry-pattern-is-id-and-address', "trace_now[-1][2]['expected_reply'] == tuple(wq.data[0:5])")
    for i in range(n):
        if 0 <= off + i < L:
            nm = 'img_%d_%d' % (off + i, len(image))
            c.snapshot(nm, 'wq.data[%d]' % (5 + i))
            image[off + i] = nm
    return off, n


def _write(L, fault, kind):
    @contract('C06', 'write.len%d.%s.%s' % (L, fault, kind), WRITE_F,
              clause='a completed write leaves the device memory equal to the written data over the addressed range and unchanged elsewhere; '
                     'one notification; messages within protocol limits; duplicated / error replies and link drop tolerated; no lock or record left behind',
              bounded='length %d (enumerated 0,1,24,25,26,50,51,76); address, memory id and content symbolic' % L)
    def k(c):
        memh, mem = setup(c)
        c.int('addr', 0, 2 ** 32 - 1 - max(L, 1))
        data = c.ints('data', L, 0, 255, kind=kind)
        use_progress = c.choice('progress_cb', [False, True]) if fault == 'none' and L in (0, 26) else False
        pcb = c.ext('progress') if use_progress else None
        c.call((memh, 'write'), mem, c.get('addr'), data, False, pcb)
        c.ensure('write-accepted', 'raised is None and result is True')
        image = {}
        steps = 0
        failed = False
        while True:
            refresh(c)
            if n_requests(c) != steps + 1:
                break
            steps += 1
            off, n = device_apply_write(c, L, image)
            if fault == 'error' and steps == (2 if L > 25 else 1):
                reply(c, memh, 2, 'wq.data[0:5]', 7)
                failed = True
                break
            if fault == 'drop' and steps == (2 if L > 25 else 1):
                c.call((memh, '_disconnected'), 'radio://0/1')
                c.ensure('disconnect-handled', 'raised is None')
                failed = True
                break
            reply(c, memh, 2, 'wq.data[0:5]', 0)
            if fault == 'dup':
                reply(c, memh, 2, 'wq.data[0:5]', 0)
            if steps > 8:
                break
        c.snapshot('trace', 'trace')
        if failed:
            c.ensure('exactly-one-failure-notification', "len(sent('note_write_failed')) == 1 and len(sent('note_write')) == 0")
        else:
            c.ensure('exactly-one-success-notification', "len(sent('note_write')) == 1 and len(sent('note_write_failed')) == 0")
            c.ensure('notification-names-the-request', "is_same(sent('note_write')[0][1][0], mem) and sent('note_write')[0][1][1] == addr")
            c.ensure('every-byte-written', 'True' if L == 0 else ' and '.join(('%d' % i) in '' or ('%s == data[%d]' % (image.get(i, 'None'), i)) for i in range(L)))
        if fault != 'drop':
            quiescent(c)
        else:
            c.ensure('state-cleared-after-drop', 'len(memh._read_requests) == 0 and len(memh._write_requests) == 0 and not memh._write_requests_lock.locked()')
        c.reset_trace()
        c.call((memh, 'write'), mem, c.get('addr'), (1, 2, 3))
        c.ensure('next-write-served', "raised is None and result is True and len(sent('cf.send_packet')) == 1")
    return k


for _L in (0, 1, 24, 25, 26, 50, 51, 76):
    _write(_L, 'none', 'tuple')
_write(26, 'none', 'list')
for _L in (1, 26, 51):
    for _f in ('dup', 'error', 'drop'):
        _write(_L, _f, 'tuple')


def _queued(fault):
    @contract('C06', 'write.queued.%s' % fault, WRITE_F,
              clause='queued writes to one memory are performed in order, each completing with exactly one notification, also when the first one fails',
              bounded='two writes of 30 and 3 bytes to the same memory')
    def k(c):
        memh, mem = setup(c)
        c.int('addr', 0, 1000)
        c.int('addr2', 2000, 3000)
        d1 = c.ints('d1', 30, 0, 255, kind='tuple')
        d2 = c.ints('d2', 3, 0, 255, kind='tuple')
        c.call((memh, 'write'), mem, c.get('addr'), d1)
        c.require('raised is None')
        c.call((memh, 'write'), mem, c.get('addr2'), d2)
        c.ensure('second-write-queued-not-sent', "raised is None and len(sent('cf.send_packet')) == 1")
        order = []
        for step in range(6):
            refresh(c)
            n = n_requests(c)
            if n != step + 1:
                break
            c.snapshot('wq', 'trace_now[-1][1][0]')
            a = c.concretize("unpack('<I', bytes(wq.data[1:5]))[0]", limit=4) if False else None
            c.snapshot('is_first', "unpack('<I', bytes(wq.data[1:5]))[0] < 2000")
            first = bool(c.concretize('is_first'))
            order.append(1 if first else 2)
            if fault == 'error' and step == 0:
                reply(c, memh, 2, 'wq.data[0:5]', 9)
            else:
                reply(c, memh, 2, 'wq.data[0:5]', 0)
        c.snapshot('trace', 'trace')
        c.let('order', tuple(order))
        if fault == 'error':
            c.ensure('first-fails-second-still-performed', "order == (1, 2) and len(sent('note_write_failed')) == 1 and len(sent('note_write')) == 1")
            c.ensure('notifications-attributed', "sent('note_write_failed')[0][1][1] == addr and sent('note_write')[0][1][1] == addr2")
        else:
            c.ensure('performed-in-order', "order == (1, 1, 2) and len(sent('note_write')) == 2 and len(sent('note_write_failed')) == 0")
            c.ensure('notifications-in-order', "sent('note_write')[0][1][1] == addr and sent('note_write')[1][1][1] == addr2")
        c.ensure('second-payload-exact', "bytes(sent('cf.send_packet')[-1][1][0].data[5:]) == bytes(d2)")
        quiescent(c)
    return k


_queued('none')
_queued('error')


def _reentrant(event):
    @contract('C06', 'write.reentrant.%s' % event, WRITE_F + [MEM + ':Memory._call_all_failed_callbacks', MEM + ':Memory._disconnected'],
              clause='completion callbacks may issue new requests (the lock is not held while they run): a write started from a '
                     'success / failure / link-drop notification is served, nothing deadlocks, no lock is left behind',
              bounded='one 3-byte write, new 2-byte write issued from the notification')
    def k(c):
        cf = c.ext('cf')
        memh = c.new(MEM + ':Memory', cf)
        c.let('memh', memh)
        c.int('mid', 0, 255)
        mem = c.new(ELT, c.get('mid'), 0x18, 0x10000, memh)
        c.let('mem', mem)
        fired = []

        def again(*_a):
            if not fired:
                fired.append(1)
                c.invoke((memh, 'write'), mem, 77, (5, 6))
            return None
        ok = c.ext('note_write', returns={'()': again})
        bad = c.ext('note_write_failed', returns={'()': again})
        c.invoke((c.getfield(memh, 'mem_write_cb'), 'add_callback'), ok)
        c.invoke((c.getfield(memh, 'mem_write_failed_cb'), 'add_callback'), bad)
        c.reset_trace()
        c.int('addr', 0, 1000)
        c.call((memh, 'write'), mem, c.get('addr'), (1, 2, 3))
        c.require('raised is None')
        c.snapshot('wq', "sent('cf.send_packet')[-1][1][0]")
        if event == 'drop':
            c.call((memh, '_disconnected'), 'radio://0/1')
        else:
            c.snapshot('rdata', "bytes(wq.data[0:5]) + bytes([%d])" % (0 if event == 'success' else 3))
            pk = c.new(STK + ':CRTPPacket', (4 << 4) | 2, c.get('rdata'))
            c.call((memh, '_new_packet_cb'), pk)
        c.ensure('no-deadlock-no-exception', 'raised is None')
        c.ensure('notified-once', "len(sent('note_write')) + len(sent('note_write_failed')) == 1")
        c.ensure('write-from-callback-transmitted', "len(sent('cf.send_packet')) == 2 and bytes(sent('cf.send_packet')[-1][1][0].data[5:]) == bytes([5, 6])")
        c.ensure('write-lock-free', 'not memh._write_requests_lock.locked()')
    return k


for _e in ('success', 'failure', 'drop'):
    _reentrant(_e)


# --------------------------------------------------------------------------------------- per-step contracts, data of ANY length

RR = MEM + ':_ReadRequest'
WR = MEM + ':_WriteRequest'


@contract('C06', 'step.read.add_data', [RR + '.add_data', RR + '._request_new_chunk'],
          clause='inductive step of a read of ANY length: with `data` holding the device bytes [addr0, cur) a reply for `cur` with the next n device '
                 'bytes extends it to [addr0, cur+n); a reply for any other address changes nothing and sends nothing; the request is complete '
                 'exactly when no byte is left, and then data equals the device bytes of the whole range; the next request asks for at most 20 '
                 'bytes at cur+n')
def step_read(c):
    M = c.view('M', 'bytes')            # device bytes of the requested range, any length
    c.int('addr0', 0, 2 ** 32 - 1), c.int('k', 0), c.int('n', 0, 24), c.int('addr', 0, 2 ** 32 - 1), c.int('mid', 0, 255)
    c.require('k + n <= len(M) and addr0 + len(M) <= 2 ** 32 - 1 and k < len(M)')
    cf = c.ext('cf')
    mem = c.ext('mem', attrs={'id': c.get('mid')})
    rr = c.new(RR, mem, c.get('addr0'), c.snapshot('len0', 'len(M)'), cf)
    c.set(rr, 'data', c.snapshot('d0', 'bytearray(M[0:k])'))
    c.set(rr, '_bytes_left', c.snapshot('left0', 'len(M) - k'))
    c.set(rr, '_current_addr', c.snapshot('cur0', 'addr0 + k'))
    c.let('rr', rr)
    # the device answers a chunk request for cur0 with the next n bytes (n >= 1 unless nothing is left); other replies carry anything
    on_time = c.choice('reply_is_for_current_address', [True, False])
    if on_time:
        c.require('addr == cur0 and n >= 1')
        c.snapshot('chunk', 'M[k:k + n]')
    else:
        c.require('addr != cur0')
        c.let('chunk', c.view('junk', 'bytes', maxlen=24))
    c.call((rr, 'add_data'), c.get('addr'), c.get('chunk'))
    c.ensure('no-exception', 'raised is None')
    if on_time:
        c.ensure('data-extended-by-exactly-the-device-bytes', 'bytes(rr.data) == M[0:k + n] and rr._current_addr == addr0 + k + n and rr._bytes_left == len(M) - k - n')
        c.ensure('complete-iff-nothing-left', 'iff(result is True, k + n == len(M)) and (result is True or result is False)')
        c.ensure('complete-means-whole-range', 'implies(result is True, bytes(rr.data) == M)')
        c.ensure('next-request-iff-incomplete', "iff(len(sent('cf.send_packet')) == 1, k + n < len(M)) and len(sent('cf.send_packet')) <= 1")
        if len(c.get('trace')) == 1:
            c.snapshot('pk', "sent('cf.send_packet')[0][1][0]")
            c.ensure('next-request-layout', "pk.port == 4 and pk.channel == 1 and bytes(pk.data) == pack('<BIB', mid, addr0 + k + n, min(len(M) - k - n, 20))")
    else:
        c.ensure('other-address-changes-nothing', 'result is None and bytes(rr.data) == M[0:k] and rr._current_addr == cur0 and rr._bytes_left == left0 and len(trace) == 0')


@contract('C06', 'step.write.write_done', [WR + '.write_done', WR + '._write_new_chunk'],
          clause='inductive step of a write of ANY length: with data0[off2:] still to send and the chunk data0[off:off2] in flight at address '
                 'addr0+off, its acknowledgement sends exactly the next chunk data0[off2:min(off2+25, len)] at address addr0+off2 in a message of at '
                 'most 30 bytes, or completes the request when nothing is left; an acknowledgement for another address changes nothing')
def step_write(c):
    D = c.view('D', 'bytes')
    c.int('addr0', 0, 2 ** 32 - 1), c.int('off', 0), c.int('off2', 0), c.int('addr', 0, 2 ** 32 - 1), c.int('mid', 0, 255)
    c.require('off <= off2 and off2 <= len(D) and off2 - off <= 25 and addr0 + len(D) <= 2 ** 32 - 1')
    cf = c.ext('cf')
    mem = c.ext('mem', attrs={'id': c.get('mid')})
    wr = c.new(WR, mem, c.get('addr0'), D, cf)
    c.set(wr, '_data', c.snapshot('rest0', 'D[off2:]'))
    c.set(wr, '_current_addr', c.snapshot('cur0', 'addr0 + off'))
    c.set(wr, '_addr_add', c.snapshot('add0', 'off2 - off'))
    c.set(wr, '_bytes_left', c.snapshot('left0', 'len(D) - off2'))
    c.let('wr', wr)
    on_time = c.choice('ack_is_for_current_address', [True, False])
    c.require('addr == cur0' if on_time else 'addr != cur0')
    c.call((wr, 'write_done'), c.get('addr'))
    c.ensure('no-exception', 'raised is None')
    if on_time:
        c.ensure('complete-iff-nothing-left', 'iff(result is True, off2 == len(D)) and (result is True or result is False)')
        c.ensure('next-chunk-iff-incomplete', "iff(len(sent('cf.send_packet')) == 1, off2 < len(D)) and len(sent('cf.send_packet')) <= 1")
        if len(c.get('trace')) == 1:
            c.snapshot('pk', "sent('cf.send_packet')[0][1][0]")
            c.snapshot('off3', 'min(off2 + 25, len(D))')
            c.ensure('next-chunk-layout', "pk.port == 4 and pk.channel == 2 and bytes(pk.data[0:5]) == pack('<BI', mid, addr0 + off2) and bytes(pk.data[5:]) == D[off2:off3]")
            c.ensure('message-within-30-bytes', 'len(pk.data) <= 30')
            c.ensure('state-advanced', 'bytes(wr._data) == D[off3:] and wr._current_addr == addr0 + off2 and wr._addr_add == off3 - off2')
            c.ensure('retry-pattern', "sent('cf.send_packet')[0][2]['expected_reply'] == tuple(pk.data[0:5])")
        else:
            c.ensure('state-kept-when-complete', 'wr._current_addr == cur0 and bytes(wr._data) == D[off2:]')
    else:
        c.ensure('other-address-changes-nothing', 'result is None and bytes(wr._data) == D[off2:] and wr._current_addr == cur0 and wr._addr_add == add0 and len(trace) == 0')


# --------------------------------------------------------------------------------------- deck memories (address mapping)

DM = 'cflib.crazyflie.mem.deck_memory'


@contract('C06', 'deck.read-write-mapping', [DM + ':DeckMemory.read', DM + ':DeckMemory.write', DM + ':DeckMemoryManager._read', DM + ':DeckMemoryManager._write',
                                             DM + ':DeckMemoryManager._new_data', DM + ':DeckMemoryManager._new_data_failed', DM + ':DeckMemory.contains'],
          clause='reading / writing an address range of a deck memory addresses exactly base + address in the deck-memory space and reports the '
                 'data under the deck-relative address, once; a second request while one is in flight is refused')
def deck_mapping(c):
    memh = c.ext('memh', returns={'read': True, 'write': True})
    mgr = c.new(DM + ':DeckMemoryManager', 7, 0x19, 0x10000, memh)
    # deck memory windows start above the info and command sections of the deck-memory space (firmware: 0x10000000 per deck)
    c.int('base', 0x10000000, 2 ** 31), c.int('address', 0, 0x0FFFFFFF), c.int('length', 0, 4096)
    dm = c.new(DM + ':DeckMemory', mgr, 0x1100)
    c.set(dm, '_base_address', c.get('base'))
    c.set(dm, '_bit_field1', 1 | 2 | 4 | 8)        # valid, started, readable, writable
    c.let('mgr', mgr), c.let('dm', dm)
    ok, bad = c.ext('read_ok'), c.ext('read_failed')
    c.call((dm, 'read'), c.get('address'), c.get('length'), ok, bad)
    c.ensure('read-forwarded-to-mapped-address', "raised is None and len(trace) == 1 and sent('memh.read')[0][1] == (mgr, base + address, length)")
    c.call((dm, 'read'), c.get('address'), c.get('length'), ok, bad)
    c.ensure('second-read-refused-while-one-is-in-flight', "raised == 'Exception' and len(sent('memh.read')) == 1")
    outcome = c.choice('outcome', ['data', 'failed'])
    data = c.bytes('data', 3)
    c.reset_trace()
    if outcome == 'data':
        c.call((mgr, '_new_data'), mgr, c.snapshot('mapped', 'base + address'), data)
        c.ensure('data-reported-under-relative-address-once', "raised is None and len(trace) == 1 and sent('read_ok')[0][1] == (address, data)")
    else:
        c.call((mgr, '_new_data_failed'), mgr, c.snapshot('mapped', 'base + address'), data)
        c.ensure('failure-reported-under-relative-address-once', "raised is None and len(trace) == 1 and sent('read_failed')[0][1] == (address,)")
    c.reset_trace()
    c.call((dm, 'read'), c.get('address'), 1, ok, bad)
    c.ensure('next-read-served', "raised is None and len(sent('memh.read')) == 1")
    c.ensure('contains-iff-in-window', 'dm.contains(base) and dm.contains(base + dm.MEMORY_MAX_SIZE - 1) and not dm.contains(base + dm.MEMORY_MAX_SIZE) and (base == 0 or not dm.contains(base - 1))')
    wdata = c.bytes('wdata', 4)
    c.reset_trace()
    c.call((dm, 'write'), c.get('address'), wdata, c.ext('write_ok'), c.ext('write_failed'))
    c.ensure('write-forwarded-to-mapped-address', "raised is None and len(trace) == 1 and sent('memh.write')[0][1][0:3] == (mgr, base + address, wdata)")


def _read_reentrant(event):
    @contract('C06', 'read.reentrant.%s' % event, READ_F,
              clause='afterwards further requests are still served, also from inside the notification: a read of the same memory issued from the '
                     'success / failure notification of the previous one is accepted and transmitted, and no pending-request record is left behind',
              bounded='one 3-byte read; new 2-byte read issued from the notification')
    def k(c):
        cf = c.ext('cf')
        memh = c.new(MEM + ':Memory', cf)
        c.let('memh', memh)
        c.int('mid', 0, 255)
        mem = c.new(ELT, c.get('mid'), 0x18, 0x10000, memh)
        c.let('mem', mem)
        accepted = []

        def again(*_a):
            if not accepted:
                accepted.append(c.invoke((memh, 'read'), mem, 500, 2))
            return None
        ok = c.ext('note_read', returns={'()': again})
        bad = c.ext('note_read_failed', returns={'()': again})
        c.invoke((c.getfield(memh, 'mem_read_cb'), 'add_callback'), ok)
        c.invoke((c.getfield(memh, 'mem_read_failed_cb'), 'add_callback'), bad)
        c.reset_trace()
        c.int('addr', 0, 400)
        M = c.bytes('M', 3)
        c.call((memh, 'read'), mem, c.get('addr'), 3)
        c.require('raised is None')
        c.snapshot('rq', "sent('cf.send_packet')[-1][1][0]")
        c.snapshot('rdata', "bytes(rq.data[0:5]) + bytes([%d]) + M" % (0 if event == 'success' else 4))
        pk = c.new(STK + ':CRTPPacket', (4 << 4) | 1, c.get('rdata'))
        c.call((memh, '_new_packet_cb'), pk)
        c.ensure('no-exception', 'raised is None')
        c.ensure('notified-once', "len(sent('note_read')) + len(sent('note_read_failed')) == 1")
        c.let('accepted', accepted[0] if accepted else None)
        c.ensure('read-from-the-notification-accepted', 'accepted is True')
        c.ensure('read-from-the-notification-transmitted', "len(sent('cf.send_packet')) == 2 and bytes(sent('cf.send_packet')[-1][1][0].data) == pack('<BIB', mid, 500, 2)")
        c.ensure('exactly-the-new-request-is-pending', 'len(memh._read_requests) == 1 and memh._read_requests[mid].addr == 500')
    return k


for _e in ('success', 'failure'):
    _read_reentrant(_e)


@contract('C06', 'deck.write-completion', [DM + ':DeckMemory.write', DM + ':DeckMemoryManager._write', DM + ':DeckMemoryManager._write_done',
                                          DM + ':DeckMemoryManager._write_failed'],
          clause='every deck-memory write completes with exactly one success or failure notification (when a callback was given) and no pending '
                 'record is left behind: the next write is served whether or not the previous one failed and whether or not a failure callback '
                 'was supplied')
def deck_write_completion(c):
    memh = c.ext('memh', returns={'read': True, 'write': True})
    mgr = c.new(DM + ':DeckMemoryManager', 7, 0x19, 0x10000, memh)
    c.int('base', 0x10000000, 2 ** 31), c.int('address', 0, 0x0FFFFFFF)
    dm = c.new(DM + ':DeckMemory', mgr, 0x1100)
    c.set(dm, '_base_address', c.get('base'))
    c.set(dm, '_bit_field1', 1 | 2 | 4 | 8)
    c.let('mgr', mgr), c.let('dm', dm)
    outcome = c.choice('outcome', ['done', 'failed'])
    with_failed_cb = c.choice('failure_callback_given', [True, False])
    ok, bad = c.ext('write_ok'), c.ext('write_failed')
    wdata = c.bytes('wdata', 4)
    if with_failed_cb:
        c.call((dm, 'write'), c.get('address'), wdata, ok, bad)
    else:
        c.call((dm, 'write'), c.get('address'), wdata, ok)
    c.require('raised is None')
    c.reset_trace()
    if outcome == 'done':
        c.call((mgr, '_write_done'), mgr, c.snapshot('mapped', 'base + address'))
        c.ensure('success-notified-once', "raised is None and calls() == ('write_ok',)")
    else:
        c.call((mgr, '_write_failed'), mgr, c.snapshot('mapped', 'base + address'))
        c.let('with_cb', with_failed_cb)
        c.ensure('failure-notified-once-when-a-callback-was-given', "calls() == (('write_failed',) if with_cb else ())")
    c.reset_trace()
    c.call((dm, 'write'), c.get('address'), wdata, ok, bad)
    c.ensure('next-write-served', "raised is None and len(sent('memh.write')) == 1")


# --------------------------------------------------------------------------------------- several writes in one history (general device model)

def serve_writes(c, memh, regions, faults=None, max_steps=10, mid_expr='mid', after_ack=None):
    """Device model for a history of several writes to ONE memory: every write packet the library transmits is checked
    against the protocol limits, attributed to the request whose address range [addr_k, addr_k + L_k) it falls in
    (`regions` = [(name of the start address, L)], the ranges are disjoint by construction: k * 2000 + [0, 1000]),
    applied to the device image of that request and acknowledged.  `faults` maps a 0-based step to an error status.
    Returns (order, images): the request index per transmitted packet, and per request offset -> name of the byte value."""
    faults = faults or {}
    order, images = [], [dict() for _ in regions]
    for step in range(max_steps):
        refresh(c)
        if n_requests(c) != step + 1:
            break
        c.snapshot('wq', 'trace_now[-1][1][0]')
        tag = '@%d' % step
        c.ensure('packet-on-mem-write-channel' + tag, 'wq.port == 4 and wq.channel == 2 and len(wq.data) >= 5 and wq.data[0] == %s' % mid_expr)
        c.ensure('message-within-30-bytes' + tag, 'len(wq.data) <= 30')
        k = c.concretize("unpack('<I', bytes(wq.data[1:5]))[0] // 2000", limit=8)
        if not 0 <= k < len(regions):
            c.ensure('packet-belongs-to-a-request' + tag, 'False')
            break
        order.append(k)
        an, L = regions[k]
        off = c.concretize("unpack('<I', bytes(wq.data[1:5]))[0] - %s" % an)
        n = c.concretize('len(wq.data)') - 5
        c.let('woff', off)
        c.ensure('write-inside-range' + tag, '0 <= woff and woff + %d <= %d' % (n, L))
        for i in range(n):
            nm = 'img%d_%d_%d' % (k, off + i, step)
            c.snapshot(nm, 'wq.data[%d]' % (5 + i))
            images[k][off + i] = nm
        reply(c, memh, 2, 'wq.data[0:5]', faults.get(step, 0), tag=tag)
        if after_ack is not None:
            after_ack(step)
    c.snapshot('trace', 'trace')
    return order, images


def image_equals(image, L, dname):
    return 'True' if L == 0 else ' and '.join('%s == %s[%d]' % (image.get(i, 'None'), dname, i) for i in range(L))


def note_addrs(c, name):
    return "tuple(e[1][1] for e in sent('%s'))" % name


def _flush(scenario):
    @contract('C06', 'write.flush.%s' % scenario, WRITE_F,
              clause='every write request that is not explicitly superseded completes with exactly one notification and queued writes are performed in '
                     'order: write(..., flush_queue=True) supersedes only the writes still WAITING in the queue of that memory; the write in flight is '
                     'completed (all its chunks reach the device, one notification) and the new write is performed right after it',
              bounded='writes of 30 (two chunks), 3 and 4 bytes to one memory; addresses, memory id and contents symbolic')
    def k(c):
        memh, mem = setup(c)
        c.int('addr', 0, 1000), c.int('addr2', 2000, 3000), c.int('addr3', 4000, 5000)
        d1 = c.ints('d1', 30, 0, 255, kind='tuple')
        d2 = c.ints('d2', 3, 0, 255, kind='tuple')
        d3 = c.ints('d3', 4, 0, 255, kind='tuple')
        regions = [('addr', 30), ('addr2', 3), ('addr3', 4)]
        faults = {}
        if scenario in ('inflight', 'inflight+queued', 'inflight-fails', 'after-first-chunk'):
            c.call((memh, 'write'), mem, c.get('addr'), d1)
            c.require('raised is None')
        if scenario == 'inflight+queued':
            c.call((memh, 'write'), mem, c.get('addr2'), d2)
            c.require('raised is None')
        if scenario == 'idle-again':
            # an earlier write has completed: the queue of this memory exists and is empty
            c.call((memh, 'write'), mem, c.get('addr2'), d2)
            c.require('raised is None')
            refresh(c)
            c.snapshot('wq', 'trace_now[-1][1][0]')
            reply(c, memh, 2, 'wq.data[0:5]', 0, tag='@first')
            c.reset_trace()
        if scenario == 'inflight-fails':
            faults = {0: 6}
        if scenario == 'after-first-chunk':
            # the flushing write arrives between the two chunks of the write in flight
            def flush_now(step):
                if step == 0:
                    c.call((memh, 'write'), mem, c.get('addr3'), d3, True)
                    c.ensure('flushing-write-accepted', 'raised is None and result is True')
            order, images = serve_writes(c, memh, regions, faults, after_ack=flush_now)
        else:
            c.call((memh, 'write'), mem, c.get('addr3'), d3, True)
            c.ensure('flushing-write-accepted', 'raised is None and result is True')
            if scenario in ('idle', 'idle-again'):
                c.ensure('idle-queue-new-write-transmitted-at-once', "len(sent('cf.send_packet')) == 1")
            else:
                c.ensure('nothing-transmitted-while-a-write-is-in-flight', "len(sent('cf.send_packet')) == 1")
            order, images = serve_writes(c, memh, regions, faults)
        c.let('order', tuple(order))
        c.let('ok_addrs', c.snapshot('ok_addrs_', note_addrs(c, 'note_write')))
        c.let('bad_addrs', c.snapshot('bad_addrs_', note_addrs(c, 'note_write_failed')))
        if scenario in ('idle', 'idle-again'):
            c.ensure('new-write-performed', 'order == (2,) and ok_addrs == (addr3,) and bad_addrs == ()')
        elif scenario == 'inflight-fails':
            c.ensure('in-flight-write-fails-once-then-new-write-performed', 'order == (0, 2) and bad_addrs == (addr,) and ok_addrs == (addr3,)')
        else:
            c.ensure('in-flight-write-completed-then-new-write-performed-superseded-one-never-sent', 'order == (0, 0, 2)')
            c.ensure('one-notification-each-in-order', 'ok_addrs == (addr, addr3) and bad_addrs == ()')
            c.ensure('in-flight-write-reached-the-device-completely', image_equals(images[0], 30, 'd1'))
        c.ensure('new-write-reached-the-device-completely', image_equals(images[2], 4, 'd3'))
        quiescent(c)
    return k


for _s in ('idle', 'idle-again', 'inflight', 'inflight+queued', 'inflight-fails', 'after-first-chunk'):
    _flush(_s)


# --------------------------------------------------------------------------------------- several memories / both directions at once

def second_memory(c, memh):
    c.int('mid2', 0, 255)
    c.require('mid2 != mid')
    mem2 = c.new(ELT, c.get('mid2'), 0x18, 0x10000, memh)
    c.let('mem2', mem2)
    return mem2


def answer_read(c, memh, idx, an, mn, L, midx='mid', status=0, tag=None):
    """the device answers the idx-th transmitted packet (a read request) with the bytes of its image `mn` the request asks for"""
    c.snapshot('rq', "sent('cf.send_packet')[%d][1][0]" % idx)
    tag = '@%d' % idx if tag is None else tag
    c.ensure('request-on-mem-read-channel' + tag, 'rq.port == 4 and rq.channel == 1 and len(rq.data) == 6 and rq.data[0] == %s' % midx)
    off = c.concretize("unpack('<I', bytes(rq.data[1:5]))[0] - %s" % an)
    ln = c.concretize('rq.data[5]')
    c.let('off', off), c.let('ln', ln)
    c.ensure('request-inside-range-and-fits-one-reply' + tag, '0 <= off and off + ln <= %d and ln <= 24' % L)
    reply(c, memh, 1, 'rq.data[0:5]', status, '%s[%d:%d]' % (mn, max(off, 0), max(off + ln, 0)), tag=tag)


def ack_write(c, memh, idx, an, L, image, midx='mid', status=0, tag=None):
    """the device applies the idx-th transmitted packet (a write) to `image` and acknowledges it"""
    c.snapshot('wq', "sent('cf.send_packet')[%d][1][0]" % idx)
    tag = '@%d' % idx if tag is None else tag
    c.ensure('packet-on-mem-write-channel' + tag, 'wq.port == 4 and wq.channel == 2 and len(wq.data) >= 5 and wq.data[0] == %s' % midx)
    c.ensure('message-within-30-bytes' + tag, 'len(wq.data) <= 30')
    off = c.concretize("unpack('<I', bytes(wq.data[1:5]))[0] - %s" % an)
    n = c.concretize('len(wq.data)') - 5
    c.let('woff', off)
    c.ensure('write-inside-range' + tag, '0 <= woff and woff + %d <= %d' % (n, L))
    for i in range(n):
        nm = 'im_%s_%d_%d' % (an, off + i, idx)
        c.snapshot(nm, 'wq.data[%d]' % (5 + i))
        image[off + i] = nm
    reply(c, memh, 2, 'wq.data[0:5]', status, tag=tag)


def n_sent(c):
    refresh(c)
    return n_requests(c)


def _two_reads(fault):
    @contract('C06', 'two-memories.reads-interleaved.%s' % fault, READ_F,
              clause='reading any address range of ANY memory returns exactly the bytes the device holds there: reads of two memories in flight at the '
                     'same time, their replies interleaved, each complete with exactly one notification carrying the bytes of its own memory and range; '
                     'an error reported for one memory fails only the read of that memory',
              bounded='two reads of 21 bytes (two chunks each); ids, addresses and contents symbolic; one interleaving (B, A, A, B)')
    def k(c):
        memh, mem = setup(c)
        second_memory(c, memh)
        c.int('addrA', 0, 2 ** 32 - 100), c.int('addrB', 0, 2 ** 32 - 100)
        c.bytes('MA', 21), c.bytes('MB', 21)
        c.call((memh, 'read'), mem, c.get('addrA'), 21)
        c.ensure('read-A-accepted', 'raised is None and result is True')
        c.call((memh, 'read'), c.get('mem2'), c.get('addrB'), 21)
        c.ensure('read-B-accepted-while-A-is-in-flight', "raised is None and result is True and len(sent('cf.send_packet')) == 2")
        if n_sent(c) != 2:
            return
        nA = "sent('note_read')[0][1]"
        if fault == 'error-on-B':
            answer_read(c, memh, 1, 'addrB', 'MB', 21, 'mid2', status=17)
            c.ensure('B-fails-alone', "len(sent('cf.send_packet')) == 2 and len(sent('note_read_failed')) == 1 and len(sent('note_read')) == 0 "
                                      "and len(memh._read_requests) == 1")
            c.ensure('failure-names-B', "is_same(sent('note_read_failed')[0][1][0], mem2) and sent('note_read_failed')[0][1][1] == addrB")
            answer_read(c, memh, 0, 'addrA', 'MA', 21, 'mid')
            if n_sent(c) != 3:
                c.ensure('A-continues', 'False')
                return
            answer_read(c, memh, 2, 'addrA', 'MA', 21, 'mid')
            c.ensure('A-completes-once', "len(sent('note_read')) == 1 and len(sent('note_read_failed')) == 1 and len(sent('cf.send_packet')) == 3")
            c.ensure('A-data-equals-device-bytes-of-A', 'is_same(%s[0], mem) and %s[1] == addrA and bytes(%s[2]) == MA' % (nA, nA, nA))
            quiescent(c)
            return
        answer_read(c, memh, 1, 'addrB', 'MB', 21, 'mid2')      # -> packet 2 = second chunk request of B
        c.ensure('B-continues', "len(sent('cf.send_packet')) == 3 and len(sent('note_read')) == 0")
        if n_sent(c) != 3:
            return
        answer_read(c, memh, 0, 'addrA', 'MA', 21, 'mid')       # -> packet 3 = second chunk request of A
        c.ensure('A-continues', "len(sent('cf.send_packet')) == 4 and len(sent('note_read')) == 0")
        if n_sent(c) != 4:
            return
        answer_read(c, memh, 3, 'addrA', 'MA', 21, 'mid')
        c.ensure('A-complete-B-still-pending', "len(sent('note_read')) == 1 and len(memh._read_requests) == 1")
        answer_read(c, memh, 2, 'addrB', 'MB', 21, 'mid2')
        c.ensure('one-notification-each', "len(sent('note_read')) == 2 and len(sent('note_read_failed')) == 0 and len(sent('cf.send_packet')) == 4")
        nB = "sent('note_read')[1][1]"
        c.ensure('A-data-equals-device-bytes-of-A', 'is_same(%s[0], mem) and %s[1] == addrA and bytes(%s[2]) == MA' % (nA, nA, nA))
        c.ensure('B-data-equals-device-bytes-of-B', 'is_same(%s[0], mem2) and %s[1] == addrB and bytes(%s[2]) == MB' % (nB, nB, nB))
        quiescent(c)
    return k


_two_reads('none')
_two_reads('error-on-B')


def _two_writes(fault):
    @contract('C06', 'two-memories.writes-interleaved.%s' % fault, WRITE_F,
              clause='a completed write leaves the device memory equal to the written data: writes to two memories in flight at the same time, their '
                     'acknowledgements interleaved, each complete with exactly one notification; an error reported for one memory fails only the '
                     'write of that memory',
              bounded='two writes of 26 bytes (two chunks each); ids, addresses and contents symbolic; one interleaving (B, A, A, B)')
    def k(c):
        memh, mem = setup(c)
        second_memory(c, memh)
        c.int('addrA', 0, 2 ** 32 - 100), c.int('addrB', 0, 2 ** 32 - 100)
        dA = c.ints('dA', 26, 0, 255, kind='tuple')
        dB = c.ints('dB', 26, 0, 255, kind='tuple')
        imA, imB = {}, {}
        c.call((memh, 'write'), mem, c.get('addrA'), dA)
        c.ensure('write-A-accepted', 'raised is None and result is True')
        c.call((memh, 'write'), c.get('mem2'), c.get('addrB'), dB)
        c.ensure('write-B-transmitted-while-A-is-in-flight', "raised is None and result is True and len(sent('cf.send_packet')) == 2")
        if n_sent(c) != 2:
            return
        if fault == 'error-on-B':
            ack_write(c, memh, 1, 'addrB', 26, imB, 'mid2', status=12)
            c.ensure('B-fails-alone', "len(sent('cf.send_packet')) == 2 and len(sent('note_write_failed')) == 1 and len(sent('note_write')) == 0")
            c.ensure('failure-names-B', "is_same(sent('note_write_failed')[0][1][0], mem2) and sent('note_write_failed')[0][1][1] == addrB")
            ack_write(c, memh, 0, 'addrA', 26, imA, 'mid')
            if n_sent(c) != 3:
                c.ensure('A-continues', 'False')
                return
            ack_write(c, memh, 2, 'addrA', 26, imA, 'mid')
            c.ensure('A-completes-once', "len(sent('note_write')) == 1 and len(sent('note_write_failed')) == 1 and len(sent('cf.send_packet')) == 3")
            c.ensure('success-names-A', "is_same(sent('note_write')[0][1][0], mem) and sent('note_write')[0][1][1] == addrA")
            c.ensure('every-byte-of-A-written', image_equals(imA, 26, 'dA'))
            quiescent(c)
            return
        ack_write(c, memh, 1, 'addrB', 26, imB, 'mid2')
        c.ensure('B-continues', "len(sent('cf.send_packet')) == 3 and len(sent('note_write')) == 0")
        if n_sent(c) != 3:
            return
        ack_write(c, memh, 0, 'addrA', 26, imA, 'mid')
        c.ensure('A-continues', "len(sent('cf.send_packet')) == 4 and len(sent('note_write')) == 0")
        if n_sent(c) != 4:
            return
        ack_write(c, memh, 3, 'addrA', 26, imA, 'mid')
        c.ensure('A-complete-B-still-pending', "len(sent('note_write')) == 1")
        ack_write(c, memh, 2, 'addrB', 26, imB, 'mid2')
        c.ensure('one-notification-each', "len(sent('note_write')) == 2 and len(sent('note_write_failed')) == 0 and len(sent('cf.send_packet')) == 4")
        nA, nB = "sent('note_write')[0][1]", "sent('note_write')[1][1]"
        c.ensure('notifications-name-their-requests', 'is_same(%s[0], mem) and %s[1] == addrA and is_same(%s[0], mem2) and %s[1] == addrB' % (nA, nA, nB, nB))
        c.ensure('every-byte-of-A-written', image_equals(imA, 26, 'dA'))
        c.ensure('every-byte-of-B-written', image_equals(imB, 26, 'dB'))
        quiescent(c)
    return k


_two_writes('none')
_two_writes('error-on-B')


@contract('C06', 'read-and-write-same-memory', READ_F + WRITE_F,
          clause='a read and a write of the SAME memory in flight at the same time do not disturb each other: each completes with exactly one '
                 'notification, the read returns the device bytes, the write reaches the device completely, no record or lock is left behind',
          bounded='one read of 21 bytes and one write of 26 bytes; id, addresses and contents symbolic; one interleaving (w, r, r, w)')
def read_and_write(c):
    memh, mem = setup(c)
    c.int('addrR', 0, 2 ** 32 - 100), c.int('addrW', 0, 2 ** 32 - 100)
    c.bytes('MR', 21)
    dW = c.ints('dW', 26, 0, 255, kind='tuple')
    im = {}
    c.call((memh, 'read'), mem, c.get('addrR'), 21)
    c.ensure('read-accepted', 'raised is None and result is True')
    c.call((memh, 'write'), mem, c.get('addrW'), dW)
    c.ensure('write-transmitted-while-the-read-is-in-flight', "raised is None and result is True and len(sent('cf.send_packet')) == 2")
    if n_sent(c) != 2:
        return
    ack_write(c, memh, 1, 'addrW', 26, im)
    if n_sent(c) != 3:
        c.ensure('write-continues', 'False')
        return
    answer_read(c, memh, 0, 'addrR', 'MR', 21)
    if n_sent(c) != 4:
        c.ensure('read-continues', 'False')
        return
    answer_read(c, memh, 3, 'addrR', 'MR', 21)
    c.ensure('read-complete-write-pending', "len(sent('note_read')) == 1 and len(sent('note_write')) == 0")
    ack_write(c, memh, 2, 'addrW', 26, im)
    c.ensure('one-notification-each', "len(sent('note_read')) == 1 and len(sent('note_write')) == 1 and len(sent('note_read_failed')) == 0 "
                                      "and len(sent('note_write_failed')) == 0 and len(sent('cf.send_packet')) == 4")
    nR = "sent('note_read')[0][1]"
    c.ensure('read-data-equals-device-bytes', 'is_same(%s[0], mem) and %s[1] == addrR and bytes(%s[2]) == MR' % (nR, nR, nR))
    c.ensure('every-byte-written', image_equals(im, 26, 'dW'))
    quiescent(c)


# --------------------------------------------------------------------------------------- link drop with several requests pending; replies after the drop

DROP_F = [MEM + ':Memory._disconnected', MEM + ':Memory._call_all_failed_callbacks', MEM + ':Memory._clear_state']


def add_notes(c, memh, suffix=''):
    for nm in ('mem_read_cb', 'mem_read_failed_cb', 'mem_write_cb', 'mem_write_failed_cb'):
        c.invoke((c.getfield(memh, nm), 'add_callback'), c.ext(nm.replace('mem_', 'note_').replace('_cb', '') + suffix))


@contract('C06', 'drop.every-pending-request-fails-once', READ_F + WRITE_F + DROP_F,
          clause='when the link drops EVERY pending request - the reads in flight of every memory, the write in flight and the writes still '
                 'queued behind it, of every memory - completes with exactly one failure notification naming it, none with a success; afterwards '
                 'no lock or pending-request record is left; replies of the old connection that arrive late are ignored; after re-registering, '
                 'new requests are served and complete normally',
          bounded='two memories; two reads, three writes (one of them queued) pending at the drop; ids, addresses, contents symbolic')
def drop_all(c):
    memh, mem = setup(c)
    mem2 = second_memory(c, memh)
    c.int('rA', 0, 900), c.int('rB', 1000, 1900), c.int('wA1', 2000, 2900), c.int('wA2', 3000, 3900), c.int('wB', 4000, 4900)
    d = c.ints('d', 30, 0, 255, kind='tuple')
    c.call((memh, 'read'), mem, c.get('rA'), 30)
    c.require('raised is None')
    c.call((memh, 'read'), mem2, c.get('rB'), 5)
    c.require('raised is None')
    c.call((memh, 'write'), mem, c.get('wA1'), d)
    c.require('raised is None')
    c.call((memh, 'write'), mem, c.get('wA2'), (1, 2, 3))
    c.require('raised is None')
    c.call((memh, 'write'), mem2, c.get('wB'), (4, 5))
    c.require('raised is None')
    c.ensure('requests-in-flight-transmitted-queued-one-not', "len(sent('cf.send_packet')) == 4")
    if n_sent(c) != 4:
        return
    c.snapshot('old_read_rq', "sent('cf.send_packet')[0][1][0]")
    c.snapshot('old_write_rq', "sent('cf.send_packet')[2][1][0]")
    c.reset_trace()
    c.call((memh, '_disconnected'), 'radio://0/1')
    c.ensure('disconnect-handled', 'raised is None')
    c.ensure('nothing-transmitted-no-success', "len(sent('cf.send_packet')) == 0 and len(sent('note_read')) == 0 and len(sent('note_write')) == 0")
    c.ensure('one-failure-per-pending-read', "len(sent('note_read_failed')) == 2 "
             "and exists(sent('note_read_failed'), lambda e: is_same(e[1][0], mem) and e[1][1] == rA) "
             "and exists(sent('note_read_failed'), lambda e: is_same(e[1][0], mem2) and e[1][1] == rB)")
    c.ensure('one-failure-per-pending-write-including-the-queued-one', "len(sent('note_write_failed')) == 3 "
             "and exists(sent('note_write_failed'), lambda e: is_same(e[1][0], mem) and e[1][1] == wA1) "
             "and exists(sent('note_write_failed'), lambda e: is_same(e[1][0], mem) and e[1][1] == wA2) "
             "and exists(sent('note_write_failed'), lambda e: is_same(e[1][0], mem2) and e[1][1] == wB)")
    c.ensure('state-cleared-after-drop', 'len(memh._read_requests) == 0 and len(memh._write_requests) == 0 and not memh._write_requests_lock.locked()')
    # late replies of the old connection
    c.reset_trace()
    reply(c, memh, 1, 'old_read_rq.data[0:5]', 0, 'bytes(20)', tag='@late-read-data')
    reply(c, memh, 2, 'old_write_rq.data[0:5]', 0, tag='@late-write-ack')
    reply(c, memh, 2, 'old_write_rq.data[0:5]', 3, tag='@late-write-error')
    reply(c, memh, 1, 'old_read_rq.data[0:5]', 3, tag='@late-read-error')
    c.ensure('late-replies-ignored', 'len(trace) == 0 and len(memh._read_requests) == 0 and not memh._write_requests_lock.locked()')
    # the subsystem is usable again: a complete read and a complete write
    add_notes(c, memh, '2')
    c.bytes('M', 3)
    c.reset_trace()
    c.call((memh, 'read'), mem, c.get('rA'), 3)
    c.ensure('next-read-accepted', "raised is None and result is True and len(sent('cf.send_packet')) == 1")
    if n_sent(c) == 1:
        answer_read(c, memh, 0, 'rA', 'M', 3, tag='@after-drop')
        c.ensure('next-read-completes-once-with-the-device-bytes', "len(sent('note_read2')) == 1 and len(sent('note_read_failed2')) == 0 and "
                 "bytes(sent('note_read2')[0][1][2]) == M")
    c.reset_trace()
    c.call((memh, 'write'), mem, c.get('wA2'), (7, 8))
    c.ensure('next-write-transmitted', "raised is None and result is True and len(sent('cf.send_packet')) == 1")
    if n_sent(c) == 1:
        ack_write(c, memh, 0, 'wA2', 2, {}, tag='@after-drop')
        c.ensure('next-write-completes-once', "len(sent('note_write2')) == 1 and len(sent('note_write_failed2')) == 0")
    quiescent(c)


@contract('C06', 'unsolicited-replies', [MEM + ':Memory._new_packet_cb', MEM + ':Memory._handle_chan_read', MEM + ':Memory._handle_chan_write'],
          clause='replies that answer no pending request (a memory never accessed, or duplicated / delayed replies after completion), with any status, '
                 'are ignored: no exception, no notification, no transmission, no lock or record left behind; requests are still served afterwards')
def unsolicited(c):
    memh, mem = setup(c)
    c.int('a', 0, 2 ** 32 - 1), c.int('status', 0, 255), c.int('other', 0, 255)
    ch = c.choice('channel', [1, 2])
    c.snapshot('rdata', "bytes([other]) + pack('<I', a) + bytes([status])" + (" + bytes(3)" if ch == 1 else ''))
    pk = c.new(STK + ':CRTPPacket', (4 << 4) | ch, c.get('rdata'))
    c.call((memh, '_new_packet_cb'), pk)
    c.ensure('ignored', 'raised is None and len(trace) == 0')
    quiescent(c)
    c.reset_trace()
    if ch == 1:
        c.call((memh, 'read'), mem, 5, 1)
    else:
        c.call((memh, 'write'), mem, 5, (1,))
    c.ensure('next-request-served', "raised is None and result is True and len(sent('cf.send_packet')) == 1")


# --------------------------------------------------------------------------------------- timing: the reply overtakes the return of the transmitting call

def _early_reply(L):
    @contract('C06', 'read.reply-before-send-returns.len%d' % L, READ_F,
              clause='reading returns exactly the device bytes with exactly one notification whatever the timing of the reply: a reply that the '
                     'receiving thread handles before the transmitting call of Memory.read has even returned is attributed to the request',
              bounded='length %d; the first reply is dispatched synchronously from inside cf.send_packet (the earliest possible schedule); '
                      'address, memory id and content symbolic' % L)
    def k(c):
        done = []
        box = {}

        def send(_i, args, _k):
            if done:
                return None
            done.append(1)
            c.let('rq0', args[0])
            off = c.concretize("unpack('<I', bytes(rq0.data[1:5]))[0] - addr")
            ln = c.concretize('rq0.data[5]')
            c.let('off0', off), c.let('ln0', ln)
            c.snapshot('rdata0', "bytes(rq0.data[0:5]) + bytes([0]) + M[%d:%d]" % (off, off + ln))
            pk = c.new(STK + ':CRTPPacket', (4 << 4) | 1, c.get('rdata0'))
            c.invoke((box['memh'], '_new_packet_cb'), pk)
            return None
        c.int('addr', 0, 2 ** 32 - 1 - L)
        c.bytes('M', L)
        memh, mem = setup(c, {'send_packet': send})
        box['memh'] = memh
        c.call((memh, 'read'), mem, c.get('addr'), L)
        c.ensure('read-accepted', 'raised is None and result is True')
        c.ensure('first-request-inside-range', '0 <= off0 and off0 + ln0 <= %d and ln0 <= 24' % L)
        step = 1
        while n_sent(c) == step + 1 and step < 6:
            answer_read(c, memh, step, 'addr', 'M', L)
            step += 1
        c.snapshot('trace', 'trace')
        c.ensure('exactly-one-success-notification', "len(sent('note_read')) == 1 and len(sent('note_read_failed')) == 0")
        note = "sent('note_read')[0][1]"
        c.ensure('data-equals-device-bytes', 'is_same(%s[0], mem) and %s[1] == addr and bytes(%s[2]) == M' % (note, note, note))
        quiescent(c)
        c.reset_trace()
        c.call((memh, 'read'), mem, c.get('addr'), 1)
        c.ensure('next-read-accepted', "raised is None and result is True and len(sent('cf.send_packet')) == 1")
    return k


_early_reply(1)
_early_reply(21)


# --------------------------------------------------------------------------------------- retransmission of the chunk in flight (resend)

@contract('C06', 'read.resend', READ_F + [RR + '.resend'],
          clause='delayed replies: re-requesting the chunk in flight asks for exactly the same bytes again (same memory, address, length, same retry '
                 'pattern) at every stage of the transfer, and the read still completes once with exactly the device bytes when the device then '
                 'answers both requests',
          bounded='length 21 (two chunks), resend during the first and during the second chunk; address, memory id and content symbolic')
def read_resend(c):
    memh, mem = setup(c)
    c.int('addr', 0, 2 ** 32 - 100)
    c.bytes('M', 21)
    when = c.choice('resend_during_chunk', [1, 2])
    c.call((memh, 'read'), mem, c.get('addr'), 21)
    c.require('raised is None')
    if when == 2:
        answer_read(c, memh, 0, 'addr', 'M', 21)
    base = n_sent(c)
    c.ensure('request-pending', 'len(memh._read_requests) == 1 and mid in memh._read_requests')
    if c.concretize('len(memh._read_requests) == 1 and mid in memh._read_requests') != 1:
        return
    c.snapshot('rreq', 'memh._read_requests[mid]')
    c.call((c.get('rreq'), 'resend'))
    c.ensure('resend-transmits-one-message', "raised is None and len(sent('cf.send_packet')) == %d" % (base + 1))
    if n_sent(c) != base + 1:
        return
    c.snapshot('p_old', "sent('cf.send_packet')[%d]" % (base - 1)), c.snapshot('p_new', "sent('cf.send_packet')[%d]" % base)
    c.ensure('same-request-again', "bytes(p_new[1][0].data) == bytes(p_old[1][0].data) and p_new[1][0].port == 4 and p_new[1][0].channel == 1 "
                                   "and p_new[2]['expected_reply'] == p_old[2]['expected_reply']")
    # the device got the request twice and answers twice
    answer_read(c, memh, base - 1, 'addr', 'M', 21)
    answer_read(c, memh, base, 'addr', 'M', 21)
    step = base + 1
    while n_sent(c) == step + 1 and step < 8:
        answer_read(c, memh, step, 'addr', 'M', 21)
        step += 1
    c.snapshot('trace', 'trace')
    c.ensure('exactly-one-success-notification', "len(sent('note_read')) == 1 and len(sent('note_read_failed')) == 0")
    c.ensure('data-equals-device-bytes', "sent('note_read')[0][1][1] == addr and bytes(sent('note_read')[0][1][2]) == M")
    quiescent(c)


@contract('C06', 'write.resend', WRITE_F + [WR + '.resend'],
          clause='delayed replies: retransmitting the chunk in flight sends exactly the same message again (same memory, address, data, same retry '
                 'pattern) at every stage of the transfer - not an earlier or a later chunk - and the write still completes once with the device '
                 'memory equal to the data when the device then applies and acknowledges both copies',
          bounded='length 26 (two chunks), resend during the first and during the second chunk; address, memory id and content symbolic')
def write_resend(c):
    memh, mem = setup(c)
    c.int('addr', 0, 2 ** 32 - 100)
    d = c.ints('d', 26, 0, 255, kind='tuple')
    when = c.choice('resend_during_chunk', [1, 2])
    im = {}
    c.call((memh, 'write'), mem, c.get('addr'), d)
    c.require('raised is None')
    if when == 2:
        ack_write(c, memh, 0, 'addr', 26, im)
    base = n_sent(c)
    c.ensure('request-pending', 'mid in memh._write_requests and len(memh._write_requests[mid]) == 1')
    if c.concretize('mid in memh._write_requests and len(memh._write_requests[mid]) == 1') != 1:
        return
    c.snapshot('wreq', 'memh._write_requests[mid][0]')
    c.call((c.get('wreq'), 'resend'))
    c.ensure('resend-transmits-one-message', "raised is None and len(sent('cf.send_packet')) == %d" % (base + 1))
    if n_sent(c) != base + 1:
        return
    c.snapshot('p_old', "sent('cf.send_packet')[%d]" % (base - 1)), c.snapshot('p_new', "sent('cf.send_packet')[%d]" % base)
    c.ensure('same-message-again', "bytes(p_new[1][0].data) == bytes(p_old[1][0].data) and p_new[1][0].port == 4 and p_new[1][0].channel == 2 "
                                   "and p_new[2]['expected_reply'] == p_old[2]['expected_reply']")
    ack_write(c, memh, base - 1, 'addr', 26, im)
    ack_write(c, memh, base, 'addr', 26, im)
    step = base + 1
    while n_sent(c) == step + 1 and step < 8:
        ack_write(c, memh, step, 'addr', 26, im)
        step += 1
    c.snapshot('trace', 'trace')
    c.ensure('exactly-one-success-notification', "len(sent('note_write')) == 1 and len(sent('note_write_failed')) == 0")
    c.ensure('every-byte-written', image_equals(im, 26, 'd'))
    quiescent(c)


# --------------------------------------------------------------------------------------- ANY length: base case and handler-level step of the induction
#
# Together with step.read.add_data / step.write.write_done these close the induction over the number of chunks at the level of
# the public interface, for a transfer of ANY length (not only the enumerated ones): the base case establishes the request state
# the step contracts start from, the handler step shows that the notification is raised and the record removed exactly when the
# last chunk is answered.

@contract('C06', 'step.read.start', [MEM + ':Memory.read', RR + '.start', RR + '._request_new_chunk'],
          clause='base case of a read of ANY length: Memory.read registers the request (nothing received yet, whole range outstanding) and asks for '
                 'the first min(length, 20) bytes at the start address, in one message, with the retry pattern id + address')
def step_read_start(c):
    memh, mem = setup(c)
    c.int('addr0', 0, 2 ** 32 - 1), c.int('length', 0, 2 ** 32 - 1)
    c.call((memh, 'read'), mem, c.get('addr0'), c.get('length'))
    c.ensure('accepted', 'raised is None and result is True')
    c.ensure('one-request', "len(sent('cf.send_packet')) == 1 and len(trace) == 1")
    c.ensure('request-registered', 'len(memh._read_requests) == 1 and mid in memh._read_requests')
    if n_sent(c) != 1 or c.concretize('len(memh._read_requests) == 1 and mid in memh._read_requests') != 1:
        return
    c.snapshot('pk', "sent('cf.send_packet')[0][1][0]")
    c.ensure('first-request-layout', "pk.port == 4 and pk.channel == 1 and bytes(pk.data) == pack('<BIB', mid, addr0, min(length, 20))")
    c.ensure('retry-pattern', "sent('cf.send_packet')[0][2]['expected_reply'] == tuple(pk.data[0:5])")
    c.snapshot('rr', 'memh._read_requests[mid]')
    c.ensure('request-state-is-the-start-of-the-induction', 'len(memh._read_requests) == 1 and is_same(rr.mem, mem) and rr.addr == addr0 and len(rr.data) == 0 '
                                                            'and rr._current_addr == addr0 and rr._bytes_left == length')


@contract('C06', 'step.write.start', [MEM + ':Memory.write', WR + '.start', WR + '._write_new_chunk'],
          clause='base case of a write of ANY length to an idle memory: Memory.write queues the request and transmits the first min(len, 25) bytes '
                 'of the data at the start address in a message of at most 30 bytes with the retry pattern id + address; the rest is outstanding; '
                 'the lock is free again')
def step_write_start(c):
    memh, mem = setup(c)
    D = c.view('D', 'bytes')
    c.int('addr0', 0, 2 ** 32 - 1)
    c.require('addr0 + len(D) <= 2 ** 32 - 1')
    flush = c.choice('flush_queue', [False, True])
    c.call((memh, 'write'), mem, c.get('addr0'), D, flush)
    c.ensure('accepted', 'raised is None and result is True')
    c.ensure('one-message', "len(sent('cf.send_packet')) == 1 and len(trace) == 1")
    c.ensure('request-queued', 'mid in memh._write_requests and len(memh._write_requests[mid]) == 1')
    if n_sent(c) != 1 or c.concretize('mid in memh._write_requests and len(memh._write_requests[mid]) == 1') != 1:
        return
    c.snapshot('pk', "sent('cf.send_packet')[0][1][0]")
    c.snapshot('off3', 'min(25, len(D))')
    c.ensure('first-chunk-layout', "pk.port == 4 and pk.channel == 2 and bytes(pk.data[0:5]) == pack('<BI', mid, addr0) and bytes(pk.data[5:]) == D[0:off3]")
    c.ensure('message-within-30-bytes', 'len(pk.data) <= 30')
    c.ensure('retry-pattern', "sent('cf.send_packet')[0][2]['expected_reply'] == tuple(pk.data[0:5])")
    c.snapshot('wr', 'memh._write_requests[mid][0]')
    c.ensure('request-state-is-the-start-of-the-induction', 'len(memh._write_requests[mid]) == 1 and is_same(wr.mem, mem) and wr.addr == addr0 and '
                                                            'bytes(wr._data) == D[off3:] and wr._current_addr == addr0 and wr._addr_add == off3')
    c.ensure('write-lock-free', 'not memh._write_requests_lock.locked()')


@contract('C06', 'step.read.handler', [MEM + ':Memory._new_packet_cb', MEM + ':Memory._handle_chan_read', RR + '.add_data', RR + '._request_new_chunk'],
          clause='handler-level step of a read of ANY length: with the device bytes [addr0, cur) received, the reply carrying the next n bytes either '
                 'triggers exactly one further request and no notification (bytes still outstanding; the record stays), or - exactly when it was the '
                 'last chunk - removes the record and raises exactly one success notification carrying (memory, start address, ALL device bytes '
                 'of the range); an error status removes the record and raises exactly one failure notification instead',
          bounded='reply sizes n in {1, 2, 20, 24} (the total length, the progress k, address, id and content are unbounded / symbolic)')
def step_read_handler(c):
    memh, mem = setup(c)
    M = c.view('M', 'bytes')
    c.int('addr0', 0, 2 ** 32 - 1), c.int('k', 0)
    n = c.choice('n', [1, 2, 20, 24])
    c.let('n', n)
    c.require('k + n <= len(M) and addr0 + len(M) <= 2 ** 32 - 1')
    rr = c.new(RR, mem, c.get('addr0'), c.snapshot('len0', 'len(M)'), c.getfield(memh, 'cf'))
    c.set(rr, 'data', c.snapshot('d0', 'bytearray(M[0:k])'))
    c.set(rr, '_bytes_left', c.snapshot('left0', 'len(M) - k'))
    c.set(rr, '_current_addr', c.snapshot('cur0', 'addr0 + k'))
    c.let('rr', rr)
    c.set(memh, '_read_requests', c.dict([(c.get('mid'), rr)]))
    status_ok = c.choice('status_ok', [True, False])
    if status_ok:
        c.let('status', 0)
    else:
        c.int('status', 1, 255)
    c.snapshot('rdata', "bytes([mid]) + pack('<I', cur0) + bytes([status]) + M[k:k + %d]" % n)
    pk = c.new(STK + ':CRTPPacket', (4 << 4) | 1, c.get('rdata'))
    c.reset_trace()
    c.call((memh, '_new_packet_cb'), pk)
    c.ensure('no-exception', 'raised is None')
    if not status_ok:
        c.ensure('error-status-one-failure-notification-record-removed', "calls() == ('note_read_failed',) and len(memh._read_requests) == 0 and "
                 "is_same(sent('note_read_failed')[0][1][0], mem) and sent('note_read_failed')[0][1][1] == addr0")
        return
    c.ensure('complete-iff-nothing-left', "iff(len(sent('note_read')) == 1, k + n == len(M)) and len(sent('note_read')) <= 1 and len(sent('note_read_failed')) == 0")
    c.ensure('record-removed-iff-complete', 'iff(len(memh._read_requests) == 0, k + n == len(M)) and len(memh._read_requests) <= 1')
    c.ensure('next-request-iff-incomplete', "iff(len(sent('cf.send_packet')) == 1, k + n < len(M)) and len(sent('cf.send_packet')) <= 1")
    if len(c.get('trace')) == 1 and c.get('trace')[0][0] == 'note_read':
        c.snapshot('note', "sent('note_read')[0][1]")
        c.ensure('notification-carries-the-whole-range', 'is_same(note[0], mem) and note[1] == addr0 and bytes(note[2]) == M')


@contract('C06', 'step.write.handler', [MEM + ':Memory._new_packet_cb', MEM + ':Memory._handle_chan_write', WR + '.write_done', WR + '._write_new_chunk', WR + '.start'],
          clause='handler-level step of a write of ANY length: the acknowledgement of the chunk in flight either transmits exactly the next chunk and '
                 'raises no notification (data still outstanding; the queue is unchanged), or - exactly when it was the last chunk - removes the '
                 'request from the head of the queue, raises exactly one success notification (memory, start address) and starts the next queued '
                 'write; an error status removes it, raises exactly one failure notification and starts the next queued write; the lock is free')
def step_write_handler(c):
    memh, mem = setup(c)
    D = c.view('D', 'bytes')
    c.int('addr0', 0, 2 ** 32 - 1), c.int('off', 0), c.int('off2', 0), c.int('addr_next', 0, 2 ** 32 - 1)
    c.require('off <= off2 and off2 <= len(D) and off2 - off <= 25 and addr0 + len(D) <= 2 ** 32 - 1')
    cf = c.getfield(memh, 'cf')
    wr = c.new(WR, mem, c.get('addr0'), D, cf)
    c.set(wr, '_data', c.snapshot('rest0', 'D[off2:]'))
    c.set(wr, '_current_addr', c.snapshot('cur0', 'addr0 + off'))
    c.set(wr, '_addr_add', c.snapshot('add0', 'off2 - off'))
    c.set(wr, '_bytes_left', c.snapshot('left0', 'len(D) - off2'))
    c.let('wr', wr)
    queued = c.choice('another_write_queued', [False, True])
    nxt = c.new(WR, mem, c.get('addr_next'), (9, 8, 7), cf)
    c.let('nxt', nxt)
    c.set(memh, '_write_requests', c.dict([(c.get('mid'), c.list([wr, nxt] if queued else [wr]))]))
    status_ok = c.choice('status_ok', [True, False])
    if status_ok:
        c.let('status', 0)
    else:
        c.int('status', 1, 255)
    c.snapshot('rdata', "bytes([mid]) + pack('<I', cur0) + bytes([status])")
    pk = c.new(STK + ':CRTPPacket', (4 << 4) | 2, c.get('rdata'))
    c.reset_trace()
    c.call((memh, '_new_packet_cb'), pk)
    c.ensure('no-exception', 'raised is None')
    c.ensure('write-lock-free', 'not memh._write_requests_lock.locked()')
    c.let('nq', 1 if queued else 0)
    c.snapshot('q', 'memh._write_requests[mid]')
    if not status_ok:
        c.ensure('error-status-one-failure-notification-request-removed', "len(sent('note_write_failed')) == 1 and len(sent('note_write')) == 0 and len(q) == nq and "
                 "is_same(sent('note_write_failed')[0][1][0], mem) and sent('note_write_failed')[0][1][1] == addr0")
        c.ensure('next-queued-write-started', "len(sent('cf.send_packet')) == nq")
        if queued:
            c.ensure('next-queued-write-first-chunk', "is_same(q[0], nxt) and bytes(sent('cf.send_packet')[0][1][0].data) == pack('<BI', mid, addr_next) + bytes([9, 8, 7])")
        return
    c.ensure('complete-iff-nothing-left', "iff(len(sent('note_write')) == 1, off2 == len(D)) and len(sent('note_write')) <= 1 and len(sent('note_write_failed')) == 0")
    c.ensure('request-removed-iff-complete', 'iff(len(q) == nq, off2 == len(D)) and iff(len(q) == nq + 1, off2 < len(D))')
    done = c.concretize('len(q)') == (1 if queued else 0)
    if done:
        c.ensure('notification-names-the-request', "is_same(sent('note_write')[0][1][0], mem) and sent('note_write')[0][1][1] == addr0")
        c.ensure('next-queued-write-started', "len(sent('cf.send_packet')) == nq")
        if queued:
            c.ensure('next-queued-write-first-chunk', "is_same(q[0], nxt) and bytes(sent('cf.send_packet')[0][1][0].data) == pack('<BI', mid, addr_next) + bytes([9, 8, 7])")
    else:
        c.ensure('exactly-the-next-chunk-transmitted', "len(sent('cf.send_packet')) == 1 and is_same(q[0], wr)")
        c.snapshot('pk2', "sent('cf.send_packet')[0][1][0]")
        c.snapshot('off3', 'min(off2 + 25, len(D))')
        c.ensure('next-chunk-layout', "pk2.port == 4 and pk2.channel == 2 and bytes(pk2.data[0:5]) == pack('<BI', mid, addr0 + off2) and bytes(pk2.data[5:]) == D[off2:off3]")
        c.ensure('message-within-30-bytes', 'len(pk2.data) <= 30')


# --------------------------------------------------------------------------------------- enumeration: the memory objects requests are made through

MT = 'cflib.crazyflie.mem.memory_tester:MemoryTester'
ENUM_F = [MEM + ':Memory.refresh', MEM + ':Memory._handle_chan_info', MEM + ':Memory._handle_cmd_info_nbr', MEM + ':Memory._handle_cmd_info_details',
          MEM + ':Memory.get_mem', MEM + ':Memory.get_mems']


def info(c, memh, data_expr):
    c.snapshot('idata', 'bytes(%s)' % data_expr)
    pk = c.new(STK + ':CRTPPacket', (4 << 4) | 0, c.get('idata'))
    c.call((memh, '_new_packet_cb'), pk)
    c.ensure('info-reply-handled-without-exception', 'raised is None')


def enumerate_mems(c, memh, tag=''):
    """the device reports two memories: id 0 = memory tester (type 0x15), id 1 = deck memory (type 0x19); sizes symbolic"""
    if not tag:
        c.int('size0', 0, 2 ** 32 - 1), c.int('size1', 0, 2 ** 32 - 1)
    done = c.ext('refresh_done' + tag)
    c.reset_trace()
    c.call((memh, 'refresh'), done)
    c.ensure('refresh-asks-for-the-number-of-memories', "raised is None and len(sent('cf.send_packet')) == 1 and "
             "tuple(sent('cf.send_packet')[0][1][0].data) == (1,) and sent('cf.send_packet')[0][1][0].port == 4 and sent('cf.send_packet')[0][1][0].channel == 0")
    info(c, memh, '[1, 2]')
    c.ensure('asks-for-memory-0', "len(sent('cf.send_packet')) == 2 and tuple(sent('cf.send_packet')[1][1][0].data) == (2, 0)")
    info(c, memh, "bytes([2, 0, 0x15]) + pack('<I', size0) + bytes(8)")
    c.ensure('asks-for-memory-1', "len(sent('cf.send_packet')) == 3 and tuple(sent('cf.send_packet')[2][1][0].data) == (2, 1) and len(sent('refresh_done%s')) == 0" % tag)
    info(c, memh, "bytes([2, 1, 0x19]) + pack('<I', size1) + bytes(8)")
    c.ensure('enumeration-complete-notified-once', "len(sent('cf.send_packet')) == 3 and len(sent('refresh_done%s')) == 1" % tag)
    c.let('mid', 0)
    c.let('tester', c.invoke((memh, 'get_mem'), 0))
    c.let('deck', c.invoke((memh, 'get_mem'), 1))
    c.reset_trace()


def enumerated(c, cf_returns=None):
    cf = c.ext('cf', returns=cf_returns or {})
    memh = c.new(MEM + ':Memory', cf)
    c.let('memh', memh)
    add_notes(c, memh)
    enumerate_mems(c, memh)
    return memh


@contract('C06', 'enumeration.memories-found', ENUM_F,
          clause='reading / writing ANY memory of the Crazyflie: the memories the device reports are each represented by exactly one object carrying the '
                 "device's id, type and size (requests made through it address that id), found by id and by type; the enumeration completes with "
                 'exactly one notification',
          bounded='two memories (tester 0x15 as id 0, deck memory 0x19 as id 1); sizes symbolic')
def enumeration(c):
    memh = enumerated(c)
    c.ensure('one-object-per-reported-memory', 'len(memh.mems) == 2 and memh.nbr_of_mems == 2')
    c.ensure('tester-carries-device-id-type-size', "typename(tester) == 'MemoryTester' and tester.id == 0 and tester.type == 0x15 and tester.size == size0")
    c.ensure('deck-carries-device-id-type-size', "typename(deck) == 'DeckMemoryManager' and deck.id == 1 and deck.type == 0x19 and deck.size == size1")
    c.ensure('unknown-id-not-found', 'memh.get_mem(2) is None')
    c.ensure('found-by-type', 'len(memh.get_mems(0x15)) == 1 and is_same(memh.get_mems(0x15)[0], tester) and len(memh.get_mems(0x19)) == 1 '
                              'and is_same(memh.get_mems(0x19)[0], deck) and memh.get_mems(0x12) == ()')
    # a request through the object addresses the device's id
    c.call((memh, 'read'), c.get('deck'), 16, 4)
    c.ensure('read-through-the-object-addresses-its-id', "raised is None and bytes(sent('cf.send_packet')[0][1][0].data) == pack('<BIB', 1, 16, 4)")


# --------------------------------------------------------------------------------------- MemoryTester (end to end through the real Memory)

TEST_F = [MT + '.__init__', MT + '.new_data', MT + '.read_data', MT + '.write_data', MT + '.write_done', MT + '.disconnect']


def _tester_write(L):
    @contract('C06', 'tester.write.len%d' % L, TEST_F + WRITE_F + ENUM_F,
              clause='a completed write leaves the device memory equal to the written data over the addressed range: MemoryTester.write_data writes the '
                     'test pattern (address & 0xff) over exactly [start, start+size), in messages within the protocol limits, and reports completion '
                     'exactly once; a second write_data is served the same way',
              bounded='size %d (enumerated 0, 1, 26); start address symbolic' % L)
    def k(c):
        memh = enumerated(c)
        tester = c.get('tester')
        c.int('start', 0, 2 ** 32 - 1 - max(L, 1))
        cb = c.ext('write_finished')
        for rnd in (1, 2):
            im = {}
            c.reset_trace()
            c.call((tester, 'write_data'), c.get('start'), L, cb)
            c.ensure('write-transmitted', "raised is None and len(sent('cf.send_packet')) == 1")
            step = 0
            while n_sent(c) == step + 1 and step < 6:
                ack_write(c, memh, step, 'start', L, im)
                step += 1
            c.snapshot('trace', 'trace')
            c.ensure('completion-reported-once', "len(sent('write_finished')) == 1 and len(sent('note_write')) == 1 and len(sent('note_write_failed')) == 0")
            c.ensure('completion-names-the-request', "is_same(sent('write_finished')[0][1][0], tester) and sent('write_finished')[0][1][1] == start")
            c.ensure('device-holds-the-pattern-over-the-range', 'True' if L == 0 else
                     ' and '.join('%s == (start + %d) & 0xff' % (im.get(i, 'None'), i) for i in range(L)))
            quiescent(c)
    return k


for _L in (0, 1, 26):
    _tester_write(_L)


def tester_read_history(c, memh, L, flag_box=None):
    """one read_data of L bytes answered by the device with image M; returns after the last reply"""
    tester = c.get('tester')

    def at_cb(_i, args, _k):
        if flag_box is not None:
            flag_box.append(c.getfield(tester, 'readValidationSucess'))
        return None
    cb = c.ext('read_finished', returns={'()': at_cb})
    c.reset_trace()
    c.call((tester, 'read_data'), c.get('start'), L, cb)
    c.ensure('read-transmitted', "raised is None and len(sent('cf.send_packet')) == 1")
    step = 0
    while n_sent(c) == step + 1 and step < 6:
        answer_read(c, memh, step, 'start', 'M', L)
        step += 1
    c.snapshot('trace', 'trace')


def pattern_except(c, L, j):
    """device image: the test pattern everywhere except (possibly) at index j"""
    c.bytes('M', L)
    for i in range(L):
        if i != j:
            c.require('M[%d] == (start + %d) & 0xff' % (i, i))


def _tester_read(L):
    @contract('C06', 'tester.read.len%d' % L, TEST_F + READ_F + ENUM_F,
              clause='reading returns exactly the bytes the device holds: MemoryTester.read_data reads [start, start+size) and, when the read has '
                     'completed, reports exactly once and has validated EVERY byte against the test pattern (address & 0xff): the verdict is positive '
                     'exactly when the device bytes equal the pattern; afterwards a further read_data is served',
              bounded='size %d (enumerated 1, 21); start address symbolic; device image = pattern with one arbitrary byte at index 0, 1 or size-1' % L)
    def k(c):
        memh = enumerated(c)
        tester = c.get('tester')
        c.int('start', 0, 2 ** 32 - 1 - L)
        j = c.choice('odd_byte', sorted(set([0, min(1, L - 1), L - 1])))
        pattern_except(c, L, j)
        tester_read_history(c, memh, L)
        c.ensure('completion-reported-once', "len(sent('read_finished')) == 1 and len(sent('note_read')) == 1 and len(sent('note_read_failed')) == 0")
        c.ensure('completion-names-the-tester', "is_same(sent('read_finished')[0][1][0], tester)")
        c.ensure('verdict-positive-iff-device-bytes-equal-the-pattern', 'tester.readValidationSucess == (M[%d] == (start + %d) & 0xff)' % (j, j))
        quiescent(c)
        c.reset_trace()
        c.call((tester, 'read_data'), c.get('start'), 1, c.ext('read_finished2'))
        c.ensure('next-read-served', "raised is None and len(sent('cf.send_packet')) == 1")
    return k


_tester_read(1)
_tester_read(21)


@contract('C06', 'tester.read.len0', TEST_F + READ_F + ENUM_F, thorough_only=True,
          clause='every read request completes with exactly one notification, for length 0 too, and afterwards further requests are served: '
                 'MemoryTester.read_data of 0 bytes reports completion once and the next read_data is transmitted')
def tester_read_len0(c):
    memh = enumerated(c)
    tester = c.get('tester')
    c.int('start', 0, 2 ** 32 - 2)
    c.bytes('M', 0)
    tester_read_history(c, memh, 0)
    c.ensure('memory-level-completion', "len(sent('note_read')) == 1")
    c.ensure('completion-reported-once', "len(sent('read_finished')) == 1")
    c.reset_trace()
    c.call((tester, 'read_data'), c.get('start'), 1, c.ext('read_finished2'))
    c.ensure('next-read-served', "raised is None and len(sent('cf.send_packet')) == 1")


@contract('C06', 'tester.read.error-then-next-served', TEST_F + READ_F + ENUM_F, thorough_only=True,
          clause='this holds when replies report an error: afterwards further requests are still served, no pending-request record is left '
                 'behind - after a MemoryTester read that the device answered with an error status the next read_data is transmitted')
def tester_read_error(c):
    memh = enumerated(c)
    tester = c.get('tester')
    c.int('start', 0, 2 ** 32 - 10), c.int('status', 1, 255)
    c.call((tester, 'read_data'), c.get('start'), 3, c.ext('read_finished'))
    c.require("raised is None and len(sent('cf.send_packet')) == 1")
    c.snapshot('rq', "sent('cf.send_packet')[0][1][0]")
    c.snapshot('rdata', 'bytes(rq.data[0:5]) + bytes([status])')
    pk = c.new(STK + ':CRTPPacket', (4 << 4) | 1, c.get('rdata'))
    c.call((memh, '_new_packet_cb'), pk)
    c.ensure('error-reply-handled', "raised is None and len(sent('note_read_failed')) == 1")
    quiescent(c)
    c.reset_trace()
    c.call((tester, 'read_data'), c.get('start'), 1, c.ext('read_finished2'))
    c.ensure('next-read-served', "raised is None and len(sent('cf.send_packet')) == 1")


@contract('C06', 'tester.read.validated-before-reported', TEST_F + READ_F + ENUM_F, thorough_only=True,
          clause='MemoryTester usage contract ("wait for the callback, then verify readValidationSucess"): when completion is reported every byte '
                 'has been validated - the verdict seen from inside the completion callback equals the final verdict',
          bounded='size 3; start symbolic; device image = pattern with one arbitrary byte at index 0, 1 or 2')
def tester_read_validated(c):
    memh = enumerated(c)
    tester = c.get('tester')
    c.int('start', 0, 2 ** 32 - 10)
    j = c.choice('odd_byte', [0, 1, 2])
    pattern_except(c, 3, j)
    box = []
    tester_read_history(c, memh, 3, box)
    c.ensure('completion-reported-once', "len(sent('read_finished')) == 1")
    c.let('verdict_at_callback', box[0] if box else None)
    c.ensure('verdict-at-callback-is-final', 'verdict_at_callback == tester.readValidationSucess')
    c.ensure('verdict-positive-iff-device-bytes-equal-the-pattern', 'tester.readValidationSucess == (M[%d] == (start + %d) & 0xff)' % (j, j))


# --------------------------------------------------------------------------------------- deck memories: blocking wrappers, command writes, disconnect

DMC = DM + ':DeckMemory'
DMM = DM + ':DeckMemoryManager'


def deck_with_peer(c, outcome_of=None):
    """a DeckMemoryManager whose memory handler is a stub standing for Memory + receiving thread: a request is answered (from the
    receiving thread's point of view: while the caller blocks) by invoking the manager's completion callbacks, as Memory does"""
    box = {}

    def do_write(_i, args, kw):
        what = outcome_of('write') if outcome_of else 'done'
        if what == 'done':
            c.invoke((box['mgr'], '_write_done'), box['mgr'], args[1])
        elif what == 'failed':
            c.invoke((box['mgr'], '_write_failed'), box['mgr'], args[1])
        return True

    def do_read(_i, args, kw):
        what = outcome_of('read') if outcome_of else 'done'
        if what == 'done':
            c.invoke((box['mgr'], '_new_data'), box['mgr'], args[1], c.get('rdata_dev'))
        elif what == 'failed':
            c.invoke((box['mgr'], '_new_data_failed'), box['mgr'], args[1], c.get('rdata_dev'))
        return True
    memh = c.ext('memh', returns={'read': do_read, 'write': do_write})
    mgr = c.new(DMM, 7, 0x19, 0x10000, memh)
    box['mgr'] = mgr
    c.int('base', 0x10000000, 2 ** 31), c.int('address', 0, 0x0FFFFFFF)
    c.int('cmd_base', 0x1000, 0x10FF)
    dm = c.new(DMC, mgr, c.get('cmd_base'))
    c.set(dm, '_base_address', c.get('base'))
    c.set(dm, '_bit_field1', 1 | 2 | 4 | 8)
    c.let('mgr', mgr), c.let('dm', dm)
    return memh, mgr, dm


@contract('C06', 'deck.sync-wrappers', [DMC + '.write_sync', DMC + '.read_sync', DMC + '.write', DMC + '.read', DMM + '._write', DMM + '._read',
                                        DMM + '._write_done', DMM + '._write_failed', DMM + '._new_data', DMM + '._new_data_failed'],
          clause='the blocking deck-memory calls return when, and only when, the request has completed and report its outcome: write_sync is True '
                 'after a success and False after a failure notification; read_sync returns exactly the bytes delivered, None after a failure; '
                 'the request goes to base + address; nothing stays pending - the next blocking call is served',
          bounded='the completion is delivered while the caller is inside the request call (the receiving thread is faster than the caller)')
def deck_sync(c):
    outcome = c.choice('outcome', ['done', 'failed'])
    memh, mgr, dm = deck_with_peer(c, lambda _w: outcome)
    c.let('rdata_dev', c.bytes('devbytes', 5))
    op = c.choice('operation', ['write', 'read'])
    wdata = c.bytes('wdata', 4)
    for rnd in (1, 2):
        c.reset_trace()
        if op == 'write':
            c.call((dm, 'write_sync'), c.get('address'), wdata)
            c.ensure('returns-without-blocking-forever', 'raised is None')
            c.ensure('request-to-mapped-address', "len(sent('memh.write')) == 1 and sent('memh.write')[0][1][0:3] == (mgr, base + address, wdata)")
            c.ensure('outcome-reported', 'result is %s' % (outcome == 'done'))
        else:
            c.call((dm, 'read_sync'), c.get('address'), 5)
            c.ensure('returns-without-blocking-forever', 'raised is None')
            c.ensure('request-to-mapped-address', "len(sent('memh.read')) == 1 and sent('memh.read')[0][1] == (mgr, base + address, 5)")
            c.ensure('outcome-reported', 'result == devbytes' if outcome == 'done' else 'result is None')


def _deck_command(cmd):
    @contract('C06', 'deck.command.%s' % cmd, [DMC + '.' + cmd, DMC + '._write_command_data', DMM + '._write', DMM + '._write_done', DMM + '._write_failed'],
              clause='deck command writes are writes like any other: exactly the command bytes go to the command section of that deck '
                     '(command base + field address), the call returns when the write has completed (success or failure), and nothing stays '
                     'pending - a following write is served; a deck that is not started is refused without any transmission')
    def k(c):
        outcome = c.choice('outcome', ['done', 'failed'])
        memh, mgr, dm = deck_with_peer(c, lambda _w: outcome)
        c.int('size', 0, 2 ** 32 - 1)
        c.reset_trace()
        if cmd == 'set_fw_new_flash_size':
            c.call((dm, cmd), c.get('size'))
            c.let('want', c.snapshot('want_', "(mgr, cmd_base + 0, pack('<L', size))"))
        else:
            c.call((dm, cmd))
            c.let('want', c.snapshot('want_', "(mgr, cmd_base + 4, bytes([%d]))" % (1 if cmd == 'reset_to_fw' else 2)))
        c.ensure('returns-without-blocking-forever', 'raised is None')
        c.ensure('exactly-the-command-bytes-to-the-command-section', "len(trace) == 1 and sent('memh.write')[0][1][0:3] == want")
        c.reset_trace()
        c.call((dm, 'write_sync'), c.get('address'), c.bytes('wdata', 2))
        c.ensure('next-write-served', "raised is None and len(sent('memh.write')) == 1")
        # not started: refused
        c.set(dm, '_bit_field1', 1 | 4 | 8)
        c.reset_trace()
        if cmd == 'set_fw_new_flash_size':
            c.call((dm, cmd), c.get('size'))
        else:
            c.call((dm, cmd))
        c.ensure('deck-not-started-refused-without-transmission', "raised == 'Exception' and len(trace) == 0")
    return k


for _cmd in ('reset_to_fw', 'reset_to_bootloader', 'set_fw_new_flash_size'):
    _deck_command(_cmd)


@contract('C06', 'deck.disconnect-clears-pending', [DMM + '.disconnect', DMM + '.query_decks', DMM + '._read', DMM + '._write'],
          clause='afterwards further requests are still served, no pending-request record is left behind: DeckMemoryManager.disconnect (called when '
                 'the memories are enumerated again) with a query, a read and a write in flight forgets all three - new ones are accepted and no '
                 'callback of the old ones fires')
def deck_disconnect(c):
    memh = c.ext('memh', returns={'read': True, 'write': True})
    mgr = c.new(DMM, 7, 0x19, 0x10000, memh)
    c.let('mgr', mgr)
    c.int('base', 0x10000000, 2 ** 31), c.int('address', 0, 0x0FFFFFFF)
    dm = c.new(DMC, mgr, 0x1100)
    c.set(dm, '_base_address', c.get('base'))
    c.set(dm, '_bit_field1', 1 | 2 | 4 | 8)
    c.set(mgr, 'deck_memories', c.dict([(0, dm)]))
    old = c.ext('old_cb')
    c.call((mgr, 'query_decks'), old, old)
    c.require('raised is None')
    c.call((dm, 'read'), c.get('address'), 4, old, old)
    c.require('raised is None')
    c.call((dm, 'write'), c.get('address'), c.bytes('wdata', 4), old, old)
    c.require('raised is None')
    c.reset_trace()
    c.call((mgr, 'disconnect'))
    c.ensure('disconnect-silent', 'raised is None and len(trace) == 0 and len(mgr.deck_memories) == 0')
    new = c.ext('new_cb')
    c.call((mgr, 'query_decks'), new, new)
    c.ensure('next-query-served', "raised is None and len(sent('memh.read')) == 1")
    c.call((dm, 'read'), c.get('address'), 4, new, new)
    c.ensure('next-read-served', "raised is None and len(sent('memh.read')) == 2")
    c.call((dm, 'write'), c.get('address'), c.get('wdata'), new, new)
    c.ensure('next-write-served', "raised is None and len(sent('memh.write')) == 1")
    c.ensure('old-callbacks-never-fire', "len(sent('old_cb')) == 0")


@contract('C06', 'deck.write-notification-names-the-request', [DMC + '.write', DMM + '._write', DMM + '._write_done', DMM + '._write_failed'], thorough_only=True,
          clause='the success / failure notification of a deck-memory write names the request: it carries the deck-relative address that was '
                 'written (as the read notification does), whatever was read before')
def deck_write_address(c):
    memh = c.ext('memh', returns={'read': True, 'write': True})
    mgr = c.new(DMM, 7, 0x19, 0x10000, memh)
    c.int('base', 0x10000000, 2 ** 31), c.int('address', 0, 0x0FFFFFFF)
    dm = c.new(DMC, mgr, 0x1100)
    c.set(dm, '_base_address', c.get('base'))
    c.set(dm, '_bit_field1', 1 | 2 | 4 | 8)
    c.let('mgr', mgr), c.let('dm', dm)
    outcome = c.choice('outcome', ['done', 'failed'])
    ok, bad = c.ext('write_ok'), c.ext('write_failed')
    c.call((dm, 'write'), c.get('address'), c.bytes('wdata', 4), ok, bad)
    c.require('raised is None')
    c.reset_trace()
    c.call((mgr, '_write_done' if outcome == 'done' else '_write_failed'), mgr, c.snapshot('mapped', 'base + address'))
    c.ensure('notified-once', "raised is None and len(trace) == 1")
    c.ensure('notification-carries-the-deck-relative-address', "trace[0][1] == (address,)")


# --------------------------------------------------------------------------------------- deck memory end to end (real Memory, enumerated manager)

def deck_memory_of(c, mgr, name='dm'):
    dm = c.new(DMC, mgr, 0x1100)
    c.set(dm, '_base_address', c.get('base'))
    c.set(dm, '_bit_field1', 1 | 2 | 4 | 8)
    c.let(name, dm)
    return dm


def _deck_e2e(event):
    @contract('C06', 'deck.end-to-end.%s' % event, READ_F + WRITE_F + ENUM_F + DROP_F + [DMC + '.read', DMC + '.write', DMM + '._read', DMM + '._write', DMM + '._new_data',
                                                                                          DMM + '._new_data_failed', DMM + '._write_done', DMM + '._write_failed'],
              clause='deck-memory reads and writes through the enumerated manager and the real Memory: the write reaches the device completely at '
                     'base + address (two chunks), the read returns exactly the device bytes under the deck-relative address; each completes with '
                     'exactly one success - or, on an error status / link drop, failure - notification; afterwards the next deck request is served',
              bounded='one write of 26 bytes and one read of 21 bytes in flight together; base, address, contents symbolic', max_paths=100)
    def k(c):
        memh = enumerated(c)
        c.let('mid', 1)
        c.int('base', 0x10000000, 2 ** 31), c.int('address', 0, 0x0FFFFFF0)
        c.snapshot('mapped', 'base + address')
        dm = deck_memory_of(c, c.get('deck'))
        d = c.bytes('d', 26)
        c.bytes('M', 21)
        im = {}
        w_ok, w_bad, r_ok, r_bad = c.ext('w_ok'), c.ext('w_bad'), c.ext('r_ok'), c.ext('r_bad')
        c.call((dm, 'write'), c.get('address'), d, w_ok, w_bad)
        c.ensure('write-accepted', "raised is None and len(sent('cf.send_packet')) == 1")
        c.call((dm, 'read'), c.get('address'), 21, r_ok, r_bad)
        c.ensure('read-accepted', "raised is None and len(sent('cf.send_packet')) == 2")
        if n_sent(c) != 2:
            return
        if event == 'success':
            ack_write(c, memh, 0, 'mapped', 26, im)
            answer_read(c, memh, 1, 'mapped', 'M', 21)
            step = 2
            while n_sent(c) > step and step < 8:
                c.snapshot('pkx', "sent('cf.send_packet')[%d][1][0]" % step)
                if c.concretize('pkx.channel') == 2:
                    ack_write(c, memh, step, 'mapped', 26, im)
                else:
                    answer_read(c, memh, step, 'mapped', 'M', 21)
                step += 1
            c.snapshot('trace', 'trace')
            c.ensure('write-completes-once', "len(sent('w_ok')) == 1 and len(sent('w_bad')) == 0")
            c.ensure('every-byte-written-at-base-plus-address', image_equals(im, 26, 'd'))
            c.ensure('read-completes-once-with-the-device-bytes-under-the-relative-address',
                     "len(sent('r_ok')) == 1 and len(sent('r_bad')) == 0 and sent('r_ok')[0][1][0] == address and bytes(sent('r_ok')[0][1][1]) == M")
        elif event == 'error':
            c.int('status', 1, 255)
            c.snapshot('wq', "sent('cf.send_packet')[0][1][0]"), c.snapshot('rq', "sent('cf.send_packet')[1][1][0]")
            c.snapshot('rdata', 'bytes(wq.data[0:5]) + bytes([status])')
            c.call((memh, '_new_packet_cb'), c.new(STK + ':CRTPPacket', (4 << 4) | 2, c.get('rdata')))
            c.ensure('write-error-handled', 'raised is None')
            c.snapshot('rdata', 'bytes(rq.data[0:5]) + bytes([status])')
            c.call((memh, '_new_packet_cb'), c.new(STK + ':CRTPPacket', (4 << 4) | 1, c.get('rdata')))
            c.ensure('read-error-handled', 'raised is None')
            c.snapshot('trace', 'trace')
            c.ensure('write-fails-once', "len(sent('w_bad')) == 1 and len(sent('w_ok')) == 0")
            c.ensure('read-fails-once-under-the-relative-address', "len(sent('r_bad')) == 1 and len(sent('r_ok')) == 0 and sent('r_bad')[0][1] == (address,)")
        else:
            c.call((memh, '_disconnected'), 'radio://0/1')
            c.ensure('drop-handled', 'raised is None')
            c.ensure('write-fails-once', "len(sent('w_bad')) == 1 and len(sent('w_ok')) == 0")
            c.ensure('read-fails-once-under-the-relative-address', "len(sent('r_bad')) == 1 and len(sent('r_ok')) == 0 and sent('r_bad')[0][1] == (address,)")
        c.ensure('no-lock-or-record-left', 'len(memh._read_requests) == 0 and all(len(v) == 0 for v in memh._write_requests.values()) '
                                           'and not memh._write_requests_lock.locked()')
        c.reset_trace()
        c.call((dm, 'write'), c.get('address'), d, w_ok, w_bad)
        c.ensure('next-deck-write-served', "raised is None and len(sent('cf.send_packet')) == 1")
        c.call((dm, 'read'), c.get('address'), 2, r_ok, r_bad)
        c.ensure('next-deck-read-served', "raised is None and len(sent('cf.send_packet')) == 2")
    return k


for _e in ('success', 'error', 'drop'):
    _deck_e2e(_e)


@contract('C06', 'enumeration.second-refresh-then-deck-read', READ_F + ENUM_F + [DMC + '.read', DMM + '._read', DMM + '._new_data', DMM + '.disconnect'], thorough_only=True,
          clause='never wedge the subsystem / state surviving a second use: after the memories have been enumerated AGAIN on the same connection '
                 '(Memory.refresh called a second time) a deck-memory read through the new manager completes with exactly one notification carrying '
                 'the device bytes, without exception, and the next read is served')
def second_refresh(c):
    memh = enumerated(c)
    enumerate_mems(c, memh, '2')
    c.let('mid', 1)
    c.ensure('one-object-per-reported-memory', 'len(memh.mems) == 2')
    c.int('base', 0x10000000, 2 ** 31), c.int('address', 0, 0x0FFFFFF0)
    c.snapshot('mapped', 'base + address')
    dm = deck_memory_of(c, c.get('deck'))
    c.bytes('M', 2)
    r_ok, r_bad = c.ext('r_ok'), c.ext('r_bad')
    c.call((dm, 'read'), c.get('address'), 2, r_ok, r_bad)
    c.ensure('read-accepted', "raised is None and len(sent('cf.send_packet')) == 1")
    if n_sent(c) != 1:
        return
    answer_read(c, memh, 0, 'mapped', 'M', 2)
    c.ensure('read-completes-once-with-the-device-bytes', "len(sent('r_ok')) == 1 and len(sent('r_bad')) == 0 and bytes(sent('r_ok')[0][1][1]) == M")
    c.call((dm, 'read'), c.get('address'), 2, r_ok, r_bad)
    c.ensure('next-deck-read-served', 'raised is None')


# --------------------------------------------------------------------------------------- error exit: a request the library itself rejects

@contract('C06', 'invalid-request.leaves-nothing-behind', [MEM + ':Memory.read', MEM + ':Memory.write'], thorough_only=True,
          clause='never wedge the subsystem: no lock or pending-request record is left behind and further requests are still served - also after a '
                 'request that ends with an exception because it cannot be encoded (address beyond the 32-bit address space, content that is not a byte)',
          bounded='one rejected request (three kinds), then one valid request of each direction to the same memory')
def invalid_request(c):
    memh, mem = setup(c)
    kind = c.choice('kind', ['write-address-out-of-range', 'write-content-not-a-byte', 'read-address-out-of-range'])
    c.int('bad_addr', 2 ** 32, 2 ** 33), c.int('bad_byte', 256, 1000)
    if kind == 'write-address-out-of-range':
        c.call((memh, 'write'), mem, c.get('bad_addr'), (1, 2))
    elif kind == 'write-content-not-a-byte':
        c.call((memh, 'write'), mem, 0, (1, c.get('bad_byte')))
    else:
        c.call((memh, 'read'), mem, c.get('bad_addr'), 4)
    c.ensure('rejected-with-an-exception-nothing-transmitted', "raised == 'struct.error' and len(sent('cf.send_packet')) == 0")
    quiescent(c)
    c.reset_trace()
    c.call((memh, 'read'), mem, 0, 4)
    c.ensure('next-read-served', "raised is None and result is True and len(sent('cf.send_packet')) == 1")
    if not c.concretize('memh._write_requests_lock.locked()'):
        c.reset_trace()
        c.call((memh, 'write'), mem, 0, (1, 2))
        c.ensure('next-write-transmitted', "raised is None and len(sent('cf.send_packet')) == 1")


@contract('C06', 'tester.foreign-completions-ignored', TEST_F + READ_F + WRITE_F + ENUM_F,
          clause='exactly one notification per request: the completion of a read / write of ANOTHER memory is not reported as the completion of the '
                 "memory tester's pending read / write, and does not consume it - its own completion is still reported once",
          bounded='one tester write (1 byte) and one tester read (2 bytes) pending while a write and a read of memory id 2 complete')
def tester_foreign(c):
    memh = enumerated(c)
    tester = c.get('tester')
    other = c.new(ELT, 2, 0x18, 0x100, memh)
    c.int('start', 0, 2 ** 32 - 10), c.int('oaddr', 0, 2 ** 32 - 10)
    c.bytes('M', 2), c.bytes('MO', 2)
    c.require('M[0] == start & 0xff and M[1] == (start + 1) & 0xff')
    wcb, rcb = c.ext('write_finished'), c.ext('read_finished')
    c.call((tester, 'write_data'), c.get('start'), 1, wcb)
    c.require('raised is None')
    c.call((tester, 'read_data'), c.get('start'), 2, rcb)
    c.require('raised is None')
    c.call((memh, 'write'), other, c.get('oaddr'), (9,))
    c.require('raised is None')
    c.call((memh, 'read'), other, c.get('oaddr'), 2)
    c.require("raised is None and len(sent('cf.send_packet')) == 4")
    ack_write(c, memh, 2, 'oaddr', 1, {}, midx='2')
    answer_read(c, memh, 3, 'oaddr', 'MO', 2, midx='2')
    c.ensure('foreign-completions-notified-at-memory-level-only', "len(sent('note_write')) == 1 and len(sent('note_read')) == 1 and "
             "len(sent('write_finished')) == 0 and len(sent('read_finished')) == 0")
    ack_write(c, memh, 0, 'start', 1, {})
    answer_read(c, memh, 1, 'start', 'M', 2)
    c.ensure('own-completions-reported-once', "len(sent('write_finished')) == 1 and len(sent('read_finished')) == 1 and tester.readValidationSucess is True")
    quiescent(c)


@contract('C06', 'enumeration.one-wire-updates-complete-once', [MEM + ':Memory._mem_update_done'],
          clause='the enumeration completes with exactly one notification: with 1-wire memories still reading their headers the completion is '
                 'reported exactly when the last of them reports done - not before, not twice (a duplicated done report is ignored)')
def ow_updates(c):
    cf = c.ext('cf')
    memh = c.new(MEM + ':Memory', cf)
    c.let('memh', memh)
    c.int('ia', 0, 255), c.int('ib', 0, 255)
    c.require('ia != ib')
    a, b = c.ext('ow_a', attrs={'id': c.get('ia')}), c.ext('ow_b', attrs={'id': c.get('ib')})
    done = c.ext('refresh_done')
    c.set(memh, '_refresh_callback', done)
    c.set(memh, '_ow_mems_left_to_update', c.list([c.get('ia'), c.get('ib')]))
    c.reset_trace()
    c.call((memh, '_mem_update_done'), a)
    c.ensure('not-before-the-last', "raised is None and len(sent('refresh_done')) == 0")
    c.call((memh, '_mem_update_done'), a)
    c.ensure('duplicate-report-ignored', "raised is None and len(sent('refresh_done')) == 0")
    c.call((memh, '_mem_update_done'), b)
    c.ensure('reported-once-at-the-last', "raised is None and len(sent('refresh_done')) == 1")
    c.call((memh, '_mem_update_done'), b)
    c.ensure('not-twice', "raised is None and len(sent('refresh_done')) == 1")


@contract('C06', 'write.queued.three', WRITE_F,
          clause='queued writes to one memory are performed in order and none is superseded unless asked for: three plain writes (no flush_queue) '
                 'issued back to back are all performed, one after the other in the order issued, each completely and each with exactly one notification',
          bounded='three writes of 30 (two chunks), 3 and 4 bytes to one memory; addresses, memory id and contents symbolic')
def queued_three(c):
    memh, mem = setup(c)
    c.int('addr', 0, 1000), c.int('addr2', 2000, 3000), c.int('addr3', 4000, 5000)
    d1 = c.ints('d1', 30, 0, 255, kind='tuple')
    d2 = c.ints('d2', 3, 0, 255, kind='tuple')
    d3 = c.ints('d3', 4, 0, 255, kind='tuple')
    for a, d in (('addr', d1), ('addr2', d2), ('addr3', d3)):
        c.call((memh, 'write'), mem, c.get(a), d)
        c.ensure('accepted-and-only-the-first-transmitted', "raised is None and result is True and len(sent('cf.send_packet')) == 1")
    order, images = serve_writes(c, memh, [('addr', 30), ('addr2', 3), ('addr3', 4)])
    c.let('order', tuple(order))
    c.ensure('performed-in-the-order-issued', 'order == (0, 0, 1, 2)')
    c.ensure('one-notification-each-in-order', "%s == (addr, addr2, addr3) and len(sent('note_write_failed')) == 0" % note_addrs(c, 'note_write'))
    c.ensure('every-write-reached-the-device-completely', ' and '.join([image_equals(images[0], 30, 'd1'), image_equals(images[1], 3, 'd2'), image_equals(images[2], 4, 'd3')]))
    quiescent(c)


@contract('C06', 'deck.sync-blocks-until-complete', [DMC + '.write_sync', DMC + '.read_sync', DMC + '._write_command_data', DMC + '.reset_to_fw'],
          clause='the blocking deck-memory calls report the outcome of the request, so they do not return before it has completed: while no success or '
                 'failure notification has been raised the caller keeps waiting (in the sequential model: the call ends in the pseudo exception '
                 'Deadlock instead of returning a verdict about a request that is still in flight)',
          bounded='the peer never answers; Event of cflib.utils.callbacks replaced by the sequential event model in both back ends')
def deck_sync_blocks(c):
    n = []

    def make_event(_i, _a, _k):
        n.append(1)
        return c.event('syncer_event%d' % len(n))
    c.patch('cflib.utils.callbacks:Event', c.ext('Event', returns={'()': make_event}))
    memh, mgr, dm = deck_with_peer(c, lambda _w: 'never')
    op = c.choice('operation', ['write_sync', 'read_sync', 'reset_to_fw'])
    if op == 'write_sync':
        c.call((dm, op), c.get('address'), c.bytes('wdata', 3))
    elif op == 'read_sync':
        c.call((dm, op), c.get('address'), 3)
    else:
        c.call((dm, op))
    c.ensure('request-made-and-caller-still-waiting', "raised == 'Deadlock' and len(sent('memh.write')) + len(sent('memh.read')) == 1")


SDM = DM + ':SyncDeckMemoryManager'


@contract('C06', 'deck.sync-query', [SDM + '.__init__', SDM + '.query_decks', DMM + '.query_decks', DMM + '._new_data', DMM + '._parse_info_section', DMC + '._parse'],
          clause='the blocking deck query is a read of the info section (address 0, whole section) that returns what the device holds there: the deck '
                 'memories described by the bytes delivered (base address, name, flags), or an error when the section has an unsupported version; '
                 'either way nothing stays pending - the next query is served',
          bounded='info section with one valid deck entry (index 0); version, hash, length and base address symbolic')
def deck_sync_query(c):
    memh, mgr, dm = deck_with_peer(c, lambda _w: 'done')
    c.int('version', 0, 255), c.int('h', 0, 2 ** 32 - 1), c.int('l', 0, 2 ** 32 - 1)
    supported = c.choice('version_supported', [True, False])
    c.require('version == 3' if supported else 'version != 3')
    c.let('rdata_dev', c.snapshot('info', "bytes([version]) + bytes([15, 0]) + pack('<LLL', h, l, base) + b'lighthouse' + bytes(8) + bytes(32 * 7)"))
    sync = c.new(SDM, mgr)
    for rnd in (1, 2):
        c.reset_trace()
        c.call((sync, 'query_decks'))
        c.ensure('whole-info-section-read-at-address-0', "len(sent('memh.read')) == 1 and sent('memh.read')[0][1] == (mgr, 0, 1 + 8 * 32)")
        if supported:
            c.ensure('returns-the-decks-the-device-describes', "raised is None and len(result) == 1 and result[0]._base_address == base and result[0].name == 'lighthouse' "
                     "and result[0].required_hash == h and result[0].required_length == l and result[0].is_started and result[0].supports_read and result[0].supports_write")
        else:
            c.ensure('unsupported-version-reported', "raised == 'RuntimeError'")


@contract('C06', 'deck.query-failure-notified', [DMM + '.query_decks', DMM + '._new_data_failed'], thorough_only=True,
          clause='every read request completes with exactly one success or failure notification, also when the reply reports an error or the link '
                 'drops: a deck query (read of the info section) that fails raises the failure callback once - a blocking query must not wait for ever')
def deck_query_failure(c):
    memh = c.ext('memh', returns={'read': True, 'write': True})
    mgr = c.new(DMM, 7, 0x19, 0x10000, memh)
    c.let('mgr', mgr)
    ok, bad = c.ext('query_ok'), c.ext('query_failed')
    c.call((mgr, 'query_decks'), ok, bad)
    c.require('raised is None')
    c.reset_trace()
    c.call((mgr, '_new_data_failed'), mgr, 0, c.bytes('partial', 2))
    c.ensure('failure-notified-once', "raised is None and calls() == ('query_failed',)")
    c.call((mgr, 'query_decks'), ok, bad)
    c.ensure('next-query-served', "raised is None and len(sent('memh.read')) == 1")


@contract('C06', 'tester.disconnect-clears-pending', TEST_F + READ_F + WRITE_F + ENUM_F,
          clause='no pending-request record is left behind: MemoryTester.disconnect (called when the memories are enumerated again) with a read and a '
                 'write pending forgets both - completions arriving afterwards are not reported to the old callbacks, and new requests are served '
                 'and reported once',
          bounded='one read of 2 bytes and one write of 1 byte pending at the disconnect')
def tester_disconnect(c):
    memh = enumerated(c)
    tester = c.get('tester')
    c.int('start', 0, 2 ** 32 - 10)
    c.bytes('M', 2)
    old = c.ext('old_cb')
    c.call((tester, 'read_data'), c.get('start'), 2, old)
    c.require('raised is None')
    c.call((tester, 'write_data'), c.get('start'), 1, old)
    c.require("raised is None and len(sent('cf.send_packet')) == 2")
    c.call((tester, 'disconnect'))
    c.ensure('disconnect-silent', "raised is None and len(sent('old_cb')) == 0")
    answer_read(c, memh, 0, 'start', 'M', 2)
    ack_write(c, memh, 1, 'start', 1, {})
    c.ensure('old-callbacks-never-fire', "len(sent('old_cb')) == 0 and len(sent('note_read')) == 1 and len(sent('note_write')) == 1")
    quiescent(c)
    new_r, new_w = c.ext('new_read_cb'), c.ext('new_write_cb')
    c.reset_trace()
    c.call((tester, 'read_data'), c.get('start'), 2, new_r)
    c.ensure('next-read-served', "raised is None and len(sent('cf.send_packet')) == 1")
    c.call((tester, 'write_data'), c.get('start'), 1, new_w)
    c.ensure('next-write-served', "raised is None and len(sent('cf.send_packet')) == 2")
    if n_sent(c) == 2:
        answer_read(c, memh, 0, 'start', 'M', 2, tag='@new-read')
        ack_write(c, memh, 1, 'start', 1, {}, tag='@new-write')
        c.ensure('new-requests-reported-once', "len(sent('new_read_cb')) == 1 and len(sent('new_write_cb')) == 1 and len(sent('old_cb')) == 0")


@contract('C06', 'deck.read-from-inside-completion-callback', [DM + ':DeckMemory.read', DM + ':DeckMemoryManager._read', DM + ':DeckMemoryManager._new_data',
                                                              DM + ':DeckMemoryManager._new_data_failed'],
          clause='afterwards further requests are still served, also from inside the notification: the next read of a deck memory, requested from the '
                 'completion (or failure) callback of the previous one, is accepted and transmitted, and no pending-read record is left behind',
          bounded='two chained reads of one deck memory; the first ends with data or with a failure')
def deck_chained_reads(c):
    memh = c.ext('memh', returns={'read': True})
    mgr = c.new(DM + ':DeckMemoryManager', 7, 0x19, 0x10000, memh)
    c.int('base', 0x10000000, 2 ** 31), c.int('a1', 0, 0x0FFFFFF0), c.int('a2', 0, 0x0FFFFFF0)
    dm = c.new(DM + ':DeckMemory', mgr, 0x1100)
    c.set(dm, '_base_address', c.get('base'))
    c.set(dm, '_bit_field1', 1 | 2 | 4 | 8)
    c.let('mgr', mgr), c.let('dm', dm)
    outcome = c.choice('outcome', ['data', 'failed'])
    second_ok, second_bad = c.ext('second_ok'), c.ext('second_failed')
    fired = []

    def chain(_i, args, _k):
        if not fired:
            fired.append(1)
            c.invoke((dm, 'read'), c.get('a2'), 2, second_ok, second_bad)      # the application asks for the next block at once
        return None
    first_ok = c.ext('first_ok', returns={'()': chain})
    first_bad = c.ext('first_failed', returns={'()': chain})
    c.call((dm, 'read'), c.get('a1'), 3, first_ok, first_bad)
    c.require('raised is None')
    c.reset_trace()
    d1 = c.bytes('d1', 3)
    c.call((mgr, '_new_data' if outcome == 'data' else '_new_data_failed'), mgr, c.snapshot('m1', 'base + a1'), d1)
    c.ensure('first-notification-and-chained-request-accepted', "raised is None and len(sent('first_ok' if %r == 'data' else 'first_failed')) == 1" % outcome)
    c.ensure('second-read-transmitted-at-its-mapped-address', "len(sent('memh.read')) == 1 and sent('memh.read')[0][1] == (mgr, base + a2, 2)")
    c.reset_trace()
    d2 = c.bytes('d2', 2)
    c.call((mgr, '_new_data'), mgr, c.snapshot('m2', 'base + a2'), d2)
    c.ensure('second-read-completes-once-with-its-data', "raised is None and len(sent('second_ok')) == 1 and sent('second_ok')[0][1] == (a2, d2) and len(sent('second_failed')) == 0")
    c.reset_trace()
    c.call((dm, 'read'), c.get('a1'), 1, c.ext('third_ok'), c.ext('third_failed'))
    c.ensure('no-pending-read-record-left-behind', "raised is None and len(sent('memh.read')) == 1")
