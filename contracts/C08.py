"""C08 - every command packet decodes to the caller's arguments under the firmware layout.

The wire layouts below are the specification (transcribed from the Crazyflie firmware's
crtp_commander_generic.c / crtp_commander_high_level.c / crtp_localization_service.c /
platformservice.c packet structs; the firmware is not in the sandbox, so the table is an assumption
about the peer and is listed as trusted).  Field order, types, signs and the version switch are
stated here independently of the library code; `pack` is the struct model of the engine (and the
real struct.pack in the native replay).

Structure: one contract per sender for ALL argument values (symbolic floats incl. NaN / inf / overflow, unbounded
ints, every protocol version -1..255, X-mode on/off), then (extension round, second half of the file) contracts over
HISTORIES of real calls on one real object (`*.history`, `*.history.3` thorough), documented DEFAULTS and keywords
(`*.defaults`), byte-sized ids / masks out of range (`*.out-of-range`), a packet object that is addressed again
(`header.readdressed`), the 30-byte limit end to end for a payload of symbolic length (`*.any-length`), the
negotiated version across a reconnect with the real senders on the real platform service
(`platform.protocol-version.reconnect`), and explicit two-thread schedules (`*-during-*`).

NOT covered / bounded / assumed (keep this list current):
 * the firmware layout table is trusted (see above); compress_quaternion is used through its C13 contract (uninterpreted function);
 * histories: sequences of 2 commands (3 in the thorough tier) with representable arguments; full-state setpoints take part in a
   history only in `send_full_state_setpoint.history.*` (fully symbolic only in the thorough tier, 3 commands);
 * two threads on one sender object: only the schedule point "second command runs while the first is inside cf.send_packet";
   pre-emption between two statements of one sender is out of reach (the senders keep no per-object state, which `*.history` checks);
 * send_lh_persist_data_packet: ids in any order up to 2+2 (quick), ascending up to 6+6 (the engine's sort model stops at 6 elements;
   4+4 in any order needs 3-10 minutes of solver time and 5 elements stay undecided); base stations listed TWICE violate the clause on
   the unchanged tree (finding, contracts `*.repeated-ids.*`, thorough_only);
 * send_setpoint with a FLOAT thrust: the fractional case is decided by native sampling when the solver gives up on int(thrust) != thrust;
 * ports > 15 / channels > 3 are masked by CRTPPacket (not part of the quantifier "all 16 x 4 headers"); CRTPPacket.__str__ / datal / datat
   (formatting helpers) are not under contract; Crazyflie.send_packet with link None (nothing is transmitted, nothing raised) is outside C08.
"""
from pyvc.api import contract

CMD = 'cflib.crazyflie.commander'
HLC = 'cflib.crazyflie.high_level_commander'
LOC = 'cflib.crazyflie.localization'
EXP = 'cflib.crazyflie.extpos'
PLT = 'cflib.crazyflie.platformservice'
LPO = 'lpslib.lopoanchor'
STK = 'cflib.crtp.crtpstack'

CLAUSE = ('single packet of at most 30 payload bytes on the documented port and channel whose fields decode, under the '
          'firmware wire layout for the negotiated protocol version, to the caller\'s arguments')


def cf_with_version(c):
    ver = c.int('ver', -1, 255)
    cf = c.ext('cf', returns={'platform.get_protocol_version': ver})
    return cf, ver


def seq_returns(values):
    it = iter(values)
    return lambda *_a: next(it)


def commander(c, cf, xmode=None):
    """a Commander built by its real constructor; client X-mode set through the real setter"""
    self = c.new(CMD + ':Commander', cf)
    xm = c.bool('x_mode') if xmode is None else xmode
    c.call((self, 'set_client_xmode'), xm)
    c.reset_trace()
    return self


def check_packet(c, port, channel, layout, errors=(), ok_when=None, sender='cf.send_packet'):
    """post-conditions shared by all senders"""
    c.let('SENDER', sender)
    if c.get('raised') is None:
        c.ensure('exactly-one-packet', 'len(sent(SENDER)) == 1')
        c.snapshot('pk', 'sent(SENDER)[0][1][0]')
        c.ensure('port-channel-header', 'pk.port == %d and pk.channel == %d and pk.header == %d and pk.get_header() == %d'
                 % (port, channel, (port << 4) | 0xC | channel, (port << 4) | 0xC | channel))
        if layout is not None:
            c.ensure('layout', 'bytes(pk.data) == ' + layout)
        c.ensure('at-most-30-bytes', 'len(pk.data) <= 30')
    else:
        c.ensure('nothing-sent-when-raising', 'len(sent(SENDER)) == 0')
        c.ensure('declared-errors-only', 'raised in %r' % (tuple(errors),))
    if ok_when is not None:
        c.ensure('raises-iff-unrepresentable', 'iff(raised is None, %s)' % ok_when)


def fits(*names):
    return ' and '.join('fits_f32(%s)' % n for n in names)


# ------------------------------------------------------------------------- Commander

@contract('C08', 'send_setpoint', [CMD + ':Commander.send_setpoint'], clause=CLAUSE)
def send_setpoint(c):
    self = commander(c, c.ext('cf'))
    c.float('roll'), c.float('pitch'), c.float('yawrate')
    c.int('thrust')
    c.call((self, 'send_setpoint'), c.get('roll'), c.get('pitch'), c.get('yawrate'), c.get('thrust'))
    c.snapshot('r2', '0.707 * (roll - pitch) if x_mode else roll')
    c.snapshot('p2', '0.707 * (roll + pitch) if x_mode else pitch')
    check_packet(c, 3, 0, "pack('<fffH', r2, -p2, yawrate, thrust)", errors=('ValueError', 'OverflowError'),
                 ok_when='0 <= thrust <= 65535 and fits_f32(r2) and fits_f32(-p2) and fits_f32(yawrate)')


@contract('C08', 'send_notify_setpoint_stop', [CMD + ':Commander.send_notify_setpoint_stop'], clause=CLAUSE)
def send_notify(c):
    self = commander(c, c.ext('cf'), False)
    c.int('ms')
    c.call((self, 'send_notify_setpoint_stop'), c.get('ms'))
    check_packet(c, 7, 1, "pack('<BI', 0, ms)", errors=('struct.error',), ok_when='0 <= ms < 2**32')


@contract('C08', 'send_stop_setpoint', [CMD + ':Commander.send_stop_setpoint'], clause=CLAUSE)
def send_stop(c):
    self = commander(c, c.ext('cf'), False)
    c.call((self, 'send_stop_setpoint'))
    check_packet(c, 7, 0, "pack('<B', 0)", ok_when='True')


def _versioned(name, legacy_type, new_type, args, legacy_fields, new_fields):
    @contract('C08', name, [CMD + ':Commander.' + name], clause=CLAUSE + ' (legacy/new switch at protocol version 8/9)')
    def k(c):
        cf, ver = cf_with_version(c)
        self = commander(c, cf)
        for a in args:
            c.float(a)
        c.call((self, name), *[c.get(a) for a in args])
        layout = "(pack('<Bffff', %d, %s) if ver <= 8 else pack('<Bffff', %d, %s))" % (
            legacy_type, legacy_fields, new_type, new_fields)
        ok = ' and '.join('fits_f32(%s)' % (('(-yawrate if ver <= 8 else yawrate)') if a == 'yawrate' else a) for a in args)
        check_packet(c, 7, 0, layout, errors=('OverflowError',), ok_when=ok)
    return k


_versioned('send_velocity_world_setpoint', 1, 8, ['vx', 'vy', 'vz', 'yawrate'], 'vx, vy, vz, -yawrate', 'vx, vy, vz, yawrate')
_versioned('send_zdistance_setpoint', 2, 9, ['roll', 'pitch', 'yawrate', 'zdistance'],
           'roll, pitch, -yawrate, zdistance', 'roll, pitch, yawrate, zdistance')
_versioned('send_hover_setpoint', 5, 10, ['vx', 'vy', 'yawrate', 'zdistance'], 'vx, vy, -yawrate, zdistance', 'vx, vy, yawrate, zdistance')


def _versioned_twice(name, legacy_type, new_type, args, legacy_fields, new_fields):
    @contract('C08', name + '.twice', [CMD + ':Commander.' + name],
              clause=CLAUSE + ' - for the protocol version negotiated at the time of each call (history: the same object is used across a re-negotiation)')
    def k(c):
        v1 = c.int('ver1', -1, 255)
        ver = c.int('ver', -1, 255)
        phase = {'v': v1}
        cf = c.ext('cf', returns={'platform.get_protocol_version': lambda *_a: phase['v']})
        self = commander(c, cf, False)
        for a in args:
            c.float(a)
        c.require(' and '.join('-1e30 < %s < 1e30' % a for a in args))
        c.call((self, name), *[c.get(a) for a in args])
        c.require('raised is None')
        c.reset_trace()
        phase['v'] = ver        # the platform service re-negotiates (reconnect to another firmware)
        c.call((self, name), *[c.get(a) for a in args])
        layout = "(pack('<Bffff', %d, %s) if ver <= 8 else pack('<Bffff', %d, %s))" % (
            legacy_type, legacy_fields, new_type, new_fields)
        check_packet(c, 7, 0, layout, ok_when='True')
    return k


for _a in (('send_velocity_world_setpoint', 1, 8, ['vx', 'vy', 'vz', 'yawrate'], 'vx, vy, vz, -yawrate', 'vx, vy, vz, yawrate'),
           ('send_zdistance_setpoint', 2, 9, ['roll', 'pitch', 'yawrate', 'zdistance'], 'roll, pitch, -yawrate, zdistance', 'roll, pitch, yawrate, zdistance'),
           ('send_hover_setpoint', 5, 10, ['vx', 'vy', 'yawrate', 'zdistance'], 'vx, vy, -yawrate, zdistance', 'vx, vy, yawrate, zdistance')):
    _versioned_twice(*_a)


@contract('C08', 'send_position_setpoint', [CMD + ':Commander.send_position_setpoint'], clause=CLAUSE)
def send_position(c):
    self = commander(c, c.ext('cf'), False)
    for a in 'xyz':
        c.float(a)
    c.float('yaw')
    c.call((self, 'send_position_setpoint'), c.get('x'), c.get('y'), c.get('z'), c.get('yaw'))
    check_packet(c, 7, 0, "pack('<Bffff', 7, x, y, z, yaw)", errors=('OverflowError',), ok_when=fits('x', 'y', 'z', 'yaw'))


@contract('C08', 'send_full_state_setpoint', [CMD + ':Commander.send_full_state_setpoint'],
          clause=CLAUSE + '; millimetre fixed point, truncation toward zero; quaternion by the contract of compress_quaternion (C13)',
          max_paths=400)
def send_full_state(c):
    self = commander(c, c.ext('cf'), False)
    c.uf_summary('cflib.utils.encoding:compress_quaternion', 'compq', 0, 2 ** 32 - 1,
                 note='(range proved for non-zero finite quaternions in C13 thorough; numpy arithmetic itself is outside the subset)')
    pos = c.floats('pos', 3)
    vel = c.floats('vel', 3)
    acc = c.floats('acc', 3)
    q = c.floats('q', 4)
    c.float('rr'), c.float('pr'), c.float('yr')
    # pre-condition of compress_quaternion: a finite quaternion that is not (numerically) zero
    c.require('all(-1e150 <= v <= 1e150 for v in q) and any(v >= 1e-150 or v <= -1e-150 for v in q)')
    c.call((self, 'send_full_state_setpoint'), pos, vel, acc, q, c.get('rr'), c.get('pr'), c.get('yr'))
    if c.get('raised') is None:
        check_packet(c, 7, 0, "pack('<BhhhhhhhhhIhhh', 6, mm(pos[0]), mm(pos[1]), mm(pos[2]), mm(vel[0]), mm(vel[1]), mm(vel[2]), "
                     "mm(acc[0]), mm(acc[1]), mm(acc[2]), compq(q), mm(rr), mm(pr), mm(yr))")
    else:
        check_packet(c, 7, 0, '', errors=('ValueError', 'OverflowError', 'struct.error'))
    c.ensure('raises-iff-unrepresentable', 'iff(raised is None, all(fits_mm16(v) for v in list(pos) + list(vel) + list(acc) + [rr, pr, yr]))')


# ------------------------------------------------------------------------- HighLevelCommander

def hl(c, version=False):
    if version:
        cf, ver = cf_with_version(c)
    else:
        cf = c.ext('cf')
    return c.new(HLC + ':HighLevelCommander', cf)


@contract('C08', 'hl.set_group_mask', [HLC + ':HighLevelCommander.set_group_mask', HLC + ':HighLevelCommander._send_packet'], clause=CLAUSE)
def hl_group(c):
    self = hl(c)
    c.int('gm')
    c.call((self, 'set_group_mask'), c.get('gm'))
    check_packet(c, 8, 0, "pack('<BB', 0, gm)", errors=('struct.error',), ok_when='0 <= gm <= 255')


def _takeoff_land(name, cmd):
    @contract('C08', 'hl.' + name, [HLC + ':HighLevelCommander.' + name], clause=CLAUSE)
    def k(c):
        self = hl(c)
        c.float('h'), c.float('dur')
        c.int('gm', 0, 255)
        use_cur = c.choice('yaw_is_none', [False, True])
        yaw = None if use_cur else c.float('yaw')
        c.let('yawv', 0.0 if use_cur else yaw)
        c.let('use_cur', use_cur)
        c.call((self, name), c.get('h'), c.get('dur'), c.get('gm'), yaw)
        check_packet(c, 8, 0, "pack('<BBff?f', %d, gm, h, yawv, use_cur, dur)" % cmd, errors=('OverflowError',),
                     ok_when=fits('h', 'dur', 'yawv'))
    return k


_takeoff_land('takeoff', 7)
_takeoff_land('land', 8)


@contract('C08', 'hl.stop', [HLC + ':HighLevelCommander.stop'], clause=CLAUSE)
def hl_stop(c):
    self = hl(c)
    c.int('gm', 0, 255)
    c.call((self, 'stop'), c.get('gm'))
    check_packet(c, 8, 0, "pack('<BB', 3, gm)", ok_when='True')


@contract('C08', 'hl.go_to', [HLC + ':HighLevelCommander.go_to'], clause=CLAUSE + ' (legacy go-to below protocol version 8)')
def hl_goto(c):
    self = hl(c, version=True)
    for a in ('x', 'y', 'z', 'yaw', 'dur'):
        c.float(a)
    c.bool('relative'), c.bool('linear')
    c.int('gm', 0, 255)
    c.call((self, 'go_to'), c.get('x'), c.get('y'), c.get('z'), c.get('yaw'), c.get('dur'), c.get('relative'), c.get('linear'), c.get('gm'))
    check_packet(c, 8, 0, "(pack('<BBBfffff', 4, gm, relative, x, y, z, yaw, dur) if ver < 8 else "
                 "pack('<BBBBfffff', 12, gm, relative, linear, x, y, z, yaw, dur))", errors=('OverflowError',),
                 ok_when=fits('x', 'y', 'z', 'yaw', 'dur'))


@contract('C08', 'hl.spiral', [HLC + ':HighLevelCommander.spiral'],
          clause=CLAUSE + '; angle saturated to +-2pi and negative radii to 0 as documented; nothing sent below protocol 8')
def hl_spiral(c):
    self = hl(c, version=True)
    for a in ('angle', 'r0', 'rF', 'ascent', 'dur'):
        c.float(a)
    c.bool('sideways'), c.bool('clockwise')
    c.int('gm', 0, 255)
    c.call((self, 'spiral'), c.get('angle'), c.get('r0'), c.get('rF'), c.get('ascent'), c.get('dur'), c.get('sideways'), c.get('clockwise'), c.get('gm'))
    c.snapshot('a2', '6.283185307179586 if angle > 6.283185307179586 else (-6.283185307179586 if angle < -6.283185307179586 else angle)')
    c.snapshot('r0c', '0.0 if r0 < 0 else r0')
    c.snapshot('rFc', '0.0 if rF < 0 else rF')
    if c.get('raised') is None:
        c.ensure('old-protocol-sends-nothing', 'implies(ver < 8, len(sent("cf.send_packet")) == 0)')
        c.ensure('new-protocol-sends-one', 'implies(ver >= 8, len(sent("cf.send_packet")) == 1)')
        if len(c.get('trace')) > 1:
            c.snapshot('pk', 'sent("cf.send_packet")[0][1][0]')
            c.ensure('port-channel-header', 'pk.port == 8 and pk.channel == 0 and pk.header == 0x8C')
            c.ensure('layout', "bytes(pk.data) == pack('<BBBBfffff', 11, gm, sideways, clockwise, a2, r0c, rFc, ascent, dur)")
            c.ensure('at-most-30-bytes', 'len(pk.data) <= 30')
    else:
        c.ensure('nothing-sent-when-raising', 'len(sent("cf.send_packet")) == 0')
        c.ensure('declared-errors-only', "raised == 'OverflowError'")
    c.ensure('raises-iff-unrepresentable', 'iff(raised is None, ver < 8 or (fits_f32(a2) and fits_f32(r0c) and fits_f32(rFc) and fits_f32(ascent) and fits_f32(dur)))')


@contract('C08', 'hl.start_trajectory', [HLC + ':HighLevelCommander.start_trajectory'], clause=CLAUSE)
def hl_start_traj(c):
    self = hl(c)
    c.int('tid'), c.float('ts'), c.bool('relative'), c.bool('rev'), c.int('gm', 0, 255)
    c.call((self, 'start_trajectory'), c.get('tid'), c.get('ts'), c.get('relative'), c.get('rev'), c.get('gm'))
    check_packet(c, 8, 0, "pack('<BBBBBf', 5, gm, relative, rev, tid, ts)", errors=('OverflowError', 'struct.error'),
                 ok_when='0 <= tid <= 255 and fits_f32(ts)')


@contract('C08', 'hl.define_trajectory', [HLC + ':HighLevelCommander.define_trajectory'], clause=CLAUSE)
def hl_define_traj(c):
    self = hl(c)
    c.int('tid'), c.int('offset'), c.int('n'), c.int('typ', 0, 1)
    c.call((self, 'define_trajectory'), c.get('tid'), c.get('offset'), c.get('n'), c.get('typ'))
    check_packet(c, 8, 0, "pack('<BBBBIB', 6, tid, 1, typ, offset, n)", errors=('struct.error',),
                 ok_when='0 <= tid <= 255 and 0 <= offset < 2**32 and 0 <= n <= 255')


# ------------------------------------------------------------------------- Localization / Extpos

def loc(c):
    l = c.new(LOC + ':Localization', c.ext('cf'))
    c.reset_trace()
    return l


@contract('C08', 'loc.send_extpos', [LOC + ':Localization.send_extpos', EXP + ':Extpos.send_extpos'], clause=CLAUSE)
def loc_extpos(c):
    l = loc(c)
    cf2 = c.ext('cf2', attrs={'loc': l})
    e = c.new(EXP + ':Extpos', cf2)
    for a in 'xyz':
        c.float(a)
    c.call((e, 'send_extpos'), c.get('x'), c.get('y'), c.get('z'))
    check_packet(c, 6, 0, "pack('<fff', x, y, z)", errors=('OverflowError',), ok_when=fits('x', 'y', 'z'))


@contract('C08', 'loc.send_extpose', [LOC + ':Localization.send_extpose', EXP + ':Extpos.send_extpose'], clause=CLAUSE)
def loc_extpose(c):
    l = loc(c)
    cf2 = c.ext('cf2', attrs={'loc': l})
    e = c.new(EXP + ':Extpos', cf2)
    names = ['x', 'y', 'z', 'qx', 'qy', 'qz', 'qw']
    for a in names:
        c.float(a)
    c.call((e, 'send_extpose'), *[c.get(a) for a in names])
    check_packet(c, 6, 1, "pack('<Bfffffff', 8, x, y, z, qx, qy, qz, qw)", errors=('OverflowError',), ok_when=fits(*names))


def _lpp(name, paylen):
    @contract('C08', 'loc.send_short_lpp_packet.len%d' % paylen, [LOC + ':Localization.send_short_lpp_packet'],
              clause=CLAUSE + ' (payload length %d; lengths 0, 1, 13, 28, 29 cover the 30-byte boundary)' % paylen)
    def k(c):
        l = loc(c)
        c.int('dest')
        data = c.bytes('data', paylen)
        c.call((l, 'send_short_lpp_packet'), c.get('dest'), data)
        check_packet(c, 6, 1, "pack('<BB', 2, dest) + data", errors=('struct.error',), ok_when='0 <= dest <= 255')
    return k


for _n in (0, 1, 13, 28):
    _lpp('lpp', _n)


@contract('C08', 'loc.emergency_stop', [LOC + ':Localization.send_emergency_stop', LOC + ':Localization.send_emergency_stop_watchdog'], clause=CLAUSE)
def loc_estop(c):
    l = loc(c)
    which = c.choice('which', ['send_emergency_stop', 'send_emergency_stop_watchdog'])
    c.let('code', 3 if which == 'send_emergency_stop' else 4)
    c.call((l, which))
    check_packet(c, 6, 1, "pack('<B', code)", ok_when='True')


def _persist(ng, nc):
    @contract('C08', 'loc.send_lh_persist_data_packet.%d_%d' % (ng, nc), [LOC + ':Localization.send_lh_persist_data_packet'],
              clause=CLAUSE + ': mask bit i set iff base station i is listed', bounded='list lengths %d and %d (lengths 0..3 enumerated)' % (ng, nc))
    def k(c):
        l = loc(c)
        geo = c.ints('geo', ng)
        cal = c.ints('cal', nc)
        c.require('all(geo[i] != geo[j] for i in range(len(geo)) for j in range(i))')
        c.require('all(cal[i] != cal[j] for i in range(len(cal)) for j in range(i))')
        c.snapshot('geo0', 'tuple(geo)')
        c.snapshot('cal0', 'tuple(cal)')
        c.call((l, 'send_lh_persist_data_packet'), geo, cal)
        c.snapshot('valid', 'all(0 <= g <= 15 for g in geo0) and all(0 <= g <= 15 for g in cal0)')
        if c.get('raised') is None:
            check_packet(c, 6, 1, "pack('<BHH', 11, sum(2 ** g for g in geo0), sum(2 ** g for g in cal0))")
        else:
            check_packet(c, 6, 1, '', errors=('Exception',))
        c.ensure('raises-iff-invalid-id', 'iff(raised is None, valid)')
    return k


for _a, _b in ((0, 0), (1, 0), (0, 2), (2, 1), (2, 2)):
    _persist(_a, _b)
# (3_3 was decided in about a minute while the code summed the bits; since the repair that ORs them the any-order statement for three and
#  more symbolic ids per list is no longer decided within the budget (sum-of-powers and bit-by-bit forms both tried) - see `ascending`)
# (lengths 4_4 take 3..10 minutes and 5_1 / 1_5 stay undecided - the solver cannot bound the sum of five powers of two of distinct ids -
#  so longer lists are covered by the `ascending` contracts further down: ids in ascending order, up to the 6 elements the sort model handles)


# ------------------------------------------------------------------------- Platform service

@contract('C08', 'platform.send_arming_request', [PLT + ':PlatformService.send_arming_request'], clause=CLAUSE)
def plt_arm(c):
    p = c.new(PLT + ':PlatformService', c.ext('cf'))
    c.reset_trace()
    c.bool('do_arm')
    c.call((p, 'send_arming_request'), c.get('do_arm'))
    check_packet(c, 13, 0, "pack('<B?', 1, do_arm)", ok_when='True')


@contract('C08', 'platform.send_crash_recovery_request', [PLT + ':PlatformService.send_crash_recovery_request'], clause=CLAUSE)
def plt_crash(c):
    p = c.new(PLT + ':PlatformService', c.ext('cf'))
    c.reset_trace()
    c.call((p, 'send_crash_recovery_request'))
    check_packet(c, 13, 0, "pack('<B', 2)", ok_when='True')


@contract('C08', 'platform.set_continous_wave', [PLT + ':PlatformService.set_continous_wave'], clause=CLAUSE)
def plt_cw(c):
    p = c.new(PLT + ':PlatformService', c.ext('cf'))
    c.reset_trace()
    c.bool('en')
    c.call((p, 'set_continous_wave'), c.get('en'))
    check_packet(c, 13, 0, "pack('<B?', 0, en)", ok_when='True')


# ------------------------------------------------------------------------- LoPo anchors

@contract('C08', 'lopo.set_position', [LPO + ':LoPoAnchor.set_position'], clause=CLAUSE)
def lopo_pos(c):
    l = loc(c)
    cf2 = c.ext('cf2', attrs={'loc': l})
    a = c.new(LPO + ':LoPoAnchor', cf2)
    c.int('aid', 0, 255)
    p = c.floats('p', 3)
    c.call((a, 'set_position'), c.get('aid'), p)
    check_packet(c, 6, 1, "pack('<BBBfff', 2, aid, 1, p[0], p[1], p[2])", errors=('OverflowError',), ok_when='fits_f32(p[0]) and fits_f32(p[1]) and fits_f32(p[2])')


@contract('C08', 'lopo.reboot_mode', [LPO + ':LoPoAnchor.reboot', LPO + ':LoPoAnchor.set_mode'], clause=CLAUSE)
def lopo_rm(c):
    l = loc(c)
    cf2 = c.ext('cf2', attrs={'loc': l})
    a = c.new(LPO + ':LoPoAnchor', cf2)
    which = c.choice('which', ['reboot', 'set_mode'])
    c.let('code', 2 if which == 'reboot' else 3)
    c.int('aid', 0, 255), c.int('mode')
    c.call((a, which), c.get('aid'), c.get('mode'))
    check_packet(c, 6, 1, "pack('<BBBB', 2, aid, code, mode)", errors=('struct.error',), ok_when='0 <= mode <= 255')


# ------------------------------------------------------------------------- header byte

@contract('C08', 'header.set_header', [STK + ':CRTPPacket.__init__', STK + ':CRTPPacket.set_header', STK + ':CRTPPacket._update_header',
                                       STK + ':CRTPPacket._set_port', STK + ':CRTPPacket._set_channel', STK + ':CRTPPacket.get_header'],
          clause='the header byte encodes port and channel losslessly for every port and channel')
def header_set(c):
    c.int('port', 0, 15), c.int('channel', 0, 3)
    order = c.choice('order', ['set_header', 'port_then_channel', 'channel_then_port'])
    pk = c.new(STK + ':CRTPPacket')
    c.let('pk', pk)
    if order == 'set_header':
        c.call((pk, 'set_header'), c.get('port'), c.get('channel'))
    elif order == 'port_then_channel':
        c.call((pk, '_set_port'), c.get('port'))
        c.call((pk, '_set_channel'), c.get('channel'))
    else:
        c.call((pk, '_set_channel'), c.get('channel'))
        c.call((pk, '_set_port'), c.get('port'))
    c.ensure('no-exception', 'raised is None')
    c.ensure('header-value', 'pk.header == port * 16 + 12 + channel and pk.get_header() == pk.header')
    c.ensure('lossless', '(pk.header >> 4) == port and (pk.header & 3) == channel and pk.port == port and pk.channel == channel')


@contract('C08', 'header.decode', [STK + ':CRTPPacket.__init__'],
          clause='a received header byte is split into the port and channel it encodes, for all 256 values')
def header_decode(c):
    c.int('h', 0, 255)
    pk = c.new(STK + ':CRTPPacket', c.get('h'))
    c.let('pk', pk)
    c.call((pk, 'get_header'))
    c.ensure('no-exception', 'raised is None')
    c.ensure('port-channel', 'pk.port == h // 16 and pk.channel == h % 4')
    c.ensure('reencode', 'result == (h // 16) * 16 + 12 + h % 4')


@contract('C08', 'size-limit', [STK + ':CRTPPacket.is_data_size_valid', STK + ':CRTPPacket.available_data_size', 'cflib.crazyflie:Crazyflie.send_packet'],
          clause='a payload above 30 bytes is refused by Crazyflie.send_packet before anything is transmitted')
def size_limit(c):
    n = c.choice('n', [0, 1, 29, 30, 31, 32, 64])
    data = c.bytes('data', n)
    pk = c.new(STK + ':CRTPPacket', 0x30, data)
    link = c.ext('link', attrs={'needs_resending': False})
    cf = c.obj('cflib.crazyflie:Crazyflie', link=link, _send_lock=c.lock('send_lock'), packet_sent=c.ext('packet_sent'),
               _answer_patterns=c.dict([]))
    c.call((cf, 'send_packet'), pk)
    c.let('n', n)
    c.ensure('refused-iff-too-large', "iff(raised is not None, n > 30)")
    c.ensure('nothing-transmitted-when-refused', "implies(n > 30, len(sent('link.send_packet')) == 0)")
    c.ensure('transmitted-once-otherwise', "implies(n <= 30, len(sent('link.send_packet')) == 1)")


# ------------------------------------------------------------------------- the negotiated protocol version the senders switch on

@contract('C08', 'platform.protocol-version', [PLT + ':PlatformService._platform_callback', PLT + ':PlatformService._crt_service_callback',
                                               PLT + ':PlatformService.fetch_platform_informations', PLT + ':PlatformService.get_protocol_version',
                                               PLT + ':PlatformService._request_protocol_version'],
          clause='the protocol version that selects the legacy / new wire layouts is the one the firmware reported in its protocol-version reply and '
                 'nothing else: other packets on the platform port (firmware-version replies, console / app-channel traffic) do not change it; a '
                 'Crazyflie that does not implement the link service counts as version -1')
def protocol_version(c):
    cf = c.ext('cf')
    p = c.new(PLT + ':PlatformService', cf)
    c.let('p', p)
    done = c.ext('done')
    c.reset_trace()
    c.call((p, 'fetch_platform_informations'), done)
    c.ensure('asks-the-link-service-first', "raised is None and len(sent('cf.send_packet')) == 1 and sent('cf.send_packet')[0][1][0].port == 15 and sent('cf.send_packet')[0][1][0].channel == 1")
    has_service = c.choice('has_link_service', [True, False])
    c.reset_trace()
    if has_service:
        c.call((p, '_crt_service_callback'), c.new(STK + ':CRTPPacket', (15 << 4) | 1, b'Bitcraze Crazyflie\x00'))
        c.ensure('asks-for-the-protocol-version', "raised is None and len(sent('cf.send_packet')) == 1 and sent('cf.send_packet')[0][1][0].port == 13 and "
                 "sent('cf.send_packet')[0][1][0].channel == 1 and bytes(sent('cf.send_packet')[0][1][0].data) == bytes([0]) and len(sent('done')) == 0")
        c.int('ver', 0, 255)
        c.call((p, '_platform_callback'), c.new(STK + ':CRTPPacket', (13 << 4) | 1, c.snapshot('vr', 'bytes([0, ver])')))
        c.ensure('version-is-the-reported-one', "raised is None and p.get_protocol_version() == ver and len(sent('done')) == 1")
        c.let('expected', c.get('ver'))
    else:
        c.call((p, '_crt_service_callback'), c.new(STK + ':CRTPPacket', (15 << 4) | 1, c.ints('junk', 3, 0, 127, kind='bytes')))     # an ASCII echo that is not the magic string
        c.ensure('no-link-service-means-minus-one', "raised is None and p.get_protocol_version() == -1 and len(sent('done')) == 1")
        c.let('expected', -1)
    # later traffic on the platform port that is not a protocol-version reply
    c.reset_trace()
    kind = c.choice('later', ['firmware-version-reply', 'platform-command-channel', 'app-channel'])
    c.int('b0', 1, 255)
    other = c.bytes('other', 4)
    if kind == 'firmware-version-reply':
        pk = c.new(STK + ':CRTPPacket', (13 << 4) | 1, c.snapshot('fw', 'bytes([b0]) + other'))        # command byte != 0
    elif kind == 'platform-command-channel':
        pk = c.new(STK + ':CRTPPacket', (13 << 4) | 0, other)
    else:
        pk = c.new(STK + ':CRTPPacket', (13 << 4) | 2, other)
    c.call((p, '_platform_callback'), pk)
    c.ensure('other-traffic-does-not-change-the-version', "raised is None and p.get_protocol_version() == expected and len(sent('done')) == 0")


# ========================================================================= extension round: histories, defaults, end to end
#
# One table states, per sender, its documented signature (required / optional arguments with the documented default) and the
# firmware layout of the packet it has to emit.  It is written from the firmware structs and the library's documentation,
# independently of the method bodies, and is used by three families of contracts:
#   *.history   two commands in a row on the SAME object (every ordered pair of senders, fresh symbolic arguments, client
#               X-mode and the negotiated protocol version may change between the calls): BOTH packets, inspected after the
#               second call, decode to the arguments of their own call (a packet handed to send_packet may still wait in the
#               link queue when the next command is built, so nothing of it may change afterwards)
#   *.defaults  a call that leaves out the optional arguments decodes to the documented defaults; optional arguments given
#               by their documented keyword decode to the given values
#   *.out-of-range  group masks / ids that do not fit their byte raise instead of being wrapped

class _Arg:
    def __init__(self, name, kind, default=None, optional=False):
        self.name, self.kind, self.default, self.optional = name, kind, default, optional


def _req(name, kind):
    return _Arg(name, kind)


def _opt(name, kind, default):
    return _Arg(name, kind, default, True)


_F4 = ['x', 'y', 'z', 'yaw']

SENDERS = {
    'commander': [
        dict(m='send_setpoint', args=[_req('roll', 'f'), _req('pitch', 'f'), _req('yawrate', 'f'), _req('thrust', 'u16')], port=3, ch=0,
             layout="pack('<fffH', (0.707 * ({roll} - {pitch}) if {xm} else {roll}), -(0.707 * ({roll} + {pitch}) if {xm} else {pitch}), {yawrate}, {thrust})"),
        dict(m='send_notify_setpoint_stop', args=[_opt('remain_valid_milliseconds', 'u32', 0)], port=7, ch=1,
             layout="pack('<BI', 0, {remain_valid_milliseconds})"),
        dict(m='send_stop_setpoint', args=[], port=7, ch=0, layout="pack('<B', 0)"),
        dict(m='send_velocity_world_setpoint', args=[_req('vx', 'f'), _req('vy', 'f'), _req('vz', 'f'), _req('yawrate', 'f')], port=7, ch=0,
             layout="(pack('<Bffff', 1, {vx}, {vy}, {vz}, -{yawrate}) if {ver} <= 8 else pack('<Bffff', 8, {vx}, {vy}, {vz}, {yawrate}))"),
        dict(m='send_zdistance_setpoint', args=[_req('roll', 'f'), _req('pitch', 'f'), _req('yawrate', 'f'), _req('zdistance', 'f')], port=7, ch=0,
             layout="(pack('<Bffff', 2, {roll}, {pitch}, -{yawrate}, {zdistance}) if {ver} <= 8 else pack('<Bffff', 9, {roll}, {pitch}, {yawrate}, {zdistance}))"),
        dict(m='send_hover_setpoint', args=[_req('vx', 'f'), _req('vy', 'f'), _req('yawrate', 'f'), _req('zdistance', 'f')], port=7, ch=0,
             layout="(pack('<Bffff', 5, {vx}, {vy}, -{yawrate}, {zdistance}) if {ver} <= 8 else pack('<Bffff', 10, {vx}, {vy}, {yawrate}, {zdistance}))"),
        dict(m='send_position_setpoint', args=[_req(a, 'f') for a in _F4], port=7, ch=0, layout="pack('<Bffff', 7, {x}, {y}, {z}, {yaw})"),
    ],
    'hl': [
        dict(m='set_group_mask', args=[_opt('group_mask', 'u8', 0)], port=8, ch=0, layout="pack('<BB', 0, {group_mask})"),
        dict(m='takeoff', args=[_req('absolute_height_m', 'f'), _req('duration_s', 'f'), _opt('group_mask', 'u8', 0), _opt('yaw', 'f', 0.0)], port=8, ch=0,
             layout="pack('<BBff?f', 7, {group_mask}, {absolute_height_m}, {yaw}, False, {duration_s})"),
        dict(m='land', args=[_req('absolute_height_m', 'f'), _req('duration_s', 'f'), _opt('group_mask', 'u8', 0), _opt('yaw', 'f', 0.0)], port=8, ch=0,
             layout="pack('<BBff?f', 8, {group_mask}, {absolute_height_m}, {yaw}, False, {duration_s})"),
        dict(m='stop', args=[_opt('group_mask', 'u8', 0)], port=8, ch=0, layout="pack('<BB', 3, {group_mask})"),
        dict(m='go_to', args=[_req(a, 'f') for a in _F4] + [_req('duration_s', 'f'), _opt('relative', 'b', False), _opt('linear', 'b', False), _opt('group_mask', 'u8', 0)],
             port=8, ch=0,
             layout="(pack('<BBBfffff', 4, {group_mask}, {relative}, {x}, {y}, {z}, {yaw}, {duration_s}) if {ver} < 8 else "
                    "pack('<BBBBfffff', 12, {group_mask}, {relative}, {linear}, {x}, {y}, {z}, {yaw}, {duration_s}))"),
        # the saturation of angle / radii is the business of the contract hl.spiral; here the arguments are inside the documented ranges
        dict(m='spiral', args=[_req('angle', 'f6'), _req('r0', 'f+'), _req('rF', 'f+'), _req('ascent', 'f'), _req('duration_s', 'f'),
                               _opt('sideways', 'b', False), _opt('clockwise', 'b', False), _opt('group_mask', 'u8', 0)], port=8, ch=0, sends='{ver} >= 8',
             layout="pack('<BBBBfffff', 11, {group_mask}, {sideways}, {clockwise}, {angle}, {r0}, {rF}, {ascent}, {duration_s})"),
        dict(m='start_trajectory', args=[_req('trajectory_id', 'u8'), _opt('time_scale', 'f', 1.0), _opt('relative', 'b', False), _opt('reversed', 'b', False),
                                         _opt('group_mask', 'u8', 0)], port=8, ch=0,
             layout="pack('<BBBBBf', 5, {group_mask}, {relative}, {reversed}, {trajectory_id}, {time_scale})"),
        dict(m='define_trajectory', args=[_req('trajectory_id', 'u8'), _req('offset', 'u32'), _req('n_pieces', 'u8'), _opt('type', 'u1', 0)], port=8, ch=0,
             layout="pack('<BBBBIB', 6, {trajectory_id}, 1, {type}, {offset}, {n_pieces})"),
    ],
    'loc': [
        dict(m='send_extpos', args=[_req('pos', 'f3')], port=6, ch=0, layout="pack('<fff', {pos}[0], {pos}[1], {pos}[2])"),
        dict(m='send_extpose', args=[_req('pos', 'f3'), _req('quat', 'f4')], port=6, ch=1,
             layout="pack('<Bfffffff', 8, {pos}[0], {pos}[1], {pos}[2], {quat}[0], {quat}[1], {quat}[2], {quat}[3])"),
        dict(m='send_short_lpp_packet', args=[_req('dest_id', 'u8'), _req('data', 'bytes5')], port=6, ch=1, layout="pack('<BB', 2, {dest_id}) + {data}"),
        dict(m='send_emergency_stop', args=[], port=6, ch=1, layout="pack('<B', 3)"),
        dict(m='send_emergency_stop_watchdog', args=[], port=6, ch=1, layout="pack('<B', 4)"),
        dict(m='send_lh_persist_data_packet', args=[_req('geo_list', 'bs1'), _req('calib_list', 'bs1')], port=6, ch=1,
             layout="pack('<BHH', 11, 2 ** {geo_list}_0, 2 ** {calib_list}_0)"),
    ],
    'platform': [
        dict(m='set_continous_wave', args=[_req('enabled', 'b')], port=13, ch=0, layout="pack('<B?', 0, {enabled})"),
        dict(m='send_arming_request', args=[_req('do_arm', 'b')], port=13, ch=0, layout="pack('<B?', 1, {do_arm})"),
        dict(m='send_crash_recovery_request', args=[], port=13, ch=0, layout="pack('<B', 2)"),
    ],
}
_CLS = {'commander': CMD + ':Commander', 'hl': HLC + ':HighLevelCommander', 'loc': LOC + ':Localization', 'platform': PLT + ':PlatformService'}


def _declare(c, a, sfx):
    """a fresh symbolic, REPRESENTABLE value for argument `a` (what is not representable is the business of the single-call contracts)"""
    n = a.name + sfx
    k = a.kind
    if k in ('f', 'f6', 'f+'):
        v = c.float(n)
        c.require({'f': '-1e30 < %s < 1e30', 'f6': '-6.0 <= %s <= 6.0', 'f+': '0.0 <= %s < 1e30'}[k] % n)
        return v
    if k == 'b':
        return c.bool(n)
    if k in ('u1', 'u8', 'u16', 'u32'):
        return c.int(n, 0, {'u1': 1, 'u8': 255, 'u16': 65535, 'u32': 2 ** 32 - 1}[k])
    if k in ('f3', 'f4'):
        v = c.floats(n, int(k[1]))
        c.require('all(-1e30 < v < 1e30 for v in %s)' % n)
        return v
    if k == 'bytes5':
        return c.bytes(n, 5)
    if k == 'bs1':      # a list naming one base station
        b = c.int(n + '_0', 0, 15)
        return c.list([b])
    raise ValueError(k)


def _fmt(sp, sfx):
    names = {a.name: a.name + sfx for a in sp['args']}
    names['ver'] = 'ver' + sfx
    names['xm'] = 'xm' + sfx
    return sp['layout'].format(**names), sp.get('sends', 'True').format(**names)


def _n_sent(c, name='cf.send_packet'):
    return sum(1 for t in (c.get('trace') or ()) if t[0] == name)


def _check_step(c, sp, sfx, idx):
    """the packet number `idx` of the trace is the packet of the call with suffix `sfx`"""
    layout, _s = _fmt(sp, sfx)
    hdr = (sp['port'] << 4) | 0xC | sp['ch']
    c.snapshot('pk' + sfx, 'sent("cf.send_packet")[%d][1][0]' % idx)
    c.ensure('port-channel-header' + sfx, 'pk%s.port == %d and pk%s.channel == %d and pk%s.header == %d and pk%s.get_header() == %d'
             % (sfx, sp['port'], sfx, sp['ch'], sfx, hdr, sfx, hdr))
    c.ensure('layout' + sfx, 'bytes(pk%s.data) == %s' % (sfx, layout))
    c.ensure('at-most-30-bytes' + sfx, 'len(pk%s.data) <= 30' % sfx)


def _history(group, steps=2, thorough_only=False, first=None):
    specs = SENDERS[group]
    @contract('C08', '%s.history%s%s' % (group, '' if steps == 2 else '.%d' % steps, '' if first is None else '.first-' + specs[first]['m']),
              [_CLS[group] + '.' + sp['m'] for sp in specs],
              clause=CLAUSE + ' - for EVERY command of a sequence on one object: each packet, inspected after the last call, still decodes to the arguments, '
              'X-mode and protocol version of its own call (no state of an earlier command, port, channel, payload or version, leaks into a later one, and a '
              'later command does not alter a packet already handed to send_packet)',
              bounded='sequences of %d commands (every ordered tuple of the %d senders of the class%s); arguments restricted to representable values'
              % (steps, len(specs), '' if first is None else ' that starts with ' + specs[first]['m']),
              thorough_only=thorough_only, max_paths=20000)
    def k(c):
        phase = {'v': -1}
        cf = c.ext('cf', returns={'platform.get_protocol_version': lambda *_a: phase['v']})
        obj = c.new(_CLS[group], cf)
        c.reset_trace()
        done = []
        for i in range(1, steps + 1):
            sfx = '_%d' % i
            phase['v'] = c.int('ver' + sfx, -1, 255)
            if group == 'commander':
                c.call((obj, 'set_client_xmode'), c.bool('xm' + sfx))
            sp = specs[first if (i == 1 and first is not None) else c.choice('cmd' + sfx, list(range(len(specs))))]
            vals = [_declare(c, a, sfx) for a in sp['args']]
            before = _n_sent(c)
            c.call((obj, sp['m']), *vals)
            c.ensure('no-exception' + sfx, 'raised is None')
            _l, sends = _fmt(sp, sfx)
            c.ensure('one-packet-per-command' + sfx, 'len(sent("cf.send_packet")) == %d + (1 if %s else 0)' % (before, sends))
            if _n_sent(c) == before + 1:
                done.append((sp, sfx, before))
        for sp, sfx, idx in done:
            _check_step(c, sp, sfx, idx)
    return k


for _g in ('commander', 'hl', 'loc', 'platform'):
    _history(_g)
for _g in ('hl', 'loc', 'platform'):
    _history(_g, steps=3, thorough_only=True)
for _i in range(len(SENDERS['commander'])):      # split by the first command: one job per core
    _history('commander', steps=3, thorough_only=True, first=_i)


def _defaults(group):
    specs = [sp for sp in SENDERS[group]]
    @contract('C08', group + '.defaults', [_CLS[group] + '.' + sp['m'] for sp in specs] + ([CMD + ':Commander.__init__'] if group == 'commander' else []),
              clause=CLAUSE + ' - the arguments the caller leaves out are the documented defaults (group mask 0 = all groups, yaw 0.0, relative / linear / reversed / '
              'sideways / clockwise False, time scale 1.0, trajectory type POLY4D = 0, remain-valid 0 ms, client X-mode off for a new Commander), and optional '
              'arguments given by their documented keyword decode like positional ones')
    def k(c):
        cf, ver = cf_with_version(c)
        c.let('ver_d', ver)
        c.let('xm_d', False)           # a new Commander is in +-mode: set_client_xmode is NOT called here
        obj = c.new(_CLS[group], cf)
        c.reset_trace()
        sp = specs[c.choice('cmd', list(range(len(specs))))]
        has_opt = any(a.optional for a in sp['args'])
        style = c.choice('style', ['left-out', 'by-keyword'] if has_opt else ['left-out'])
        pos, kw = [], {}
        for a in sp['args']:
            if not a.optional:
                pos.append(_declare(c, a, '_d'))
            elif style == 'left-out':
                c.let(a.name + '_d', a.default)
            else:
                kw[a.name] = _declare(c, a, '_d')
        c.call((obj, sp['m']), *pos, **kw)
        c.ensure('no-exception', 'raised is None')
        _l, sends = _fmt(sp, '_d')
        c.ensure('one-packet-per-command', 'len(sent("cf.send_packet")) == (1 if %s else 0)' % sends)
        if _n_sent(c) == 1:
            _check_step(c, sp, '_d', 0)
    return k


for _g in ('commander', 'hl'):
    _defaults(_g)


# ------------------------------------------------------------------------- ids and masks that do not fit their byte

def _byte_arg(name, cls_key, method, args, byte_arg, layout, sends='True'):
    @contract('C08', name + '.out-of-range', [_CLS.get(cls_key, cls_key) + '.' + method],
              clause='arguments that cannot be represented raise instead of being sent wrapped or clipped silently: `%s` is one unsigned byte on the wire' % byte_arg)
    def k(c):
        cf, ver = cf_with_version(c)
        if cls_key == 'lopo':
            l = c.new(LOC + ':Localization', cf)
            obj = c.new(LPO + ':LoPoAnchor', c.ext('cf2', attrs={'loc': l}))
        else:
            obj = c.new(_CLS[cls_key], cf)
        c.reset_trace()
        vals = []
        for a in args:
            if a.name == byte_arg:
                vals.append(c.int(a.name + '_d'))          # ANY integer
            else:
                vals.append(_declare(c, a, '_d'))
        c.call((obj, method), *vals)
        c.let('v', c.get(byte_arg + '_d'))
        c.ensure('raises-iff-not-a-byte', 'iff(raised is None, 0 <= v <= 255 or not (%s))' % sends)
        if c.get('raised') is None:
            c.ensure('one-packet-per-command', 'len(sent("cf.send_packet")) == (1 if %s else 0)' % sends)
            if _n_sent(c) == 1:
                c.ensure('sent-unchanged', 'bytes(sent("cf.send_packet")[0][1][0].data) == ' + layout)
        else:
            c.ensure('nothing-sent-when-raising', 'len(sent("cf.send_packet")) == 0')
            c.ensure('declared-errors-only', "raised == 'struct.error'")
    return k


for _sp in SENDERS['hl']:
    for _b in ('group_mask', 'trajectory_id', 'n_pieces'):
        if any(a.name == _b for a in _sp['args']) and not (_sp['m'] == 'set_group_mask' or (_sp['m'] in ('start_trajectory', 'define_trajectory') and _b == 'trajectory_id')
                                                               or _b == 'n_pieces'):
            # (set_group_mask, trajectory ids and piece counts are already unbounded in the single-call contracts above)
            _lay = _fmt(dict(_sp, layout=_sp['layout'].replace('{ver}', 'ver')), '_d')[0]
            _byte_arg('hl.%s.%s' % (_sp['m'], _b), 'hl', _sp['m'], _sp['args'], _b, _lay, sends=_sp.get('sends', 'True').replace('{ver}', 'ver'))

_LOPO_POS = [_req('anchor_id', 'u8'), _req('position', 'f3')]
_byte_arg('lopo.set_position.anchor_id', 'lopo', 'set_position', _LOPO_POS, 'anchor_id',
          "pack('<BBBfff', 2, anchor_id_d, 1, position_d[0], position_d[1], position_d[2])")
for _m, _code in (('reboot', 2), ('set_mode', 3)):
    _byte_arg('lopo.%s.anchor_id' % _m, 'lopo', _m, [_req('anchor_id', 'u8'), _req('mode', 'u8')], 'anchor_id',
              "pack('<BBBB', 2, anchor_id_d, %d, mode_d)" % _code)


# ------------------------------------------------------------------------- header byte of a packet object that is addressed again

@contract('C08', 'header.readdressed', [STK + ':CRTPPacket.__init__', STK + ':CRTPPacket.set_header', STK + ':CRTPPacket._update_header',
                                        STK + ':CRTPPacket._set_port', STK + ':CRTPPacket._set_channel', STK + ':CRTPPacket.get_header'],
          clause='the header byte encodes port and channel losslessly for every port and channel - also on a packet object that already carries '
                 'any other header (a received packet that is answered, a packet addressed a second time): no bit of the earlier port / channel survives, '
                 'and setting only the port (only the channel) keeps the other one')
def header_readdressed(c):
    c.int('h', 0, 255)
    pk = c.new(STK + ':CRTPPacket', c.get('h'))
    c.let('pk', pk)
    c.let('port_0', None), c.let('channel_0', None)
    for i, orders in ((1, ['set_header', 'port_then_channel', 'channel_then_port']),
                      (2, ['set_header', 'port_then_channel', 'channel_then_port', 'port_only', 'channel_only'])):
        c.int('port_%d' % i, 0, 15), c.int('channel_%d' % i, 0, 3)
        order = c.choice('order_%d' % i, orders)
        p, ch = c.get('port_%d' % i), c.get('channel_%d' % i)
        if order == 'set_header':
            c.call((pk, 'set_header'), p, ch)
        elif order == 'port_then_channel':
            c.call((pk, '_set_port'), p)
            c.call((pk, '_set_channel'), ch)
        elif order == 'channel_then_port':
            c.call((pk, '_set_channel'), ch)
            c.call((pk, '_set_port'), p)
        elif order == 'port_only':
            c.call((pk, '_set_port'), p)
            c.let('channel_2', c.get('channel_1'))
        else:
            c.call((pk, '_set_channel'), ch)
            c.let('port_2', c.get('port_1'))
        c.ensure('no-exception_%d' % i, 'raised is None')
        c.ensure('header-value_%d' % i, 'pk.header == port_%d * 16 + 12 + channel_%d and pk.get_header() == pk.header' % (i, i))
        c.ensure('lossless_%d' % i, '(pk.header >> 4) == port_%d and (pk.header & 3) == channel_%d and pk.port == port_%d and pk.channel == channel_%d' % (i, i, i, i))


# ------------------------------------------------------------------------- the 30-byte limit, end to end, for every payload length

def _real_cf(c):
    """a Crazyflie object whose send_packet is the REAL one, over a recording link (as in `size-limit`)"""
    link = c.ext('link', attrs={'needs_resending': False})
    return c.obj('cflib.crazyflie:Crazyflie', link=link, _send_lock=c.lock('send_lock'), packet_sent=c.ext('packet_sent'),
                 _answer_patterns=c.dict([]), incoming=c.ext('incoming'))


def _next_command_still_goes_out(c, l):
    """second use: whatever happened to the first command (sent or refused), the next one is one packet again"""
    c.snapshot('n_before', "len(sent('link.send_packet'))")
    c.call((l, 'send_emergency_stop'))
    c.ensure('next-command-is-transmitted', "raised is None and len(sent('link.send_packet')) == n_before + 1 and "
             "bytes(sent('link.send_packet')[-1][1][0].data) == pack('<B', 3) and sent('link.send_packet')[-1][1][0].header == 0x6D")


@contract('C08', 'loc.send_short_lpp_packet.any-length', [LOC + ':Localization.send_short_lpp_packet', 'cflib.crazyflie:Crazyflie.send_packet',
                                                          STK + ':CRTPPacket.is_data_size_valid', STK + ':CRTPPacket._set_data'],
          clause=CLAUSE + ' - for an LPP payload of ANY length (symbolic length and content): up to 28 bytes it is transmitted once, complete and unchanged behind the '
          '2-byte LPP header; a longer one does not fit the 30 payload bytes and raises before anything is transmitted (never truncated, never split)')
def lpp_any_length(c):
    cf = _real_cf(c)
    l = c.new(LOC + ':Localization', cf)
    c.reset_trace()
    c.int('dest', 0, 255)
    data = c.view('data', 'bytes')
    c.call((l, 'send_short_lpp_packet'), c.get('dest'), data)
    c.ensure('raises-iff-too-long', 'iff(raised is None, len(data) <= 28)')
    if c.get('raised') is None:
        c.ensure('transmitted-once', "len(sent('link.send_packet')) == 1")
        c.snapshot('pk', "sent('link.send_packet')[0][1][0]")
        c.ensure('port-channel-header', 'pk.port == 6 and pk.channel == 1 and pk.header == 0x6D')
        c.ensure('complete-and-unchanged', "len(pk.data) == len(data) + 2 and bytes(pk.data[0:2]) == pack('<BB', 2, dest) and bytes(pk.data[2:]) == data")
        c.ensure('at-most-30-bytes', 'len(pk.data) <= 30')
    else:
        c.ensure('nothing-transmitted-when-refused', "len(sent('link.send_packet')) == 0")
    _next_command_still_goes_out(c, l)


@contract('C08', 'size-limit.any-length', [STK + ':CRTPPacket.is_data_size_valid', STK + ':CRTPPacket.available_data_size', STK + ':CRTPPacket.get_data_size',
                                           'cflib.crazyflie:Crazyflie.send_packet'],
          clause='a payload above 30 bytes is refused by Crazyflie.send_packet before anything is transmitted, a payload of at most 30 bytes is transmitted once and '
                 'unchanged - for a payload of ANY length and content (symbolic length), set by the constructor or by the data property; after a refusal the next command still goes out')
def size_limit_any(c):
    cf = _real_cf(c)
    l = c.new(LOC + ':Localization', cf)
    c.reset_trace()
    data = c.view('data', 'bytes')
    how = c.choice('data_set_by', ['constructor', 'property'])
    if how == 'constructor':
        pk = c.new(STK + ':CRTPPacket', 0x30, data)
    else:
        pk = c.new(STK + ':CRTPPacket', 0x30)
        c.call((pk, '_set_data'), data)
    c.let('pk', pk)
    c.call((cf, 'send_packet'), pk)
    c.ensure('refused-iff-too-large', 'iff(raised is not None, len(data) > 30)')
    c.ensure('nothing-transmitted-when-refused', "implies(len(data) > 30, len(sent('link.send_packet')) == 0)")
    c.ensure('transmitted-once-and-unchanged-otherwise', "implies(len(data) <= 30, len(sent('link.send_packet')) == 1 and is_same(sent('link.send_packet')[0][1][0], pk) and "
             "bytes(pk.data) == data and len(pk.data) == len(data))")
    _next_command_still_goes_out(c, l)


# ------------------------------------------------------------------------- lighthouse persist: lists that name a base station twice
# FINDING on the unchanged tree (reported to the maintainer; thorough_only so that the quick tier stays green): the masks are built with
# `mask += 1 << bs`, so a base station listed twice sets the NEXT bit: send_lh_persist_data_packet([1, 1], []) sends geometry mask 0x0004
# (base station 2, which the caller never listed, and not base station 1).

def _first(lst, i):
    return 'all(%s[j] != %s[%d] for j in range(%d))' % (lst, lst, i, i)


def _persist_dup(ng, nc):
    @contract('C08', 'loc.send_lh_persist_data_packet.repeated-ids.%d_%d' % (ng, nc), [LOC + ':Localization.send_lh_persist_data_packet'],
              clause=CLAUSE + ': mask bit i set iff base station i is listed - also when the caller lists a base station more than once (or the call raises; '
              'it must not persist another base station than the listed ones)', bounded='list lengths %d and %d' % (ng, nc), thorough_only=True)
    def k(c):
        l = loc(c)
        geo = c.ints('geo', ng, 0, 15)
        cal = c.ints('cal', nc, 0, 15)
        c.snapshot('geo0', 'tuple(geo)')
        c.snapshot('cal0', 'tuple(cal)')
        c.call((l, 'send_lh_persist_data_packet'), geo, cal)
        if c.get('raised') is None:
            check_packet(c, 6, 1, "pack('<BHH', 11, %s, %s)" % (
                ' + '.join(['0'] + ['(2 ** geo0[%d] if %s else 0)' % (i, _first('geo0', i)) for i in range(ng)]),
                ' + '.join(['0'] + ['(2 ** cal0[%d] if %s else 0)' % (i, _first('cal0', i)) for i in range(nc)])))
        else:
            check_packet(c, 6, 1, '', errors=('Exception', 'ValueError', 'struct.error'))
    return k


for _a, _b in ((2, 0), (1, 2)):
    _persist_dup(_a, _b)


# ------------------------------------------------------------------------- the negotiated version across a reconnect, end to end with the senders

@contract('C08', 'platform.protocol-version.reconnect', [PLT + ':PlatformService.fetch_platform_informations', PLT + ':PlatformService._platform_callback',
                                                         PLT + ':PlatformService._crt_service_callback', PLT + ':PlatformService.get_protocol_version',
                                                         CMD + ':Commander.send_hover_setpoint', HLC + ':HighLevelCommander.go_to'],
          clause='the layout is the one of the protocol version negotiated with the CURRENT peer: when the same Crazyflie object connects again, the version of '
                 'the earlier connection is forgotten when the new negotiation starts (not negotiated = -1 until the new peer has answered), the new peer\'s answer '
                 '(or its missing link service) decides, and the REAL senders reading the REAL platform service switch layouts accordingly')
def protocol_version_reconnect(c):
    cf = c.ext('cf')
    p = c.new(PLT + ':PlatformService', cf)
    c.let('p', p)
    cfs = c.ext('cfs', attrs={'platform': p})
    cmd = c.new(CMD + ':Commander', cfs)
    hlc = c.new(HLC + ':HighLevelCommander', cfs)
    magic = b'Bitcraze Crazyflie\x00'
    # first connection: a peer with the link service that reports ver1
    c.int('ver1', 0, 255)
    c.call((p, 'fetch_platform_informations'), c.ext('done1'))
    c.call((p, '_crt_service_callback'), c.new(STK + ':CRTPPacket', (15 << 4) | 1, magic))
    c.call((p, '_platform_callback'), c.new(STK + ':CRTPPacket', (13 << 4) | 1, c.snapshot('vr1', 'bytes([0, ver1])')))
    c.ensure('first-connection-negotiated', "raised is None and p.get_protocol_version() == ver1 and len(sent('done1')) == 1")
    # second connection
    c.reset_trace()
    c.call((p, 'fetch_platform_informations'), c.ext('done2'))
    c.ensure('earlier-version-forgotten-when-negotiation-restarts', 'raised is None and p.get_protocol_version() == -1')
    if c.choice('new_peer_has_link_service', [True, False]):
        c.call((p, '_crt_service_callback'), c.new(STK + ':CRTPPacket', (15 << 4) | 1, magic))
        c.int('ver2', 0, 255)
        c.call((p, '_platform_callback'), c.new(STK + ':CRTPPacket', (13 << 4) | 1, c.snapshot('vr2', 'bytes([0, ver2])')))
        c.let('ver', c.get('ver2'))
    else:
        c.call((p, '_crt_service_callback'), c.new(STK + ':CRTPPacket', (15 << 4) | 1, c.ints('junk', 3, 0, 127, kind='bytes')))
        c.let('ver', -1)
    c.ensure('new-peer-decides', "raised is None and p.get_protocol_version() == ver and len(sent('done2')) == 1 and len(sent('done1')) == 0")
    # the real senders over the real platform service
    c.reset_trace()
    for a in ('vx', 'vy', 'yawrate', 'zdistance', 'x', 'y', 'z', 'yaw', 'dur'):
        c.float(a)
        c.require('-1e30 < %s < 1e30' % a)
    c.bool('relative'), c.bool('linear'), c.int('gm', 0, 255)
    c.call((cmd, 'send_hover_setpoint'), c.get('vx'), c.get('vy'), c.get('yawrate'), c.get('zdistance'))
    c.ensure('hover-sent', "raised is None and len(sent('cfs.send_packet')) == 1")
    c.call((hlc, 'go_to'), c.get('x'), c.get('y'), c.get('z'), c.get('yaw'), c.get('dur'), c.get('relative'), c.get('linear'), c.get('gm'))
    c.ensure('go-to-sent', "raised is None and len(sent('cfs.send_packet')) == 2")
    if _n_sent(c, 'cfs.send_packet') == 2:
        c.ensure('hover-layout-of-current-peer', "bytes(sent('cfs.send_packet')[0][1][0].data) == (pack('<Bffff', 5, vx, vy, -yawrate, zdistance) if ver <= 8 else "
                 "pack('<Bffff', 10, vx, vy, yawrate, zdistance))")
        c.ensure('go-to-layout-of-current-peer', "bytes(sent('cfs.send_packet')[1][1][0].data) == (pack('<BBBfffff', 4, gm, relative, x, y, z, yaw, dur) if ver < 8 else "
                 "pack('<BBBBfffff', 12, gm, relative, linear, x, y, z, yaw, dur))")


@contract('C08', 'send_setpoint.float-thrust', [CMD + ':Commander.send_setpoint'],
          clause='arguments that cannot be represented raise instead of being sent wrapped or clipped silently: a thrust given as a float that is fractional or outside '
                 '0..65535 is never sent rounded / truncated; an integral float in range is either refused too or sent as exactly that value')
def send_setpoint_float_thrust(c):
    self = commander(c, c.ext('cf'))
    for a in ('roll', 'pitch', 'yawrate'):
        c.float(a)
        c.require('-1e30 < %s < 1e30' % a)
    c.float('thrust')
    c.require('-1e6 < thrust < 1e6')
    c.call((self, 'send_setpoint'), c.get('roll'), c.get('pitch'), c.get('yawrate'), c.get('thrust'))
    c.ensure('fractional-or-out-of-range-raises', 'implies(thrust != int(thrust) or thrust < 0 or thrust > 65535, raised is not None)')
    if c.get('raised') is None:
        c.ensure('exactly-one-packet', 'len(sent("cf.send_packet")) == 1')
        c.ensure('sent-exactly', 'bytes(sent("cf.send_packet")[0][1][0].data[12:14]) == pack("<H", int(thrust))')
    else:
        c.ensure('nothing-sent-when-raising', 'len(sent("cf.send_packet")) == 0')
        c.ensure('declared-errors-only', "raised in ('ValueError', 'struct.error')")


def _persist_sorted(ng, nc):
    @contract('C08', 'loc.send_lh_persist_data_packet.ascending.%d_%d' % (ng, nc), [LOC + ':Localization.send_lh_persist_data_packet'],
              clause=CLAUSE + ': mask bit i set iff base station i is listed',
              bounded='list lengths %d and %d, ids given in ascending order (any order is covered up to length 4 by the contracts above)' % (ng, nc))
    def k(c):
        l = loc(c)
        geo = c.ints('geo', ng, 0, 15)
        cal = c.ints('cal', nc, 0, 15)
        c.require('all(geo[i] < geo[i + 1] for i in range(len(geo) - 1))')
        c.require('all(cal[i] < cal[i + 1] for i in range(len(cal) - 1))')
        c.snapshot('geo0', 'tuple(geo)')
        c.snapshot('cal0', 'tuple(cal)')
        c.call((l, 'send_lh_persist_data_packet'), geo, cal)
        c.ensure('valid-ids-are-accepted', 'raised is None')
        if c.get('raised') is None:
            check_packet(c, 6, 1, "pack('<BHH', 11, sum(2 ** g for g in geo0), sum(2 ** g for g in cal0))")
    return k


for _a, _b in ((5, 5), (6, 6)):
    _persist_sorted(_a, _b)


# ------------------------------------------------------------------------- two threads use one sender object (explicit schedule)

def _interleaved(name, group, outer, inner):
    so = [sp for sp in SENDERS[group] if sp['m'] == outer][0]
    si = [sp for sp in SENDERS[group] if sp['m'] == inner][0]
    @contract('C08', name, [_CLS[group] + '.' + outer, _CLS[group] + '.' + inner],
              clause=CLAUSE + ' - when a second thread (watchdog / emergency / supervisor) issues its own command on the same object while the first thread is '
              'inside send_packet with a finished packet: two packets, each decoding to its own command',
              bounded='one schedule point: the second thread runs its whole command while the first one is inside cf.send_packet (pre-emption between two '
              'statements of packet construction is not modelled; the senders keep no state on the object, see *.history)')
    def k(c):
        nested = []
        ver = c.int('ver', -1, 255)
        c.let('ver_o', ver), c.let('ver_i', ver), c.let('xm_o', False), c.let('xm_i', False)
        holder = {}

        def send(_i, _args, _k):
            if not nested:
                nested.append(1)
                c.invoke((holder['obj'], inner), *holder['inner_vals'])
            return None
        cf = c.ext('cf', returns={'platform.get_protocol_version': ver, 'send_packet': send})
        obj = c.new(_CLS[group], cf)
        holder['obj'] = obj
        holder['inner_vals'] = [_declare(c, a, '_i') for a in si['args']]
        vals = [_declare(c, a, '_o') for a in so['args']]
        c.reset_trace()
        c.call((obj, outer), *vals)
        c.ensure('no-exception', 'raised is None')
        c.ensure('two-packets', 'len(sent("cf.send_packet")) == 2')
        if _n_sent(c) == 2:
            lo, li = _fmt(so, '_o')[0], _fmt(si, '_i')[0]
            ho, hi = (so['port'] << 4) | 0xC | so['ch'], (si['port'] << 4) | 0xC | si['ch']
            c.snapshot('A', 'sent("cf.send_packet")[0][1][0]')
            c.snapshot('B', 'sent("cf.send_packet")[1][1][0]')
            one = '(bytes({0}.data) == %s and {0}.header == %d and bytes({1}.data) == %s and {1}.header == %d)' % (lo, ho, li, hi)
            c.ensure('each-packet-decodes-to-its-own-command', one.format('A', 'B') + ' or ' + one.format('B', 'A'))
    return k


_interleaved('loc.watchdog-during-extpos', 'loc', 'send_extpos', 'send_emergency_stop_watchdog')
_interleaved('commander.stop-during-setpoint', 'commander', 'send_hover_setpoint', 'send_stop_setpoint')
_interleaved('hl.stop-during-go_to', 'hl', 'go_to', 'stop')


# ------------------------------------------------------------------------- full-state setpoint as part of a history

def _full_state_history(other, thorough_only, second_concrete=False):
    so = [sp for sp in SENDERS['commander'] if sp['m'] == other][0]
    @contract('C08', 'send_full_state_setpoint.history.' + other + ('.quick' if second_concrete else ''),
              [CMD + ':Commander.send_full_state_setpoint', CMD + ':Commander.' + other],
              clause=CLAUSE + ' - full-state setpoints in a sequence on one object (full state, another command, full state again with other values): every packet, '
              'inspected after the last call, decodes to the arguments of its own call',
              bounded='three commands; components within +-30 (m, m/s, m/s^2, deg/s: inside the int16 millimetre range, the range check itself is the business of '
              'send_full_state_setpoint)' + ('; the second full-state setpoint has fixed values (the fully symbolic sequence runs in the thorough tier)' if second_concrete else ''),
              thorough_only=thorough_only, max_paths=400)
    def k(c):
        cf, ver = cf_with_version(c)
        self = commander(c, cf, False)
        c.let('ver_m', ver), c.let('xm_m', False)
        c.uf_summary('cflib.utils.encoding:compress_quaternion', 'compq', 0, 2 ** 32 - 1,
                     note='(range proved for non-zero finite quaternions in C13 thorough; numpy arithmetic itself is outside the subset)')
        lay = {}
        for s in ('a', 'b'):
            args = []
            if s == 'b' and second_concrete:
                fixed = {'pos': [1.5, -2.25, 0.75], 'vel': [-0.5, 0.125, 3.0], 'acc': [0.25, -9.5, 1.0], 'q': [0.0, 0.6, 0.0, 0.8]}
                for n in ('pos', 'vel', 'acc', 'q'):
                    args.append(c.let(n + s, c.list(fixed[n])))
                for n, v in (('rr', 12.5), ('pr', -7.0), ('yr', 29.75)):
                    args.append(c.let(n + s, v))
            else:
                for n in ('pos', 'vel', 'acc'):
                    args.append(c.floats(n + s, 3))
                    c.require('all(-30.0 < v < 30.0 for v in %s%s)' % (n, s))
                args.append(c.floats('q' + s, 4))
                c.require('all(-1e150 <= v <= 1e150 for v in q{0}) and any(v >= 1e-150 or v <= -1e-150 for v in q{0})'.format(s))
                for n in ('rr', 'pr', 'yr'):
                    args.append(c.float(n + s))
                    c.require('-30.0 < %s%s < 30.0' % (n, s))
            lay[s] = ("pack('<BhhhhhhhhhIhhh', 6, mm(pos{0}[0]), mm(pos{0}[1]), mm(pos{0}[2]), mm(vel{0}[0]), mm(vel{0}[1]), mm(vel{0}[2]), "
                      "mm(acc{0}[0]), mm(acc{0}[1]), mm(acc{0}[2]), compq(q{0}), mm(rr{0}), mm(pr{0}), mm(yr{0}))").format(s)
            c.call((self, 'send_full_state_setpoint'), *args)
            c.ensure('no-exception-' + s, 'raised is None')
            if s == 'a':
                vals = [_declare(c, a, '_m') for a in so['args']]
                c.call((self, other), *vals)
                c.ensure('no-exception-m', 'raised is None')
        c.ensure('three-packets', 'len(sent("cf.send_packet")) == 3')
        if _n_sent(c) == 3:
            for i, s in ((0, 'a'), (2, 'b')):
                c.snapshot('pk' + s, 'sent("cf.send_packet")[%d][1][0]' % i)
                c.ensure('port-channel-header-' + s, 'pk%s.port == 7 and pk%s.channel == 0 and pk%s.header == 0x7C' % (s, s, s))
                c.ensure('layout-' + s, 'bytes(pk%s.data) == %s' % (s, lay[s]))
                c.ensure('at-most-30-bytes-' + s, 'len(pk%s.data) <= 30' % s)
            _check_step(c, so, '_m', 1)
    return k


_full_state_history('send_notify_setpoint_stop', True)
_full_state_history('send_notify_setpoint_stop', False, second_concrete=True)
