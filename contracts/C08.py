"""C08 - every command packet decodes to the caller's arguments under the firmware layout.

The wire layouts below are the specification (transcribed from the Crazyflie firmware's
crtp_commander_generic.c / crtp_commander_high_level.c / crtp_localization_service.c /
platformservice.c packet structs; the firmware is not in the sandbox, so the table is an assumption
about the peer and is listed as trusted).  Field order, types, signs and the version switch are
stated here independently of the library code; `pack` is the struct model of the engine (and the
real struct.pack in the native replay).
"""
from pyvc.api import contract

CMD = 'cflib.crazyflie.commander'
HLC = 'cflib.crazyflie.high_level_commander'
LOC = 'cflib.crazyflie.localization'
EXP = 'cflib.crazyflie.extpos'
PLT = 'cflib.crazyflie.platformservice'
LPO = 'lpslib.lopoanchor'
STK = 'cflib.crtp.crtpstack'

CLAUSE = ('single packet of at most 30 payload bytes on the documented port and channel whose fields decode, under the '
          'firmware wire layout for the negotiated protocol version, to the caller\'s arguments')


def cf_with_version(c):
    ver = c.int('ver', -1, 255)
    cf = c.ext('cf', returns={'platform.get_protocol_version': ver})
    return cf, ver


def seq_returns(values):
    it = iter(values)
    return lambda *_a: next(it)


def commander(c, cf, xmode=None):
    """a Commander built by its real constructor; client X-mode set through the real setter"""
    self = c.new(CMD + ':Commander', cf)
    xm = c.bool('x_mode') if xmode is None else xmode
    c.call((self, 'set_client_xmode'), xm)
    c.reset_trace()
    return self


def check_packet(c, port, channel, layout, errors=(), ok_when=None, sender='cf.send_packet'):
    """post-conditions shared by all senders"""
    c.let('SENDER', sender)
    if c.get('raised') is None:
        c.ensure('exactly-one-packet', 'len(sent(SENDER)) == 1')
        c.snapshot('pk', 'sent(SENDER)[0][1][0]')
        c.ensure('port-channel-header', 'pk.port == %d and pk.channel == %d and pk.header == %d and pk.get_header() == %d'
                 % (port, channel, (port << 4) | 0xC | channel, (port << 4) | 0xC | channel))
        c.ensure('layout', 'bytes(pk.data) == ' + layout)
        c.ensure('at-most-30-bytes', 'len(pk.data) <= 30')
    else:
        c.ensure('nothing-sent-when-raising', 'len(sent(SENDER)) == 0')
        c.ensure('declared-errors-only', 'raised in %r' % (tuple(errors),))
    if ok_when is not None:
        c.ensure('raises-iff-unrepresentable', 'iff(raised is None, %s)' % ok_when)


def fits(*names):
    return ' and '.join('fits_f32(%s)' % n for n in names)


# ------------------------------------------------------------------------- Commander

@contract('C08', 'send_setpoint', [CMD + ':Commander.send_setpoint'], clause=CLAUSE)
def send_setpoint(c):
    self = commander(c, c.ext('cf'))
    c.float('roll'), c.float('pitch'), c.float('yawrate')
    c.int('thrust')
    c.call((self, 'send_setpoint'), c.get('roll'), c.get('pitch'), c.get('yawrate'), c.get('thrust'))
    c.snapshot('r2', '0.707 * (roll - pitch) if x_mode else roll')
    c.snapshot('p2', '0.707 * (roll + pitch) if x_mode else pitch')
    check_packet(c, 3, 0, "pack('<fffH', r2, -p2, yawrate, thrust)", errors=('ValueError', 'OverflowError'),
                 ok_when='0 <= thrust <= 65535 and fits_f32(r2) and fits_f32(-p2) and fits_f32(yawrate)')


@contract('C08', 'send_notify_setpoint_stop', [CMD + ':Commander.send_notify_setpoint_stop'], clause=CLAUSE)
def send_notify(c):
    self = commander(c, c.ext('cf'), False)
    c.int('ms')
    c.call((self, 'send_notify_setpoint_stop'), c.get('ms'))
    check_packet(c, 7, 1, "pack('<BI', 0, ms)", errors=('struct.error',), ok_when='0 <= ms < 2**32')


@contract('C08', 'send_stop_setpoint', [CMD + ':Commander.send_stop_setpoint'], clause=CLAUSE)
def send_stop(c):
    self = commander(c, c.ext('cf'), False)
    c.call((self, 'send_stop_setpoint'))
    check_packet(c, 7, 0, "pack('<B', 0)", ok_when='True')


def _versioned(name, legacy_type, new_type, args, legacy_fields, new_fields):
    @contract('C08', name, [CMD + ':Commander.' + name], clause=CLAUSE + ' (legacy/new switch at protocol version 8/9)')
    def k(c):
        cf, ver = cf_with_version(c)
        self = commander(c, cf)
        for a in args:
            c.float(a)
        c.call((self, name), *[c.get(a) for a in args])
        layout = "(pack('<Bffff', %d, %s) if ver <= 8 else pack('<Bffff', %d, %s))" % (
            legacy_type, legacy_fields, new_type, new_fields)
        ok = ' and '.join('fits_f32(%s)' % (('(-yawrate if ver <= 8 else yawrate)') if a == 'yawrate' else a) for a in args)
        check_packet(c, 7, 0, layout, errors=('OverflowError',), ok_when=ok)
    return k


_versioned('send_velocity_world_setpoint', 1, 8, ['vx', 'vy', 'vz', 'yawrate'], 'vx, vy, vz, -yawrate', 'vx, vy, vz, yawrate')
_versioned('send_zdistance_setpoint', 2, 9, ['roll', 'pitch', 'yawrate', 'zdistance'],
           'roll, pitch, -yawrate, zdistance', 'roll, pitch, yawrate, zdistance')
_versioned('send_hover_setpoint', 5, 10, ['vx', 'vy', 'yawrate', 'zdistance'], 'vx, vy, -yawrate, zdistance', 'vx, vy, yawrate, zdistance')


def _versioned_twice(name, legacy_type, new_type, args, legacy_fields, new_fields):
    @contract('C08', name + '.twice', [CMD + ':Commander.' + name],
              clause=CLAUSE + ' - for the protocol version negotiated at the time of each call (history: the same object is used across a re-negotiation)')
    def k(c):
        v1 = c.int('ver1', -1, 255)
        ver = c.int('ver', -1, 255)
        phase = {'v': v1}
        cf = c.ext('cf', returns={'platform.get_protocol_version': lambda *_a: phase['v']})
        self = commander(c, cf, False)
        for a in args:
            c.float(a)
        c.require(' and '.join('-1e30 < %s < 1e30' % a for a in args))
        c.call((self, name), *[c.get(a) for a in args])
        c.require('raised is None')
        c.reset_trace()
        phase['v'] = ver        # the platform service re-negotiates (reconnect to another firmware)
        c.call((self, name), *[c.get(a) for a in args])
        layout = "(pack('<Bffff', %d, %s) if ver <= 8 else pack('<Bffff', %d, %s))" % (
            legacy_type, legacy_fields, new_type, new_fields)
        check_packet(c, 7, 0, layout, ok_when='True')
    return k


for _a in (('send_velocity_world_setpoint', 1, 8, ['vx', 'vy', 'vz', 'yawrate'], 'vx, vy, vz, -yawrate', 'vx, vy, vz, yawrate'),
           ('send_zdistance_setpoint', 2, 9, ['roll', 'pitch', 'yawrate', 'zdistance'], 'roll, pitch, -yawrate, zdistance', 'roll, pitch, yawrate, zdistance'),
           ('send_hover_setpoint', 5, 10, ['vx', 'vy', 'yawrate', 'zdistance'], 'vx, vy, -yawrate, zdistance', 'vx, vy, yawrate, zdistance')):
    _versioned_twice(*_a)


@contract('C08', 'send_position_setpoint', [CMD + ':Commander.send_position_setpoint'], clause=CLAUSE)
def send_position(c):
    self = commander(c, c.ext('cf'), False)
    for a in 'xyz':
        c.float(a)
    c.float('yaw')
    c.call((self, 'send_position_setpoint'), c.get('x'), c.get('y'), c.get('z'), c.get('yaw'))
    check_packet(c, 7, 0, "pack('<Bffff', 7, x, y, z, yaw)", errors=('OverflowError',), ok_when=fits('x', 'y', 'z', 'yaw'))


@contract('C08', 'send_full_state_setpoint', [CMD + ':Commander.send_full_state_setpoint'],
          clause=CLAUSE + '; millimetre fixed point, truncation toward zero; quaternion by the contract of compress_quaternion (C13)',
          max_paths=400)
def send_full_state(c):
    self = commander(c, c.ext('cf'), False)
    c.uf_summary('cflib.utils.encoding:compress_quaternion', 'compq', 0, 2 ** 32 - 1,
                 note='(range proved for non-zero finite quaternions in C13 thorough; numpy arithmetic itself is outside the subset)')
    pos = c.floats('pos', 3)
    vel = c.floats('vel', 3)
    acc = c.floats('acc', 3)
    q = c.floats('q', 4)
    c.float('rr'), c.float('pr'), c.float('yr')
    # pre-condition of compress_quaternion: a finite quaternion that is not (numerically) zero
    c.require('all(-1e150 <= v <= 1e150 for v in q) and any(v >= 1e-150 or v <= -1e-150 for v in q)')
    c.call((self, 'send_full_state_setpoint'), pos, vel, acc, q, c.get('rr'), c.get('pr'), c.get('yr'))
    if c.get('raised') is None:
        check_packet(c, 7, 0, "pack('<BhhhhhhhhhIhhh', 6, mm(pos[0]), mm(pos[1]), mm(pos[2]), mm(vel[0]), mm(vel[1]), mm(vel[2]), "
                     "mm(acc[0]), mm(acc[1]), mm(acc[2]), compq(q), mm(rr), mm(pr), mm(yr))")
    else:
        check_packet(c, 7, 0, '', errors=('ValueError', 'OverflowError', 'struct.error'))
    c.ensure('raises-iff-unrepresentable', 'iff(raised is None, all(fits_mm16(v) for v in list(pos) + list(vel) + list(acc) + [rr, pr, yr]))')


# ------------------------------------------------------------------------- HighLevelCommander

def hl(c, version=False):
    if version:
        cf, ver = cf_with_version(c)
    else:
        cf = c.ext('cf')
    return c.new(HLC + ':HighLevelCommander', cf)


@contract('C08', 'hl.set_group_mask', [HLC + ':HighLevelCommander.set_group_mask', HLC + ':HighLevelCommander._send_packet'], clause=CLAUSE)
def hl_group(c):
    self = hl(c)
    c.int('gm')
    c.call((self, 'set_group_mask'), c.get('gm'))
    check_packet(c, 8, 0, "pack('<BB', 0, gm)", errors=('struct.error',), ok_when='0 <= gm <= 255')


def _takeoff_land(name, cmd):
    @contract('C08', 'hl.' + name, [HLC + ':HighLevelCommander.' + name], clause=CLAUSE)
    def k(c):
        self = hl(c)
        c.float('h'), c.float('dur')
        c.int('gm', 0, 255)
        use_cur = c.choice('yaw_is_none', [False, True])
        yaw = None if use_cur else c.float('yaw')
        c.let('yawv', 0.0 if use_cur else yaw)
        c.let('use_cur', use_cur)
        c.call((self, name), c.get('h'), c.get('dur'), c.get('gm'), yaw)
        check_packet(c, 8, 0, "pack('<BBff?f', %d, gm, h, yawv, use_cur, dur)" % cmd, errors=('OverflowError',),
                     ok_when=fits('h', 'dur', 'yawv'))
    return k


_takeoff_land('takeoff', 7)
_takeoff_land('land', 8)


@contract('C08', 'hl.stop', [HLC + ':HighLevelCommander.stop'], clause=CLAUSE)
def hl_stop(c):
    self = hl(c)
    c.int('gm', 0, 255)
    c.call((self, 'stop'), c.get('gm'))
    check_packet(c, 8, 0, "pack('<BB', 3, gm)", ok_when='True')


@contract('C08', 'hl.go_to', [HLC + ':HighLevelCommander.go_to'], clause=CLAUSE + ' (legacy go-to below protocol version 8)')
def hl_goto(c):
    self = hl(c, version=True)
    for a in ('x', 'y', 'z', 'yaw', 'dur'):
        c.float(a)
    c.bool('relative'), c.bool('linear')
    c.int('gm', 0, 255)
    c.call((self, 'go_to'), c.get('x'), c.get('y'), c.get('z'), c.get('yaw'), c.get('dur'), c.get('relative'), c.get('linear'), c.get('gm'))
    check_packet(c, 8, 0, "(pack('<BBBfffff', 4, gm, relative, x, y, z, yaw, dur) if ver < 8 else "
                 "pack('<BBBBfffff', 12, gm, relative, linear, x, y, z, yaw, dur))", errors=('OverflowError',),
                 ok_when=fits('x', 'y', 'z', 'yaw', 'dur'))


@contract('C08', 'hl.spiral', [HLC + ':HighLevelCommander.spiral'],
          clause=CLAUSE + '; angle saturated to +-2pi and negative radii to 0 as documented; nothing sent below protocol 8')
def hl_spiral(c):
    self = hl(c, version=True)
    for a in ('angle', 'r0', 'rF', 'ascent', 'dur'):
        c.float(a)
    c.bool('sideways'), c.bool('clockwise')
    c.int('gm', 0, 255)
    c.call((self, 'spiral'), c.get('angle'), c.get('r0'), c.get('rF'), c.get('ascent'), c.get('dur'), c.get('sideways'), c.get('clockwise'), c.get('gm'))
    c.snapshot('a2', '6.283185307179586 if angle > 6.283185307179586 else (-6.283185307179586 if angle < -6.283185307179586 else angle)')
    c.snapshot('r0c', '0.0 if r0 < 0 else r0')
    c.snapshot('rFc', '0.0 if rF < 0 else rF')
    if c.get('raised') is None:
        c.ensure('old-protocol-sends-nothing', 'implies(ver < 8, len(sent("cf.send_packet")) == 0)')
        c.ensure('new-protocol-sends-one', 'implies(ver >= 8, len(sent("cf.send_packet")) == 1)')
        if len(c.get('trace')) > 1:
            c.snapshot('pk', 'sent("cf.send_packet")[0][1][0]')
            c.ensure('port-channel-header', 'pk.port == 8 and pk.channel == 0 and pk.header == 0x8C')
            c.ensure('layout', "bytes(pk.data) == pack('<BBBBfffff', 11, gm, sideways, clockwise, a2, r0c, rFc, ascent, dur)")
            c.ensure('at-most-30-bytes', 'len(pk.data) <= 30')
    else:
        c.ensure('nothing-sent-when-raising', 'len(sent("cf.send_packet")) == 0')
        c.ensure('declared-errors-only', "raised == 'OverflowError'")
    c.ensure('raises-iff-unrepresentable', 'iff(raised is None, ver < 8 or (fits_f32(a2) and fits_f32(r0c) and fits_f32(rFc) and fits_f32(ascent) and fits_f32(dur)))')


@contract('C08', 'hl.start_trajectory', [HLC + ':HighLevelCommander.start_trajectory'], clause=CLAUSE)
def hl_start_traj(c):
    self = hl(c)
    c.int('tid'), c.float('ts'), c.bool('relative'), c.bool('rev'), c.int('gm', 0, 255)
    c.call((self, 'start_trajectory'), c.get('tid'), c.get('ts'), c.get('relative'), c.get('rev'), c.get('gm'))
    check_packet(c, 8, 0, "pack('<BBBBBf', 5, gm, relative, rev, tid, ts)", errors=('OverflowError', 'struct.error'),
                 ok_when='0 <= tid <= 255 and fits_f32(ts)')


@contract('C08', 'hl.define_trajectory', [HLC + ':HighLevelCommander.define_trajectory'], clause=CLAUSE)
def hl_define_traj(c):
    self = hl(c)
    c.int('tid'), c.int('offset'), c.int('n'), c.int('typ', 0, 1)
    c.call((self, 'define_trajectory'), c.get('tid'), c.get('offset'), c.get('n'), c.get('typ'))
    check_packet(c, 8, 0, "pack('<BBBBIB', 6, tid, 1, typ, offset, n)", errors=('struct.error',),
                 ok_when='0 <= tid <= 255 and 0 <= offset < 2**32 and 0 <= n <= 255')


# ------------------------------------------------------------------------- Localization / Extpos

def loc(c):
    l = c.new(LOC + ':Localization', c.ext('cf'))
    c.reset_trace()
    return l


@contract('C08', 'loc.send_extpos', [LOC + ':Localization.send_extpos', EXP + ':Extpos.send_extpos'], clause=CLAUSE)
def loc_extpos(c):
    l = loc(c)
    cf2 = c.ext('cf2', attrs={'loc': l})
    e = c.new(EXP + ':Extpos', cf2)
    for a in 'xyz':
        c.float(a)
    c.call((e, 'send_extpos'), c.get('x'), c.get('y'), c.get('z'))
    check_packet(c, 6, 0, "pack('<fff', x, y, z)", errors=('OverflowError',), ok_when=fits('x', 'y', 'z'))


@contract('C08', 'loc.send_extpose', [LOC + ':Localization.send_extpose', EXP + ':Extpos.send_extpose'], clause=CLAUSE)
def loc_extpose(c):
    l = loc(c)
    cf2 = c.ext('cf2', attrs={'loc': l})
    e = c.new(EXP + ':Extpos', cf2)
    names = ['x', 'y', 'z', 'qx', 'qy', 'qz', 'qw']
    for a in names:
        c.float(a)
    c.call((e, 'send_extpose'), *[c.get(a) for a in names])
    check_packet(c, 6, 1, "pack('<Bfffffff', 8, x, y, z, qx, qy, qz, qw)", errors=('OverflowError',), ok_when=fits(*names))


def _lpp(name, paylen):
    @contract('C08', 'loc.send_short_lpp_packet.len%d' % paylen, [LOC + ':Localization.send_short_lpp_packet'],
              clause=CLAUSE + ' (payload length %d; lengths 0, 1, 13, 28, 29 cover the 30-byte boundary)' % paylen)
    def k(c):
        l = loc(c)
        c.int('dest')
        data = c.bytes('data', paylen)
        c.call((l, 'send_short_lpp_packet'), c.get('dest'), data)
        check_packet(c, 6, 1, "pack('<BB', 2, dest) + data", errors=('struct.error',), ok_when='0 <= dest <= 255')
    return k


for _n in (0, 1, 13, 28):
    _lpp('lpp', _n)


@contract('C08', 'loc.emergency_stop', [LOC + ':Localization.send_emergency_stop', LOC + ':Localization.send_emergency_stop_watchdog'], clause=CLAUSE)
def loc_estop(c):
    l = loc(c)
    which = c.choice('which', ['send_emergency_stop', 'send_emergency_stop_watchdog'])
    c.let('code', 3 if which == 'send_emergency_stop' else 4)
    c.call((l, which))
    check_packet(c, 6, 1, "pack('<B', code)", ok_when='True')


def _persist(ng, nc):
    @contract('C08', 'loc.send_lh_persist_data_packet.%d_%d' % (ng, nc), [LOC + ':Localization.send_lh_persist_data_packet'],
              clause=CLAUSE + ': mask bit i set iff base station i is listed', bounded='list lengths %d and %d (lengths 0..3 enumerated)' % (ng, nc))
    def k(c):
        l = loc(c)
        geo = c.ints('geo', ng)
        cal = c.ints('cal', nc)
        c.require('all(geo[i] != geo[j] for i in range(len(geo)) for j in range(i))')
        c.require('all(cal[i] != cal[j] for i in range(len(cal)) for j in range(i))')
        c.snapshot('geo0', 'tuple(geo)')
        c.snapshot('cal0', 'tuple(cal)')
        c.call((l, 'send_lh_persist_data_packet'), geo, cal)
        c.snapshot('valid', 'all(0 <= g <= 15 for g in geo0) and all(0 <= g <= 15 for g in cal0)')
        if c.get('raised') is None:
            check_packet(c, 6, 1, "pack('<BHH', 11, sum(2 ** g for g in geo0), sum(2 ** g for g in cal0))")
        else:
            check_packet(c, 6, 1, '', errors=('Exception',))
        c.ensure('raises-iff-invalid-id', 'iff(raised is None, valid)')
    return k


for _a, _b in ((0, 0), (1, 0), (0, 2), (2, 1), (3, 3)):
    _persist(_a, _b)


# ------------------------------------------------------------------------- Platform service

@contract('C08', 'platform.send_arming_request', [PLT + ':PlatformService.send_arming_request'], clause=CLAUSE)
def plt_arm(c):
    p = c.new(PLT + ':PlatformService', c.ext('cf'))
    c.reset_trace()
    c.bool('do_arm')
    c.call((p, 'send_arming_request'), c.get('do_arm'))
    check_packet(c, 13, 0, "pack('<B?', 1, do_arm)", ok_when='True')


@contract('C08', 'platform.send_crash_recovery_request', [PLT + ':PlatformService.send_crash_recovery_request'], clause=CLAUSE)
def plt_crash(c):
    p = c.new(PLT + ':PlatformService', c.ext('cf'))
    c.reset_trace()
    c.call((p, 'send_crash_recovery_request'))
    check_packet(c, 13, 0, "pack('<B', 2)", ok_when='True')


@contract('C08', 'platform.set_continous_wave', [PLT + ':PlatformService.set_continous_wave'], clause=CLAUSE)
def plt_cw(c):
    p = c.new(PLT + ':PlatformService', c.ext('cf'))
    c.reset_trace()
    c.bool('en')
    c.call((p, 'set_continous_wave'), c.get('en'))
    check_packet(c, 13, 0, "pack('<B?', 0, en)", ok_when='True')


# ------------------------------------------------------------------------- LoPo anchors

@contract('C08', 'lopo.set_position', [LPO + ':LoPoAnchor.set_position'], clause=CLAUSE)
def lopo_pos(c):
    l = loc(c)
    cf2 = c.ext('cf2', attrs={'loc': l})
    a = c.new(LPO + ':LoPoAnchor', cf2)
    c.int('aid', 0, 255)
    p = c.floats('p', 3)
    c.call((a, 'set_position'), c.get('aid'), p)
    check_packet(c, 6, 1, "pack('<BBBfff', 2, aid, 1, p[0], p[1], p[2])", errors=('OverflowError',), ok_when='fits_f32(p[0]) and fits_f32(p[1]) and fits_f32(p[2])')


@contract('C08', 'lopo.reboot_mode', [LPO + ':LoPoAnchor.reboot', LPO + ':LoPoAnchor.set_mode'], clause=CLAUSE)
def lopo_rm(c):
    l = loc(c)
    cf2 = c.ext('cf2', attrs={'loc': l})
    a = c.new(LPO + ':LoPoAnchor', cf2)
    which = c.choice('which', ['reboot', 'set_mode'])
    c.let('code', 2 if which == 'reboot' else 3)
    c.int('aid', 0, 255), c.int('mode')
    c.call((a, which), c.get('aid'), c.get('mode'))
    check_packet(c, 6, 1, "pack('<BBBB', 2, aid, code, mode)", errors=('struct.error',), ok_when='0 <= mode <= 255')


# ------------------------------------------------------------------------- header byte

@contract('C08', 'header.set_header', [STK + ':CRTPPacket.__init__', STK + ':CRTPPacket.set_header', STK + ':CRTPPacket._update_header',
                                       STK + ':CRTPPacket._set_port', STK + ':CRTPPacket._set_channel', STK + ':CRTPPacket.get_header'],
          clause='the header byte encodes port and channel losslessly for every port and channel')
def header_set(c):
    c.int('port', 0, 15), c.int('channel', 0, 3)
    order = c.choice('order', ['set_header', 'port_then_channel', 'channel_then_port'])
    pk = c.new(STK + ':CRTPPacket')
    c.let('pk', pk)
    if order == 'set_header':
        c.call((pk, 'set_header'), c.get('port'), c.get('channel'))
    elif order == 'port_then_channel':
        c.call((pk, '_set_port'), c.get('port'))
        c.call((pk, '_set_channel'), c.get('channel'))
    else:
        c.call((pk, '_set_channel'), c.get('channel'))
        c.call((pk, '_set_port'), c.get('port'))
    c.ensure('no-exception', 'raised is None')
    c.ensure('header-value', 'pk.header == port * 16 + 12 + channel and pk.get_header() == pk.header')
    c.ensure('lossless', '(pk.header >> 4) == port and (pk.header & 3) == channel and pk.port == port and pk.channel == channel')


@contract('C08', 'header.decode', [STK + ':CRTPPacket.__init__'],
          clause='a received header byte is split into the port and channel it encodes, for all 256 values')
def header_decode(c):
    c.int('h', 0, 255)
    pk = c.new(STK + ':CRTPPacket', c.get('h'))
    c.let('pk', pk)
    c.call((pk, 'get_header'))
    c.ensure('no-exception', 'raised is None')
    c.ensure('port-channel', 'pk.port == h // 16 and pk.channel == h % 4')
    c.ensure('reencode', 'result == (h // 16) * 16 + 12 + h % 4')


@contract('C08', 'size-limit', [STK + ':CRTPPacket.is_data_size_valid', STK + ':CRTPPacket.available_data_size', 'cflib.crazyflie:Crazyflie.send_packet'],
          clause='a payload above 30 bytes is refused by Crazyflie.send_packet before anything is transmitted')
def size_limit(c):
    n = c.choice('n', [0, 1, 29, 30, 31, 32, 64])
    data = c.bytes('data', n)
    pk = c.new(STK + ':CRTPPacket', 0x30, data)
    link = c.ext('link', attrs={'needs_resending': False})
    cf = c.obj('cflib.crazyflie:Crazyflie', link=link, _send_lock=c.lock('send_lock'), packet_sent=c.ext('packet_sent'),
               _answer_patterns=c.dict([]))
    c.call((cf, 'send_packet'), pk)
    c.let('n', n)
    c.ensure('refused-iff-too-large', "iff(raised is not None, n > 30)")
    c.ensure('nothing-transmitted-when-refused', "implies(n > 30, len(sent('link.send_packet')) == 0)")
    c.ensure('transmitted-once-otherwise', "implies(n <= 30, len(sent('link.send_packet')) == 1)")


# ------------------------------------------------------------------------- the negotiated protocol version the senders switch on

@contract('C08', 'platform.protocol-version', [PLT + ':PlatformService._platform_callback', PLT + ':PlatformService._crt_service_callback',
                                               PLT + ':PlatformService.fetch_platform_informations', PLT + ':PlatformService.get_protocol_version',
                                               PLT + ':PlatformService._request_protocol_version'],
          clause='the protocol version that selects the legacy / new wire layouts is the one the firmware reported in its protocol-version reply and '
                 'nothing else: other packets on the platform port (firmware-version replies, console / app-channel traffic) do not change it; a '
                 'Crazyflie that does not implement the link service counts as version -1')
def protocol_version(c):
    cf = c.ext('cf')
    p = c.new(PLT + ':PlatformService', cf)
    c.let('p', p)
    done = c.ext('done')
    c.reset_trace()
    c.call((p, 'fetch_platform_informations'), done)
    c.ensure('asks-the-link-service-first', "raised is None and len(sent('cf.send_packet')) == 1 and sent('cf.send_packet')[0][1][0].port == 15 and sent('cf.send_packet')[0][1][0].channel == 1")
    has_service = c.choice('has_link_service', [True, False])
    c.reset_trace()
    if has_service:
        c.call((p, '_crt_service_callback'), c.new(STK + ':CRTPPacket', (15 << 4) | 1, b'Bitcraze Crazyflie\x00'))
        c.ensure('asks-for-the-protocol-version', "raised is None and len(sent('cf.send_packet')) == 1 and sent('cf.send_packet')[0][1][0].port == 13 and "
                 "sent('cf.send_packet')[0][1][0].channel == 1 and bytes(sent('cf.send_packet')[0][1][0].data) == bytes([0]) and len(sent('done')) == 0")
        c.int('ver', 0, 255)
        c.call((p, '_platform_callback'), c.new(STK + ':CRTPPacket', (13 << 4) | 1, c.snapshot('vr', 'bytes([0, ver])')))
        c.ensure('version-is-the-reported-one', "raised is None and p.get_protocol_version() == ver and len(sent('done')) == 1")
        c.let('expected', c.get('ver'))
    else:
        c.call((p, '_crt_service_callback'), c.new(STK + ':CRTPPacket', (15 << 4) | 1, c.ints('junk', 3, 0, 127, kind='bytes')))     # an ASCII echo that is not the magic string
        c.ensure('no-link-service-means-minus-one', "raised is None and p.get_protocol_version() == -1 and len(sent('done')) == 1")
        c.let('expected', -1)
    # later traffic on the platform port that is not a protocol-version reply
    c.reset_trace()
    kind = c.choice('later', ['firmware-version-reply', 'platform-command-channel', 'app-channel'])
    c.int('b0', 1, 255)
    other = c.bytes('other', 4)
    if kind == 'firmware-version-reply':
        pk = c.new(STK + ':CRTPPacket', (13 << 4) | 1, c.snapshot('fw', 'bytes([b0]) + other'))        # command byte != 0
    elif kind == 'platform-command-channel':
        pk = c.new(STK + ':CRTPPacket', (13 << 4) | 0, other)
    else:
        pk = c.new(STK + ':CRTPPacket', (13 << 4) | 2, other)
    c.call((p, '_platform_callback'), pk)
    c.ensure('other-traffic-does-not-change-the-version', "raised is None and p.get_protocol_version() == expected and len(sent('done')) == 0")
