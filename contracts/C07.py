"""C07 - received packets reach exactly the matching callbacks, once, in order.

The dispatcher's service loop is endless; the contracts run the REAL `run()` for a scripted number of received packets:
the link stub hands out the packets and then raises the pseudo exception StopLoop (a BaseException, so the
`except Exception` around callbacks cannot swallow it).

Callback kinds: stubs (callable objects without __name__, like functools.partial) and bound methods of real objects (a fresh,
equal-but-not-identical method object per attribute access, as in CPython) - `remove.bound-method`, `caller.bound-methods`,
`dispatch.raising-callable-kinds`.  Exceptions: a list of Exception subclasses (EXCEPTIONS).

Thread interleavings are covered only as explicit schedules, i.e. another thread runs while the dispatcher thread is inside a
call that leaves the interpreted code: `dispatch.request-registered-during-answer-scan` (another thread's send_packet while the
dispatcher scans the answer patterns), `dispatch.other-thread-changes-registrations` (add / remove while the dispatcher waits in
receive_packet, runs the all-packet callbacks or logs a raising callback), `dispatch.idle-polls-and-link-change` (link closed and
re-opened while the dispatcher waits / sleeps).
NOT covered: pre-emption of the dispatcher between two statements without a call in between - in particular another thread's
remove_port_callback while the dispatcher evaluates the list comprehension that selects the matching callbacks (CPython list
iteration can then skip the registration that follows the removed one), and two threads inside remove_header_callback.
Bounded: at most three registrations and three packets per contract (the registration list and the packet stream have no
representation of symbolic length in the engine); duplicate (equal) registrations are outside the property's quantifier.
Assumed: callbacks raise only Exception subclasses; packet_received callbacks (outside the try) do not raise;
Thread.is_alive() is True after start() (`lifecycle.*`).
"""
from pyvc.api import contract

CF = 'cflib.crazyflie'
STK = 'cflib.crtp.crtpstack'
CB = 'cflib.utils.callbacks'
RUN = [CF + ':_IncomingPacketHandler.run']


def handler_with_packets(c, packets):
    """real _IncomingPacketHandler whose link returns `packets` one by one and then stops the loop"""
    queue = list(packets)
    stop = c.raiser('StopLoop')

    def rx(*_a):
        if queue:
            return queue.pop(0)
        return stop()
    link = c.ext('link', returns={'receive_packet': rx})
    cf = c.ext('cf', attrs={'link': link})
    h = c.new(CF + ':_IncomingPacketHandler', cf)
    c.reset_trace()
    return h, cf


@contract('C07', 'dispatch.match', RUN + [CF + ':_IncomingPacketHandler.add_header_callback'],
          clause='a packet is passed to a registered callback iff port == header_port & port_mask and channel == header_channel & '
                 'channel_mask, for all 256 header bytes and all registrations; exactly once')
def dispatch_match(c):
    c.int('h', 0, 255)
    c.int('port', 0, 255), c.int('pm', 0, 255), c.int('ch', 0, 255), c.int('cm', 0, 255)
    pk = c.new(STK + ':CRTPPacket', c.get('h'), c.bytes('data', 2))
    h, cf = handler_with_packets(c, [pk])
    cb = c.ext('cb')
    c.call((h, 'add_header_callback'), cb, c.get('port'), c.get('ch'), c.get('pm'), c.get('cm'))
    c.reset_trace()
    c.let('pk', pk)
    c.call((h, 'run'))
    c.ensure('loop-survives', "raised == 'StopLoop'")
    c.ensure('all-packet-callbacks-first', "calls()[0] == 'link.receive_packet' and calls()[1] == 'cf.packet_received.call'")
    c.ensure('called-iff-match', "iff(len(sent('cb')) == 1, port == ((h >> 4) & pm) and ch == ((h & 3) & cm))")
    c.ensure('at-most-once', "len(sent('cb')) <= 1")
    c.ensure('same-packet', "implies(len(sent('cb')) == 1, is_same(sent('cb')[0][1][0], pk))")


@contract('C07', 'dispatch.port-callback', RUN + [CF + ':_IncomingPacketHandler.add_port_callback'],
          clause='a port callback receives every packet of its port whatever the channel, and no packet of another port')
def dispatch_port(c):
    c.int('h', 0, 255)
    c.int('port', 0, 15)
    pk = c.new(STK + ':CRTPPacket', c.get('h'), c.bytes('data', 1))
    h, cf = handler_with_packets(c, [pk])
    cb = c.ext('cb')
    c.call((h, 'add_port_callback'), c.get('port'), cb)
    c.reset_trace()
    c.call((h, 'run'))
    c.ensure('loop-survives', "raised == 'StopLoop'")
    c.ensure('called-iff-port', "iff(len(sent('cb')) == 1, port == h >> 4)")
    c.ensure('at-most-once', "len(sent('cb')) <= 1")


ACTIONS = ['none', 'remove_self', 'remove_next', 'remove_prev', 'add_new', 'raise',
           # sequences of operations inside one callback (extension round)
           'remove_self_then_raise', 'add_new_then_raise', 'reregister_self', 'remove_both_others']


def _snapshot(n_packets):
    @contract('C07', 'dispatch.snapshot.%dpk' % n_packets, RUN + [CF + ':_IncomingPacketHandler.remove_port_callback',
                                                                 CF + ':_IncomingPacketHandler.remove_header_callback'],
              clause='every callback registered when dispatch of a packet starts is invoked exactly once, in registration order, '
                     'even when callbacks unregister themselves / others, register new ones or raise while that packet is dispatched; '
                     'later packets go to the then-current registrations',
              bounded='three registrations on one port, one action (a sequence of up to two operations) per callback out of %s (all %d combinations)' % (ACTIONS, len(ACTIONS) ** 3))
    def k(c):
        port = 9
        pks = [c.new(STK + ':CRTPPacket', (port << 4) | 1, c.bytes('d%d' % i, 1)) for i in range(n_packets)]
        h, cf = handler_with_packets(c, pks)
        acts = [c.choice('act%d' % i, ACTIONS) for i in range(3)]
        cbs = []
        new_cb = c.ext('cbnew')
        fired = set()

        def make(i):
            def effect(*_a):
                if i in fired:          # the scripted action happens on the first delivery only
                    return None
                fired.add(i)
                a = acts[i]
                if a in ('remove_self', 'remove_self_then_raise', 'reregister_self'):
                    c.invoke((h, 'remove_port_callback'), port, cbs[i])
                    if a == 'reregister_self':      # the same registration again: it is the youngest one now
                        c.invoke((h, 'add_port_callback'), port, cbs[i])
                elif a == 'remove_next' and i + 1 < 3:
                    c.invoke((h, 'remove_port_callback'), port, cbs[i + 1])
                elif a == 'remove_prev' and i > 0:
                    c.invoke((h, 'remove_port_callback'), port, cbs[i - 1])
                elif a == 'remove_both_others':
                    for o in range(3):
                        if o != i:
                            c.invoke((h, 'remove_port_callback'), port, cbs[o])
                elif a in ('add_new', 'add_new_then_raise'):
                    c.invoke((h, 'add_port_callback'), port, new_cb)
                if a in ('raise', 'remove_self_then_raise', 'add_new_then_raise'):
                    c.raiser('ValueError', 'callback failed')()
                return None
            return effect
        for i in range(3):
            cbs.append(c.ext('cb%d' % i, returns={'()': make(i)}))
        for i in range(3):
            c.invoke((h, 'add_port_callback'), port, cbs[i])
        c.reset_trace()
        c.call((h, 'run'))
        c.ensure('loop-survives-raising-callbacks', "raised == 'StopLoop'")
        # expected deliveries, from the property: snapshot per packet
        regs = [0, 1, 2]
        expected = []
        done = set()
        for _p in range(n_packets):
            snap = list(regs)
            for r in snap:
                expected.append('cbnew' if r == 'new' else 'cb%d' % r)
                if r == 'new' or r in done:
                    continue
                done.add(r)
                a = acts[r]
                if a in ('remove_self', 'remove_self_then_raise', 'reregister_self'):
                    if r in regs:
                        regs.remove(r)
                    if a == 'reregister_self':
                        regs.append(r)
                elif a == 'remove_next' and r + 1 < 3 and (r + 1) in regs:
                    regs.remove(r + 1)
                elif a == 'remove_prev' and r > 0 and (r - 1) in regs:
                    regs.remove(r - 1)
                elif a == 'remove_both_others':
                    for o in range(3):
                        if o != r and o in regs:
                            regs.remove(o)
                elif a in ('add_new', 'add_new_then_raise'):
                    regs.append('new')
        c.let('expected', tuple(expected))
        c.ensure('snapshot-delivery-order', "tuple(n for n in calls() if n.startswith('cb')) == expected")
    return k


_snapshot(1)
_snapshot(2)


@contract('C07', 'remove_header_callback', [CF + ':_IncomingPacketHandler.remove_header_callback'],
          clause='removing a registration stops deliveries for that registration only: exactly the equal registration leaves the '
                 'list, the others keep their order',
          bounded='three pairwise distinct registrations with symbolic fields')
def remove_header(c):
    cf = c.ext('cf')
    h = c.new(CF + ':_IncomingPacketHandler', cf)
    cbs = [c.ext('cbA'), c.ext('cbB')]
    regs = []
    for i in range(3):
        which = c.choice('cb_of_%d' % i, [0, 1])
        f = [c.int('p%d' % i, 0, 255), c.int('pm%d' % i, 0, 255), c.int('c%d' % i, 0, 255), c.int('cm%d' % i, 0, 255)]
        regs.append((which, f))
        c.invoke((h, 'add_header_callback'), cbs[which], f[0], f[2], f[1], f[3])
    # pairwise distinct registrations (the property quantifies over sets of distinct registrations)
    for i in range(3):
        for j in range(i):
            if regs[i][0] == regs[j][0]:
                c.require('not (p%d == p%d and pm%d == pm%d and c%d == c%d and cm%d == cm%d)' % (i, j, i, j, i, j, i, j))
    victim = c.choice('victim', [0, 1, 2])
    c.let('h', h)
    c.snapshot('before', 'tuple(h.cb)')
    w, f = regs[victim]
    c.call((h, 'remove_header_callback'), cbs[w], f[0], f[2], f[1], f[3])
    c.ensure('no-exception', 'raised is None')
    c.let('rest', tuple(i for i in range(3) if i != victim))
    c.ensure('exactly-that-one-removed', 'len(h.cb) == 2 and all(is_same(h.cb[k], before[rest[k]]) for k in range(2))')


@contract('C07', 'caller.snapshot', [CB + ':Caller.call', CB + ':Caller.add_callback', CB + ':Caller.remove_callback'],
          clause='Caller.call invokes the callbacks registered at the time of the call, once each in order, also when a callback '
                 'removes itself or another one during the call; add_callback never duplicates',
          bounded='three callbacks, one action per callback')
def caller_snapshot(c):
    caller = c.new(CB + ':Caller')
    acts = [c.choice('act%d' % i, ['none', 'remove_self', 'remove_next', 'add_new']) for i in range(3)]
    cbs = []
    new_cb = c.ext('cbnew')

    def make(i):
        def effect(*_a):
            a = acts[i]
            if a == 'remove_self' and cbs[i] in _registered:
                _registered.remove(cbs[i])
                c.invoke((caller, 'remove_callback'), cbs[i])
            elif a == 'remove_next' and i + 1 < 3 and cbs[i + 1] in _registered:
                _registered.remove(cbs[i + 1])
                c.invoke((caller, 'remove_callback'), cbs[i + 1])
            elif a == 'add_new':
                c.invoke((caller, 'add_callback'), new_cb)
            return None
        return effect
    for i in range(3):
        cbs.append(c.ext('cb%d' % i, returns={'()': make(i)}))
    _registered = list(cbs)
    for i in range(3):
        c.invoke((caller, 'add_callback'), cbs[i])
    c.invoke((caller, 'add_callback'), cbs[1])     # duplicate registration is ignored
    c.let('caller', caller)
    c.ensure('no-duplicates', 'len(caller.callbacks) == 3', cls='P')
    c.int('x')
    c.call((caller, 'call'), c.get('x'), 7)
    c.ensure('no-exception', 'raised is None')
    c.ensure('each-once-in-order', "tuple(n for n in calls('cb')) == ('cb0', 'cb1', 'cb2')")
    c.ensure('arguments-passed', "all(e[1] == (x, 7) for e in trace if e[0].startswith('cb'))")


@contract('C07', 'crazyflie-api.registration', [CF + ':Crazyflie.add_header_callback', CF + ':Crazyflie.remove_header_callback', CF + ':Crazyflie.add_port_callback',
                                                CF + ':Crazyflie.remove_port_callback', CF + ':_IncomingPacketHandler.add_port_callback'],
          clause='registrations made through the Crazyflie object carry exactly the given port / port mask / channel / channel mask / callback, and '
                 'removing with the same arguments removes exactly that registration (deliveries stop for that registration only)')
def api_registration(c):
    cf = c.new(CF + ':Crazyflie')
    c.let('cf', cf)
    n0 = c.concretize('len(cf.incoming.cb)')
    c.int('port', 0, 255), c.int('pm', 0, 255), c.int('ch', 0, 255), c.int('cm', 0, 255), c.int('port2', 0, 15)
    cb, cb2 = c.ext('cb'), c.ext('cb2')
    use_defaults = c.choice('default_masks', [False, True])
    if use_defaults:
        c.call((cf, 'add_header_callback'), cb, c.get('port'), c.get('ch'))
        c.let('epm', 0xFF), c.let('ecm', 0xFF)
    else:
        c.call((cf, 'add_header_callback'), cb, c.get('port'), c.get('ch'), c.get('pm'), c.get('cm'))
        c.let('epm', c.get('pm')), c.let('ecm', c.get('cm'))
    c.ensure('header-registration-stored-as-given', 'raised is None and len(cf.incoming.cb) == %d and tuple(cf.incoming.cb[-1]) == (port, epm, ch, ecm, cb)' % (n0 + 1))
    c.call((cf, 'add_port_callback'), c.get('port2'), cb2)
    c.ensure('port-registration-matches-every-channel', 'raised is None and len(cf.incoming.cb) == %d and tuple(cf.incoming.cb[-1]) == (port2, 0xFF, 0, 0, cb2)' % (n0 + 2))
    c.snapshot('before', 'tuple(cf.incoming.cb)')
    if use_defaults:
        c.call((cf, 'remove_header_callback'), cb, c.get('port'), c.get('ch'))
    else:
        c.call((cf, 'remove_header_callback'), cb, c.get('port'), c.get('ch'), c.get('pm'), c.get('cm'))
    c.ensure('same-arguments-remove-exactly-that-registration', 'raised is None and tuple(cf.incoming.cb) == before[:%d] + before[%d:]' % (n0, n0 + 1))
    c.call((cf, 'remove_port_callback'), c.get('port2'), cb2)
    c.ensure('port-registration-removed', 'raised is None and tuple(cf.incoming.cb) == before[:%d]' % n0)


@contract('C07', 'dispatch.request-registered-during-answer-scan', RUN + [CF + ':Crazyflie._check_for_answers', CF + ':Crazyflie.send_packet'],
          clause='every packet received from the link is passed to the matching callbacks and later packets are still processed, also when '
                 'another thread sends a request with an expected reply (which registers an answer pattern) while the dispatcher thread is '
                 'scanning the pending answer patterns for this packet',
          bounded='explicit schedule: one pending request; the other thread\'s send_packet(expected_reply=...) runs when the dispatcher '
                  'thread is inside the first logging call of the scan (a thread switch is possible there); two received packets, on ports 9..12')
def request_during_scan(c):
    c.use_stubs(CF, ['Timer'])
    cf = c.new(CF + ':Crazyflie')
    c.let('cf', cf)
    c.int('h0', 0, 255), c.int('h1', 0, 255), c.int('h2', 0, 255), c.int('e1', 0, 255), c.int('e2', 0, 255)
    c.int('rh', 0, 255)
    c.require('(h1, e1) != (h2, e2)')
    rx1 = c.new(STK + ':CRTPPacket', c.get('rh'), c.bytes('d1', 2))
    rx2 = c.new(STK + ':CRTPPacket', c.get('h0'), c.bytes('d2', 1))
    c.let('rx1', rx1), c.let('rx2', rx2)
    # received packets are on ports no subsystem listens to (9..12): what the subsystems do with packets is not this clause
    c.require('9 <= (rh >> 4) <= 12 and 9 <= (h0 >> 4) <= 12')
    queue = [rx1, rx2]
    stop = c.raiser('StopLoop')

    def rx(*_a):
        if queue:
            return queue.pop(0)
        return stop()
    link = c.ext('link', attrs={'needs_resending': True}, returns={'receive_packet': rx})
    c.set(cf, 'link', link)
    cb = c.ext('cb')
    c.snapshot('p0', 'h0 >> 4')
    c.call((cf, 'add_port_callback'), c.get('p0'), cb)
    req1 = c.new(STK + ':CRTPPacket', c.get('h1'), c.bytes('q1', 1))
    req2 = c.new(STK + ':CRTPPacket', c.get('h2'), c.bytes('q2', 1))
    c.call((cf, 'send_packet'), req1, (c.get('e1'),))
    c.require('raised is None and len(cf._answer_patterns) == 1')
    done = []

    def debug(_i, args, _k):
        if not done:
            done.append(1)
            # the other thread runs now: it sends a request whose reply it wants matched
            c.invoke((cf, 'send_packet'), req2, (c.get('e2'),))
        return None
    c.patch(CF + ':logger', c.ext('logger', returns={'debug': debug}))
    c.reset_trace()
    c.call((c.getfield(cf, 'incoming'), 'run'))
    c.ensure('dispatcher-survives-both-packets', "raised == 'StopLoop' and len(sent('link.receive_packet')) == 3")
    c.ensure('second-packet-delivered-to-its-port-callback', "len([x for x in sent('cb') if is_same(x[1][0], rx2)]) == 1")
    c.ensure('first-packet-delivered-iff-port-matches', "iff(len([x for x in sent('cb') if is_same(x[1][0], rx1)]) == 1, rh >> 4 == h0 >> 4)")
    c.ensure('schedule-really-ran-the-other-thread', "len(sent('link.send_packet')) == 1 and len(sent('Timer')) == 1")


# ------------------------------------------------------------------------- extension round: callable kinds, histories, schedules

@contract('C07', 'remove.bound-method', [CF + ':_IncomingPacketHandler.remove_header_callback', CF + ':_IncomingPacketHandler.remove_port_callback',
                                         CF + ':_IncomingPacketHandler.add_port_callback'] + RUN,
          clause='removing a registration stops deliveries for that registration only, whatever kind of callable the callback is: a registration '
                 'whose callback is a bound method is removed by passing the same method of the same object again (an equal, not identical, '
                 'bound-method object - what cflib.crazyflie.toc does), the same method of ANOTHER object and a plain callable stay registered, '
                 'and the next packet reaches exactly the remaining ones',
          bounded='three registrations on one port: two bound methods (same function, two objects) and one callable object; one packet afterwards')
def remove_bound_method(c):
    port = c.int('port', 0, 15)
    c.int('chan', 0, 3)
    c.snapshot('hdr', '(port << 4) | chan')
    pk = c.new(STK + ':CRTPPacket', c.get('hdr'), c.bytes('data', 1))
    h, cf = handler_with_packets(c, [pk])
    # real objects with a real one-argument method: Caller.call(pk) hands pk to the stubs registered in that Caller
    objs = [c.new(CB + ':Caller'), c.new(CB + ':Caller')]
    sinks = [c.ext('cbA'), c.ext('cbB')]
    for o, s in zip(objs, sinks):
        c.invoke((o, 'add_callback'), s)
    plain = c.ext('cbC')
    via = c.choice('registered_with', ['port', 'header'])
    order = c.choice('order', [(0, 1, 2), (1, 0, 2), (2, 0, 1), (0, 2, 1)])

    def reg(i, add):
        cb = plain if i == 2 else c.getfield(objs[i], 'call')      # a FRESH bound-method object at every use
        if via == 'port':
            c.call((h, 'add_port_callback' if add else 'remove_port_callback'), port, cb)
        else:
            c.call((h, ('add' if add else 'remove') + '_header_callback'), cb, port, 0, 0xFF, 0)
    for i in order:
        reg(i, True)
    c.let('h', h)
    c.snapshot('before', 'tuple(h.cb)')
    victim = c.choice('victim', [0, 1, 2])
    reg(victim, False)
    c.ensure('no-exception', 'raised is None')
    c.let('rest', tuple(k for k in range(3) if order[k] != victim))
    c.ensure('exactly-that-registration-removed', 'len(h.cb) == 2 and all(is_same(h.cb[k], before[rest[k]]) for k in range(2))')
    c.reset_trace()
    c.call((h, 'run'))
    c.ensure('loop-survives', "raised == 'StopLoop'")
    c.let('expected', tuple('cb' + 'ABC'[i] for i in order if i != victim))
    c.ensure('next-packet-reaches-exactly-the-remaining-registrations', "tuple(n for n in calls() if n.startswith('cb')) == expected")


@contract('C07', 'caller.bound-methods', [CB + ':Caller.add_callback', CB + ':Caller.remove_callback', CB + ':Caller.call'],
          clause='all-packet callbacks (Caller): a callback that is a bound method is registered once however often it is added, and is removed by '
                 'passing the same method of the same object again (an equal, not identical, bound-method object - what Crazyflie does with '
                 '_check_for_initial_packet_cb); the same method of another object and plain callables keep receiving, each exactly once in order',
          bounded='two bound methods (same function, two objects) and one callable object')
def caller_bound_methods(c):
    caller = c.new(CB + ':Caller')
    objs = [c.new(CB + ':Caller'), c.new(CB + ':Caller')]
    sinks = [c.ext('cbA'), c.ext('cbB')]
    for o, s in zip(objs, sinks):
        c.invoke((o, 'add_callback'), s)
    plain = c.ext('cbC')

    def cb(i):
        return plain if i == 2 else c.getfield(objs[i], 'call')    # a FRESH bound-method object at every use
    order = c.choice('order', [(0, 1, 2), (1, 0, 2), (2, 0, 1), (0, 2, 1)])
    for i in order:
        c.invoke((caller, 'add_callback'), cb(i))
    again = c.choice('added_again', [0, 1, 2])
    c.call((caller, 'add_callback'), cb(again))
    c.let('caller', caller)
    c.ensure('no-duplicates', 'raised is None and len(caller.callbacks) == 3')
    c.reset_trace()
    c.int('x')
    c.call((caller, 'call'), c.get('x'))
    c.let('all3', tuple('cb' + 'ABC'[i] for i in order))
    c.ensure('each-once-in-order', "raised is None and calls('cb') == all3 and all(e[1] == (x,) for e in trace)")
    victim = c.choice('victim', [0, 1, 2])
    c.call((caller, 'remove_callback'), cb(victim))
    c.ensure('removed', 'raised is None and len(caller.callbacks) == 2')
    c.reset_trace()
    c.call((caller, 'call'), c.get('x'))
    c.let('expected', tuple('cb' + 'ABC'[i] for i in order if i != victim))
    c.ensure('only-that-one-stops-receiving', "raised is None and calls('cb') == expected")


EXCEPTIONS = ['ValueError', 'KeyError', 'IndexError', 'AttributeError', 'TypeError', 'struct.error', 'ZeroDivisionError', 'AssertionError',
              'RuntimeError', 'NotImplementedError', 'OSError', 'TimeoutError', 'queue.Empty', 'UnicodeDecodeError', 'StopIteration', 'Exception']


@contract('C07', 'dispatch.raising-callable-kinds', RUN,
          clause='an exception raised by one port callback neither prevents delivery to the remaining callbacks nor stops processing of later '
                 'packets - whatever Exception subclass it is, whatever kind of callable the raising callback is (a callable object / '
                 'functools.partial-like callable without __name__, or a bound method of a real object, the kind the library itself registers) and '
                 'at every position of the raising callback',
          bounded='three registrations on one port, one of them raises on every delivery; two packets; exception classes: %s' % EXCEPTIONS)
def raising_kinds(c):
    port = c.int('port', 0, 15)
    c.ints('chan', 2, 0, 3)
    pks = []
    for i in range(2):
        c.snapshot('h%d' % i, '(port << 4) | chan[%d]' % i)
        pks.append(c.new(STK + ':CRTPPacket', c.get('h%d' % i), c.bytes('d%d' % i, 1)))
    h, cf = handler_with_packets(c, pks)
    exc = c.choice('exception', EXCEPTIONS)
    kind = c.choice('kind', ['callable-object', 'bound-method'])
    pos = c.choice('position', [0, 1, 2])
    args = ('utf-8', b'\xff', 0, 1, 'invalid start byte') if exc == 'UnicodeDecodeError' else ('callback failed',)
    boom = c.ext('boom', returns={'()': c.raiser(exc, *args)})
    if kind == 'bound-method':
        holder = c.new(CB + ':Caller')               # holder.call(pk) calls boom(pk), which raises out of the bound method
        c.invoke((holder, 'add_callback'), boom)
        raising = c.getfield(holder, 'call')
    else:
        raising = boom
    others = [c.ext('cb0'), c.ext('cb1')]
    regs = list(others)
    regs.insert(pos, raising)
    for r in regs:
        c.invoke((h, 'add_port_callback'), port, r)
    c.reset_trace()
    for i in range(2):
        c.let('pk%d' % i, pks[i])
    c.call((h, 'run'))
    c.ensure('loop-survives-and-takes-both-packets', "raised == 'StopLoop' and len(sent('link.receive_packet')) == 3")
    names = ['cb0', 'cb1']
    names.insert(pos, 'boom')
    c.let('expected', tuple((n, i) for i in range(2) for n in names))
    c.ensure('every-callback-gets-every-packet-once-in-order',
             "tuple((e[0], 0 if is_same(e[1][0], pk0) else 1) for e in trace if e[0] in ('cb0', 'cb1', 'boom')) == expected")


def _several(n_regs, thorough_only):
    names = tuple('cb%d' % j for j in range(n_regs))

    @contract('C07', 'dispatch.%d-registrations-2-packets' % n_regs, RUN + [CF + ':_IncomingPacketHandler.add_header_callback'],
              clause='every received packet is passed exactly once to EACH registered callback whose pattern matches its header and to no other, in '
                     'arrival order of the packets (and registration order within one packet): for all header bytes of both packets and all '
                     'port / mask / channel / mask values of every registration, also when one of the callbacks raises',
              bounded='%d registrations with different callbacks, two packets; at most one raising callback' % n_regs,
              thorough_only=thorough_only)
    def several(c):
        pks = [c.new(STK + ':CRTPPacket', c.int('hd%d' % i, 0, 255), c.bytes('d%d' % i, 1)) for i in range(2)]
        h, cf = handler_with_packets(c, pks)
        raising = c.choice('raising', [None] + list(range(n_regs)))
        boom = c.raiser('RuntimeError', 'callback failed')
        for j in range(n_regs):
            f = [c.int('%s%d' % (n, j), 0, 255) for n in ('p', 'pm', 'c', 'cm')]
            cb = c.ext('cb%d' % j, returns={'()': boom} if raising == j else {})
            c.invoke((h, 'add_header_callback'), cb, f[0], f[2], f[1], f[3])
        c.reset_trace()
        for i in range(2):
            c.let('pk%d' % i, pks[i])
        c.let('names', names)
        c.call((h, 'run'))
        c.ensure('loop-survives-and-takes-both-packets', "raised == 'StopLoop' and len(sent('link.receive_packet')) == 3")
        c.snapshot('deliveries', "tuple((0 if is_same(e[1][0], pk0) else 1, int(e[0][2])) for e in trace if e[0] in names)")
        c.ensure('only-the-received-packets-are-delivered', "all(is_same(e[1][0], pk0) or is_same(e[1][0], pk1) for e in trace if e[0] in names)")
        for i in range(2):
            for j in range(n_regs):
                c.ensure('pk%d-cb%d-once-iff-match' % (i, j),
                         "deliveries.count((%d, %d)) == (1 if p%d == ((hd%d >> 4) & pm%d) and c%d == ((hd%d & 3) & cm%d) else 0)" % (i, j, j, i, j, j, i, j))
        c.ensure('arrival-order-then-registration-order', 'deliveries == tuple(sorted(deliveries))')
    return several


_several(2, False)
_several(3, True)


@contract('C07', 'dispatch.idle-polls-and-link-change', RUN,
          clause='every packet received from the link is passed exactly once, in arrival order, to the matching callback and later packets are '
                 'still processed - also when the link has nothing to deliver for a while (receive_packet times out and returns None) and when '
                 'the link is closed (cf.link is None) and another one is opened later: the registrations stay and the packets of the new link '
                 'reach them',
          bounded='explicit schedule: [packet, time-out, packet] on the first link; the link is closed while the dispatcher waits in '
                  'receive_packet; it is re-opened during the second wait of the dispatcher; [time-out, packet] on the second link')
def idle_and_link_change(c):
    port = c.int('port', 0, 15)
    c.ints('chan', 3, 0, 3)
    pks = []
    for i in range(3):
        c.snapshot('h%d' % i, '(port << 4) | chan[%d]' % i)
        pks.append(c.new(STK + ':CRTPPacket', c.get('h%d' % i), c.bytes('d%d' % i, 1)))
        c.let('pk%d' % i, pks[i])
    stop = c.raiser('StopLoop')
    script1 = [pks[0], None, pks[1], 'close']
    script2 = [None, pks[2]]
    state = {'sleeps': 0}

    def rx1(*_a):
        if not script1:
            return stop()                  # (a dispatcher that keeps polling the closed link: end the run, the ensures fail)
        x = script1.pop(0)
        if x == 'close':
            c.set(cf, 'link', None)        # the application thread closes the link (close_link / link error) while the dispatcher waits
            return None
        return x

    def rx2(*_a):
        if script2:
            return script2.pop(0)
        return stop()

    def sleep(*_a):
        state['sleeps'] += 1
        if state['sleeps'] == 2:
            c.set(cf, 'link', link2)       # the application thread opens the next link
        if state['sleeps'] > 8:
            return stop()                  # (a dispatcher that never looks at the link again: end the run, the ensures fail)
        return None
    link = c.ext('link', returns={'receive_packet': rx1})
    link2 = c.ext('link2', returns={'receive_packet': rx2})
    cf = c.ext('cf', attrs={'link': link})
    c.patch(CF + ':time', c.ext('time', returns={'sleep': sleep}))
    h = c.new(CF + ':_IncomingPacketHandler', cf)
    cb = c.ext('cb')
    c.invoke((h, 'add_port_callback'), port, cb)
    c.reset_trace()
    c.call((h, 'run'))
    c.ensure('loop-survives', "raised == 'StopLoop'")
    c.ensure('every-packet-once-in-arrival-order',
             "len(sent('cb')) == 3 and all(is_same(sent('cb')[i][1][0], (pk0, pk1, pk2)[i]) for i in range(3))")
    c.ensure('all-packet-callbacks-get-them-too',
             "len(sent('cf.packet_received.call')) == 3 and all(is_same(sent('cf.packet_received.call')[i][1][0], (pk0, pk1, pk2)[i]) for i in range(3))")


WHEN = ['waiting-for-next-packet', 'all-packet-callbacks-running', 'error-being-logged']
OPS = ['remove_first', 'remove_last', 'add_new']


@contract('C07', 'dispatch.other-thread-changes-registrations', RUN + [CF + ':_IncomingPacketHandler.remove_port_callback',
                                                                      CF + ':_IncomingPacketHandler.add_port_callback'],
          clause='registrations added / removed by ANOTHER thread while the dispatcher thread is busy with a packet or waits for the next one: the '
                 'callbacks whose registration is not touched still get every packet exactly once in registration order, the touched one gets '
                 'the packet under dispatch at most once, the dispatcher survives, and the next packet goes to exactly the then-current '
                 'registrations (removal stops deliveries for that registration only)',
          bounded='explicit schedules (no pre-emption between two statements of the dispatcher): the other thread runs while the dispatcher is '
                  'inside receive_packet, inside the all-packet callbacks, or inside the logging call that reports a raising callback; three '
                  'registrations on one port, one operation out of %s, two packets' % OPS)
def other_thread(c):
    port = c.int('port', 0, 15)
    c.ints('chan', 2, 0, 3)
    pks = []
    for i in range(2):
        c.snapshot('h%d' % i, '(port << 4) | chan[%d]' % i)
        pks.append(c.new(STK + ':CRTPPacket', c.get('h%d' % i), c.bytes('d%d' % i, 1)))
        c.let('pk%d' % i, pks[i])
    when = c.choice('when', WHEN)
    op = c.choice('op', OPS)
    done = []
    cbs = []
    new_cb = c.ext('cbnew')

    def other_thread_runs():
        if done:
            return
        done.append(op)
        if op == 'remove_first':
            c.invoke((h, 'remove_port_callback'), port, cbs[0])
        elif op == 'remove_last':
            c.invoke((h, 'remove_port_callback'), port, cbs[2])
        else:
            c.invoke((h, 'add_port_callback'), port, new_cb)
    queue = list(pks)
    stop = c.raiser('StopLoop')

    def rx(*_a):
        if not queue:
            return stop()
        if len(queue) == 1 and when == WHEN[0]:
            other_thread_runs()
        return queue.pop(0)

    def all_packet(*_a):
        if when == WHEN[1]:
            other_thread_runs()
        return None

    def log_error(*_a):
        if when == WHEN[2]:
            other_thread_runs()
        return None
    link = c.ext('link', returns={'receive_packet': rx})
    cf = c.ext('cf', attrs={'link': link}, returns={'packet_received.call': all_packet})
    c.patch(CF + ':logger', c.ext('logger', returns={'error': log_error, 'exception': log_error, 'warning': log_error}))
    h = c.new(CF + ':_IncomingPacketHandler', cf)
    boom = c.raiser('ValueError', 'callback failed')
    for i in range(3):
        cbs.append(c.ext('cb%d' % i, returns={'()': boom} if (i == 1 and when == WHEN[2]) else {}))
        c.invoke((h, 'add_port_callback'), port, cbs[i])
    c.reset_trace()
    c.call((h, 'run'))
    c.ensure('dispatcher-survives-both-packets', "raised == 'StopLoop' and len(sent('link.receive_packet')) == 3")
    touched = {'remove_first': 'cb0', 'remove_last': 'cb2', 'add_new': 'cbnew'}[op]
    c.let('touched', touched)
    c.snapshot('first', "tuple(e[0] for e in trace if e[0].startswith('cb') and is_same(e[1][0], pk0))")
    c.snapshot('second', "tuple(e[0] for e in trace if e[0].startswith('cb') and is_same(e[1][0], pk1))")
    c.ensure('arrival-order', "tuple(e[0] for e in trace if e[0].startswith('cb')) == first + second")
    c.let('untouched', tuple(n for n in ('cb0', 'cb1', 'cb2') if n != touched))
    c.ensure('packet-under-dispatch.untouched-registrations-exactly-once-in-order', 'tuple(n for n in first if n != touched) == untouched')
    c.ensure('packet-under-dispatch.touched-registration-at-most-once', 'first.count(touched) <= 1')
    if when == WHEN[0]:
        c.ensure('operation-between-two-packets-does-not-change-the-finished-dispatch', "first == ('cb0', 'cb1', 'cb2')")
    after = ['cb0', 'cb1', 'cb2']
    if done:            # (a refactoring may drop the logging call the third schedule hooks into: then nothing was changed)
        if op == 'add_new':
            after.append('cbnew')
        else:
            after.remove(touched)
    c.let('after', tuple(after))
    c.ensure('next-packet-goes-to-exactly-the-current-registrations', 'second == after')


@contract('C07', 'lifecycle.dispatcher-runs-for-every-session', [CF + ':Crazyflie.open_link', CF + ':Crazyflie.close_link', CF + ':Crazyflie._link_error_cb'],
          clause='every packet received from the link is dispatched: opening a link makes sure that the dispatcher thread of this Crazyflie - the '
                 'handler object that holds the registrations - runs: it is started with the first session, and exactly once (starting a thread '
                 'twice is an error that would make the second session fail), whatever number of sessions follow; a registration that was '
                 'never removed is still registered in the next session',
          bounded='two sessions (open, close_link or link error, open) on a stub link driver.  Assumed: Thread.is_alive() is True once start() was called (the '
                  'dispatcher loop never returns); start / is_alive of the handler are stubs of the contract with exactly that behaviour')
def dispatcher_runs(c):
    c.use_stubs(CF, ['Timer'])
    cf = c.new(CF + ':Crazyflie')
    c.let('cf', cf)
    started = []
    handler = c.getfield(cf, 'incoming')
    c.set(handler, 'start', c.ext('dispatcher.start', returns={'()': lambda *_a: started.append(1)}))
    c.set(handler, 'is_alive', c.ext('dispatcher.is_alive', returns={'()': lambda *_a: bool(started)}))
    c.let('handler', handler)
    links = [c.ext('link1', attrs={'needs_resending': False}), c.ext('link2', attrs={'needs_resending': False})]
    handed = []

    def driver(*_a):
        handed.append(1)
        return links[len(handed) - 1]
    c.patch('cflib.crtp:get_link_driver', c.ext('get_link_driver', returns={'()': driver}))
    failed = c.ext('connection_failed')
    c.invoke((c.getfield(cf, 'connection_failed'), 'add_callback'), failed)
    user_cb = c.ext('user_cb')
    c.int('uport', 0, 15)
    c.invoke((cf, 'add_port_callback'), c.get('uport'), user_cb)
    c.reset_trace()
    c.call((cf, 'open_link'), 'radio://0/80/2M')
    c.ensure('first-session.dispatcher-started-exactly-once',
             "raised is None and len(sent('dispatcher.start')) == 1 and is_same(cf.incoming, handler) and len(sent('connection_failed')) == 0")
    how = c.choice('first_session_ends_by', ['close_link', 'link error'])
    if how == 'close_link':
        c.call((cf, 'close_link'))
    else:
        c.call((cf, '_link_error_cb'), 'link lost')
    c.snapshot('failed_before', "len(sent('connection_failed'))")      # (a link error before the first packet reports a failed connection)
    c.call((cf, 'open_link'), 'radio://0/80/2M')
    c.ensure('second-session.same-handler-not-started-again',
             "raised is None and len(sent('dispatcher.start')) == 1 and is_same(cf.incoming, handler) and len(sent('connection_failed')) == failed_before")
    c.ensure('second-session.a-registration-that-was-never-removed-is-still-registered',
             'len([r for r in cf.incoming.cb if is_same(r.callback, user_cb) and r.port == uport]) == 1')


@contract('C07', 'lifecycle.dispatcher-started-with-a-given-link', [CF + ':Crazyflie.__init__'],
          clause='every packet received from the link is dispatched: a Crazyflie that is handed an open link at construction starts its dispatcher '
                 'thread (the handler that holds the registrations made through this Crazyflie) at once, exactly once',
          bounded='the thread itself is the sequential model: the start is recorded, the loop is the subject of the dispatch.* contracts')
def started_with_link(c):
    c.virtual_time()
    link = c.ext('link', attrs={'needs_resending': False})
    c.call(CF + ':Crazyflie', link)
    c.let('cf', c.get('result'))
    c.ensure('constructed', 'raised is None')
    c.ensure('dispatcher-started-exactly-once',
             "len(sent('thread:_IncomingPacketHandler.start')) == 1 and is_same(sent('thread:_IncomingPacketHandler.start')[0][1][0], cf.incoming)")
    cb = c.ext('cb')
    c.int('port', 0, 15)
    c.call((c.get('cf'), 'add_port_callback'), c.get('port'), cb)
    c.ensure('registrations-go-to-the-started-handler', 'raised is None and is_same(cf.incoming.cb[-1].callback, cb) and is_same(cf.incoming.cf, cf)')


@contract('C07', 'dispatch.match.packet-built-with-setters', RUN + [STK + ':CRTPPacket._set_port', STK + ':CRTPPacket._set_channel',
                                                                  STK + ':CRTPPacket._update_header'],
          clause='a packet is passed to a registered callback iff port == packet_port & port_mask and channel == packet_channel & channel_mask, '
                 'exactly once - also for packets a link driver builds with the port / channel setters or set_header (cflinkcpp, udp) instead '
                 'of from the header byte; the header byte of such a packet carries the same port and channel')
def match_setters(c):
    c.int('pp', 0, 15), c.int('pc', 0, 3)
    c.int('port', 0, 255), c.int('pm', 0, 255), c.int('ch', 0, 255), c.int('cm', 0, 255)
    pk = c.new(STK + ':CRTPPacket')
    how = c.choice('built_with', ['setters', 'set_header'])
    if how == 'setters':
        c.set(pk, 'port', c.get('pp'))
        c.set(pk, 'channel', c.get('pc'))
    else:
        c.invoke((pk, 'set_header'), c.get('pp'), c.get('pc'))
    c.set(pk, 'data', c.bytes('data', 2))
    h, cf = handler_with_packets(c, [pk])
    cb = c.ext('cb')
    c.invoke((h, 'add_header_callback'), cb, c.get('port'), c.get('ch'), c.get('pm'), c.get('cm'))
    c.reset_trace()
    c.let('pk', pk)
    c.call((h, 'run'))
    c.ensure('loop-survives', "raised == 'StopLoop'")
    c.ensure('called-iff-match', "iff(len(sent('cb')) == 1, port == (pp & pm) and ch == (pc & cm))")
    c.ensure('at-most-once-same-packet', "len(sent('cb')) <= 1 and all(is_same(e[1][0], pk) for e in sent('cb'))")
    c.ensure('header-byte-agrees', 'pk.header >> 4 == pp and pk.header & 3 == pc and pk.get_header() == pk.header')


@contract('C07', 'dispatch.handlers-are-independent', RUN + [CF + ':_IncomingPacketHandler.__init__', CB + ':Caller.__init__'],
          clause='a packet is passed to the callbacks registered with THIS Crazyflie\'s dispatcher and to no other: registrations (port callbacks '
                 'and all-packet callbacks) made on one Crazyflie / Caller object are not registrations of another object of the same class',
          bounded='two handlers, two Callers, one registration each; one packet')
def independent(c):
    port = c.int('port', 0, 15)
    c.int('chan', 0, 3)
    c.snapshot('hdr', '(port << 4) | chan')
    pk = c.new(STK + ':CRTPPacket', c.get('hdr'), c.bytes('data', 1))
    c.let('pk', pk)
    h1, cf1 = handler_with_packets(c, [pk])
    cf2 = c.ext('cf2')
    h2 = c.new(CF + ':_IncomingPacketHandler', cf2)
    mine, other = c.ext('cb_mine'), c.ext('cb_other')
    c.invoke((h2, 'add_port_callback'), port, other)
    c.invoke((h1, 'add_port_callback'), port, mine)
    c.reset_trace()
    c.call((h1, 'run'))
    c.ensure('only-the-callback-of-this-dispatcher', "raised == 'StopLoop' and calls('cb_') == ('cb_mine',)")
    callers = [c.new(CB + ':Caller'), c.new(CB + ':Caller')]
    c.invoke((callers[1], 'add_callback'), other)
    c.invoke((callers[0], 'add_callback'), mine)
    c.reset_trace()
    c.call((callers[0], 'call'), pk)
    c.ensure('only-the-all-packet-callback-of-this-caller', "raised is None and calls('cb_') == ('cb_mine',)")


@contract('C07', 'dispatch.empty-payload', RUN + [CF + ':_IncomingPacketHandler.add_header_callback', CF + ':_IncomingPacketHandler.add_port_callback'],
          clause='every packet received from the link - also one that consists of the header byte only (empty payload) - is passed exactly once to '
                 'the all-packet callbacks and to each matching port / header callback, for all 256 header bytes')
def dispatch_empty_payload(c):
    c.int('h', 0, 255)
    c.int('port', 0, 255), c.int('pm', 0, 255), c.int('ch', 0, 255), c.int('cm', 0, 255), c.int('port2', 0, 15)
    pk = c.new(STK + ':CRTPPacket', c.get('h'), c.bytes('data', 0))
    pk2 = c.new(STK + ':CRTPPacket', c.get('h'))                      # built without any data at all
    h, cf = handler_with_packets(c, [pk, pk2])
    cb, pcb = c.ext('cb'), c.ext('pcb')
    c.call((h, 'add_header_callback'), cb, c.get('port'), c.get('ch'), c.get('pm'), c.get('cm'))
    c.call((h, 'add_port_callback'), c.get('port2'), pcb)
    c.reset_trace()
    c.let('pk', pk), c.let('pk2', pk2)
    c.call((h, 'run'))
    c.ensure('loop-survives', "raised == 'StopLoop'")
    c.ensure('all-packet-callbacks-get-both', "len(sent('cf.packet_received.call')) == 2 and is_same(sent('cf.packet_received.call')[0][1][0], pk) "
             "and is_same(sent('cf.packet_received.call')[1][1][0], pk2)")
    c.ensure('header-callback-iff-match-once-per-packet', "len(sent('cb')) == (2 if (port == ((h >> 4) & pm) and ch == ((h & 3) & cm)) else 0)")
    c.ensure('port-callback-iff-port-once-per-packet', "len(sent('pcb')) == (2 if port2 == h >> 4 else 0)")
    c.ensure('in-arrival-order', "all(is_same(e[1][0], p) for e, p in zip(sent('pcb'), (pk, pk2))) and all(is_same(e[1][0], p) for e, p in zip(sent('cb'), (pk, pk2)))")


@contract('C07', 'dispatch.all-packet-callback-changes-registrations', RUN + [CF + ':_IncomingPacketHandler.add_port_callback', CF + ':_IncomingPacketHandler.remove_port_callback'],
          clause='removing a registration stops deliveries for that registration: a registration removed by an all-packet (packet_received) callback while '
                 'that packet is being dispatched - the all-packet callbacks run first - does not receive that packet any more, a registration it adds '
                 'does, and the other registrations are not affected',
          bounded='one packet; the all-packet callback removes one port callback and adds another, in either order')
def all_packet_callback_changes_registrations(c):
    c.int('h', 0, 255)
    pk = c.new(STK + ':CRTPPacket', c.get('h'), c.bytes('data', 1))
    c.snapshot('p', 'h >> 4')
    queue = [pk]
    stop = c.raiser('StopLoop')

    def rx(*_a):
        if queue:
            return queue.pop(0)
        return stop()
    order = c.choice('order', ['remove-then-add', 'add-then-remove'])
    keep, gone, new = c.ext('keep'), c.ext('gone'), c.ext('new')
    holder = {}

    def all_packets(_i, args, _k):
        h_ = holder['h']
        if order == 'remove-then-add':
            c.invoke((h_, 'remove_port_callback'), c.get('p'), gone)
            c.invoke((h_, 'add_port_callback'), c.get('p'), new)
        else:
            c.invoke((h_, 'add_port_callback'), c.get('p'), new)
            c.invoke((h_, 'remove_port_callback'), c.get('p'), gone)
        return None
    link = c.ext('link', returns={'receive_packet': rx})
    cf = c.ext('cf', attrs={'link': link}, returns={'packet_received.call': all_packets})
    h = c.new(CF + ':_IncomingPacketHandler', cf)
    holder['h'] = h
    c.call((h, 'add_port_callback'), c.get('p'), keep)
    c.call((h, 'add_port_callback'), c.get('p'), gone)
    c.reset_trace()
    c.call((h, 'run'))
    c.ensure('loop-survives', "raised == 'StopLoop'")
    c.ensure('untouched-registration-gets-the-packet-once', "len(sent('keep')) == 1")
    c.ensure('removed-registration-no-longer-gets-it', "len(sent('gone')) == 0")
    c.ensure('added-registration-gets-it-once', "len(sent('new')) == 1")
