"""C07 - received packets reach exactly the matching callbacks, once, in order.

The dispatcher's service loop is endless; the contracts run the REAL `run()` for a scripted number of received packets:
the link stub hands out the packets and then raises the pseudo exception StopLoop (a BaseException, so the
`except Exception` around callbacks cannot swallow it).

Thread interleavings are covered only as explicit schedules (`dispatch.request-registered-during-answer-scan`: another thread's
send_packet runs while the dispatcher scans the answer patterns); registrations performed from OTHER threads at arbitrary
points of the dispatch are not covered.
Assumed: callbacks raise only Exception subclasses; packet_received callbacks (outside the try) do not raise.
"""
from pyvc.api import contract

CF = 'cflib.crazyflie'
STK = 'cflib.crtp.crtpstack'
CB = 'cflib.utils.callbacks'
RUN = [CF + ':_IncomingPacketHandler.run']


def handler_with_packets(c, packets):
    """real _IncomingPacketHandler whose link returns `packets` one by one and then stops the loop"""
    queue = list(packets)
    stop = c.raiser('StopLoop')

    def rx(*_a):
        if queue:
            return queue.pop(0)
        return stop()
    link = c.ext('link', returns={'receive_packet': rx})
    cf = c.ext('cf', attrs={'link': link})
    h = c.new(CF + ':_IncomingPacketHandler', cf)
    c.reset_trace()
    return h, cf


@contract('C07', 'dispatch.match', RUN + [CF + ':_IncomingPacketHandler.add_header_callback'],
          clause='a packet is passed to a registered callback iff port == header_port & port_mask and channel == header_channel & '
                 'channel_mask, for all 256 header bytes and all registrations; exactly once')
def dispatch_match(c):
    c.int('h', 0, 255)
    c.int('port', 0, 255), c.int('pm', 0, 255), c.int('ch', 0, 255), c.int('cm', 0, 255)
    pk = c.new(STK + ':CRTPPacket', c.get('h'), c.bytes('data', 2))
    h, cf = handler_with_packets(c, [pk])
    cb = c.ext('cb')
    c.call((h, 'add_header_callback'), cb, c.get('port'), c.get('ch'), c.get('pm'), c.get('cm'))
    c.reset_trace()
    c.let('pk', pk)
    c.call((h, 'run'))
    c.ensure('loop-survives', "raised == 'StopLoop'")
    c.ensure('all-packet-callbacks-first', "calls()[0] == 'link.receive_packet' and calls()[1] == 'cf.packet_received.call'")
    c.ensure('called-iff-match', "iff(len(sent('cb')) == 1, port == ((h >> 4) & pm) and ch == ((h & 3) & cm))")
    c.ensure('at-most-once', "len(sent('cb')) <= 1")
    c.ensure('same-packet', "implies(len(sent('cb')) == 1, is_same(sent('cb')[0][1][0], pk))")


@contract('C07', 'dispatch.port-callback', RUN + [CF + ':_IncomingPacketHandler.add_port_callback'],
          clause='a port callback receives every packet of its port whatever the channel, and no packet of another port')
def dispatch_port(c):
    c.int('h', 0, 255)
    c.int('port', 0, 15)
    pk = c.new(STK + ':CRTPPacket', c.get('h'), c.bytes('data', 1))
    h, cf = handler_with_packets(c, [pk])
    cb = c.ext('cb')
    c.call((h, 'add_port_callback'), c.get('port'), cb)
    c.reset_trace()
    c.call((h, 'run'))
    c.ensure('loop-survives', "raised == 'StopLoop'")
    c.ensure('called-iff-port', "iff(len(sent('cb')) == 1, port == h >> 4)")
    c.ensure('at-most-once', "len(sent('cb')) <= 1")


ACTIONS = ['none', 'remove_self', 'remove_next', 'remove_prev', 'add_new', 'raise']


def _snapshot(n_packets):
    @contract('C07', 'dispatch.snapshot.%dpk' % n_packets, RUN + [CF + ':_IncomingPacketHandler.remove_port_callback',
                                                                 CF + ':_IncomingPacketHandler.remove_header_callback'],
              clause='every callback registered when dispatch of a packet starts is invoked exactly once, in registration order, '
                     'even when callbacks unregister themselves / others, register new ones or raise while that packet is dispatched; '
                     'later packets go to the then-current registrations',
              bounded='three registrations on one port, one action per callback out of %s (all 216 combinations)' % ACTIONS)
    def k(c):
        port = 9
        pks = [c.new(STK + ':CRTPPacket', (port << 4) | 1, c.bytes('d%d' % i, 1)) for i in range(n_packets)]
        h, cf = handler_with_packets(c, pks)
        acts = [c.choice('act%d' % i, ACTIONS) for i in range(3)]
        cbs = []
        new_cb = c.ext('cbnew')
        fired = set()

        def make(i):
            def effect(*_a):
                if i in fired:          # the scripted action happens on the first delivery only
                    return None
                fired.add(i)
                a = acts[i]
                if a == 'remove_self':
                    c.invoke((h, 'remove_port_callback'), port, cbs[i])
                elif a == 'remove_next' and i + 1 < 3:
                    c.invoke((h, 'remove_port_callback'), port, cbs[i + 1])
                elif a == 'remove_prev' and i > 0:
                    c.invoke((h, 'remove_port_callback'), port, cbs[i - 1])
                elif a == 'add_new':
                    c.invoke((h, 'add_port_callback'), port, new_cb)
                elif a == 'raise':
                    c.raiser('ValueError', 'callback failed')()
                return None
            return effect
        for i in range(3):
            cbs.append(c.ext('cb%d' % i, returns={'()': make(i)}))
        for i in range(3):
            c.invoke((h, 'add_port_callback'), port, cbs[i])
        c.reset_trace()
        c.call((h, 'run'))
        c.ensure('loop-survives-raising-callbacks', "raised == 'StopLoop'")
        # expected deliveries, from the property: snapshot per packet
        regs = [0, 1, 2]
        expected = []
        done = set()
        for _p in range(n_packets):
            snap = list(regs)
            for r in snap:
                expected.append('cbnew' if r == 'new' else 'cb%d' % r)
                if r == 'new' or r in done:
                    continue
                done.add(r)
                a = acts[r]
                if a == 'remove_self' and r in regs:
                    regs.remove(r)
                elif a == 'remove_next' and r + 1 < 3 and (r + 1) in regs:
                    regs.remove(r + 1)
                elif a == 'remove_prev' and r > 0 and (r - 1) in regs:
                    regs.remove(r - 1)
                elif a == 'add_new':
                    regs.append('new')
        c.let('expected', tuple(expected))
        c.ensure('snapshot-delivery-order', "tuple(n for n in calls() if n.startswith('cb')) == expected")
    return k


_snapshot(1)
_snapshot(2)


@contract('C07', 'remove_header_callback', [CF + ':_IncomingPacketHandler.remove_header_callback'],
          clause='removing a registration stops deliveries for that registration only: exactly the equal registration leaves the '
                 'list, the others keep their order',
          bounded='three pairwise distinct registrations with symbolic fields')
def remove_header(c):
    cf = c.ext('cf')
    h = c.new(CF + ':_IncomingPacketHandler', cf)
    cbs = [c.ext('cbA'), c.ext('cbB')]
    regs = []
    for i in range(3):
        which = c.choice('cb_of_%d' % i, [0, 1])
        f = [c.int('p%d' % i, 0, 255), c.int('pm%d' % i, 0, 255), c.int('c%d' % i, 0, 255), c.int('cm%d' % i, 0, 255)]
        regs.append((which, f))
        c.invoke((h, 'add_header_callback'), cbs[which], f[0], f[2], f[1], f[3])
    # pairwise distinct registrations (the property quantifies over sets of distinct registrations)
    for i in range(3):
        for j in range(i):
            if regs[i][0] == regs[j][0]:
                c.require('not (p%d == p%d and pm%d == pm%d and c%d == c%d and cm%d == cm%d)' % (i, j, i, j, i, j, i, j))
    victim = c.choice('victim', [0, 1, 2])
    c.let('h', h)
    c.snapshot('before', 'tuple(h.cb)')
    w, f = regs[victim]
    c.call((h, 'remove_header_callback'), cbs[w], f[0], f[2], f[1], f[3])
    c.ensure('no-exception', 'raised is None')
    c.let('rest', tuple(i for i in range(3) if i != victim))
    c.ensure('exactly-that-one-removed', 'len(h.cb) == 2 and all(is_same(h.cb[k], before[rest[k]]) for k in range(2))')


@contract('C07', 'caller.snapshot', [CB + ':Caller.call', CB + ':Caller.add_callback', CB + ':Caller.remove_callback'],
          clause='Caller.call invokes the callbacks registered at the time of the call, once each in order, also when a callback '
                 'removes itself or another one during the call; add_callback never duplicates',
          bounded='three callbacks, one action per callback')
def caller_snapshot(c):
    caller = c.new(CB + ':Caller')
    acts = [c.choice('act%d' % i, ['none', 'remove_self', 'remove_next', 'add_new']) for i in range(3)]
    cbs = []
    new_cb = c.ext('cbnew')

    def make(i):
        def effect(*_a):
            a = acts[i]
            if a == 'remove_self' and cbs[i] in _registered:
                _registered.remove(cbs[i])
                c.invoke((caller, 'remove_callback'), cbs[i])
            elif a == 'remove_next' and i + 1 < 3 and cbs[i + 1] in _registered:
                _registered.remove(cbs[i + 1])
                c.invoke((caller, 'remove_callback'), cbs[i + 1])
            elif a == 'add_new':
                c.invoke((caller, 'add_callback'), new_cb)
            return None
        return effect
    for i in range(3):
        cbs.append(c.ext('cb%d' % i, returns={'()': make(i)}))
    _registered = list(cbs)
    for i in range(3):
        c.invoke((caller, 'add_callback'), cbs[i])
    c.invoke((caller, 'add_callback'), cbs[1])     # duplicate registration is ignored
    c.let('caller', caller)
    c.ensure('no-duplicates', 'len(caller.callbacks) == 3', cls='P')
    c.int('x')
    c.call((caller, 'call'), c.get('x'), 7)
    c.ensure('no-exception', 'raised is None')
    c.ensure('each-once-in-order', "tuple(n for n in calls('cb')) == ('cb0', 'cb1', 'cb2')")
    c.ensure('arguments-passed', "all(e[1] == (x, 7) for e in trace if e[0].startswith('cb'))")


@contract('C07', 'crazyflie-api.registration', [CF + ':Crazyflie.add_header_callback', CF + ':Crazyflie.remove_header_callback', CF + ':Crazyflie.add_port_callback',
                                                CF + ':Crazyflie.remove_port_callback', CF + ':_IncomingPacketHandler.add_port_callback'],
          clause='registrations made through the Crazyflie object carry exactly the given port / port mask / channel / channel mask / callback, and '
                 'removing with the same arguments removes exactly that registration (deliveries stop for that registration only)')
def api_registration(c):
    cf = c.new(CF + ':Crazyflie')
    c.let('cf', cf)
    n0 = c.concretize('len(cf.incoming.cb)')
    c.int('port', 0, 255), c.int('pm', 0, 255), c.int('ch', 0, 255), c.int('cm', 0, 255), c.int('port2', 0, 15)
    cb, cb2 = c.ext('cb'), c.ext('cb2')
    use_defaults = c.choice('default_masks', [False, True])
    if use_defaults:
        c.call((cf, 'add_header_callback'), cb, c.get('port'), c.get('ch'))
        c.let('epm', 0xFF), c.let('ecm', 0xFF)
    else:
        c.call((cf, 'add_header_callback'), cb, c.get('port'), c.get('ch'), c.get('pm'), c.get('cm'))
        c.let('epm', c.get('pm')), c.let('ecm', c.get('cm'))
    c.ensure('header-registration-stored-as-given', 'raised is None and len(cf.incoming.cb) == %d and tuple(cf.incoming.cb[-1]) == (port, epm, ch, ecm, cb)' % (n0 + 1))
    c.call((cf, 'add_port_callback'), c.get('port2'), cb2)
    c.ensure('port-registration-matches-every-channel', 'raised is None and len(cf.incoming.cb) == %d and tuple(cf.incoming.cb[-1]) == (port2, 0xFF, 0, 0, cb2)' % (n0 + 2))
    c.snapshot('before', 'tuple(cf.incoming.cb)')
    if use_defaults:
        c.call((cf, 'remove_header_callback'), cb, c.get('port'), c.get('ch'))
    else:
        c.call((cf, 'remove_header_callback'), cb, c.get('port'), c.get('ch'), c.get('pm'), c.get('cm'))
    c.ensure('same-arguments-remove-exactly-that-registration', 'raised is None and tuple(cf.incoming.cb) == before[:%d] + before[%d:]' % (n0, n0 + 1))
    c.call((cf, 'remove_port_callback'), c.get('port2'), cb2)
    c.ensure('port-registration-removed', 'raised is None and tuple(cf.incoming.cb) == before[:%d]' % n0)


@contract('C07', 'dispatch.request-registered-during-answer-scan', RUN + [CF + ':Crazyflie._check_for_answers', CF + ':Crazyflie.send_packet'],
          clause='every packet received from the link is passed to the matching callbacks and later packets are still processed, also when '
                 'another thread sends a request with an expected reply (which registers an answer pattern) while the dispatcher thread is '
                 'scanning the pending answer patterns for this packet',
          bounded='explicit schedule: one pending request; the other thread\'s send_packet(expected_reply=...) runs when the dispatcher '
                  'thread is inside the first logging call of the scan (a thread switch is possible there); two received packets, on ports 9..12')
def request_during_scan(c):
    c.use_stubs(CF, ['Timer'])
    cf = c.new(CF + ':Crazyflie')
    c.let('cf', cf)
    c.int('h0', 0, 255), c.int('h1', 0, 255), c.int('h2', 0, 255), c.int('e1', 0, 255), c.int('e2', 0, 255)
    c.int('rh', 0, 255)
    c.require('(h1, e1) != (h2, e2)')
    rx1 = c.new(STK + ':CRTPPacket', c.get('rh'), c.bytes('d1', 2))
    rx2 = c.new(STK + ':CRTPPacket', c.get('h0'), c.bytes('d2', 1))
    c.let('rx1', rx1), c.let('rx2', rx2)
    # received packets are on ports no subsystem listens to (9..12): what the subsystems do with packets is not this clause
    c.require('9 <= (rh >> 4) <= 12 and 9 <= (h0 >> 4) <= 12')
    queue = [rx1, rx2]
    stop = c.raiser('StopLoop')

    def rx(*_a):
        if queue:
            return queue.pop(0)
        return stop()
    link = c.ext('link', attrs={'needs_resending': True}, returns={'receive_packet': rx})
    c.set(cf, 'link', link)
    cb = c.ext('cb')
    c.snapshot('p0', 'h0 >> 4')
    c.call((cf, 'add_port_callback'), c.get('p0'), cb)
    req1 = c.new(STK + ':CRTPPacket', c.get('h1'), c.bytes('q1', 1))
    req2 = c.new(STK + ':CRTPPacket', c.get('h2'), c.bytes('q2', 1))
    c.call((cf, 'send_packet'), req1, (c.get('e1'),))
    c.require('raised is None and len(cf._answer_patterns) == 1')
    done = []

    def debug(_i, args, _k):
        if not done:
            done.append(1)
            # the other thread runs now: it sends a request whose reply it wants matched
            c.invoke((cf, 'send_packet'), req2, (c.get('e2'),))
        return None
    c.patch(CF + ':logger', c.ext('logger', returns={'debug': debug}))
    c.reset_trace()
    c.call((c.getfield(cf, 'incoming'), 'run'))
    c.ensure('dispatcher-survives-both-packets', "raised == 'StopLoop' and len(sent('link.receive_packet')) == 3")
    c.ensure('second-packet-delivered-to-its-port-callback', "len([x for x in sent('cb') if is_same(x[1][0], rx2)]) == 1")
    c.ensure('first-packet-delivered-iff-port-matches', "iff(len([x for x in sent('cb') if is_same(x[1][0], rx1)]) == 1, rh >> 4 == h0 >> 4)")
    c.ensure('schedule-really-ran-the-other-thread', "len(sent('link.send_packet')) == 1 and len(sent('Timer')) == 1")
