"""C03 - downloaded log and parameter tables equal the device tables.  (work in progress)"""
from pyvc.api import contract

TOC = 'cflib.crazyflie.toc'
LOG = 'cflib.crazyflie.log'
PAR = 'cflib.crazyflie.param'
STK = 'cflib.crtp.crtpstack'
TCA = 'cflib.crazyflie.toccache'

ELEMENT = {'log': LOG + ':LogTocElement', 'param': PAR + ':ParamTocElement'}
PORT = {'log': 5, 'param': 2}

# ---- the peer's tables (Crazyflie firmware log.h / param.h; stated here independently of the library) ----
LOG_TYPES = ((1, 'uint8_t', '<B'), (2, 'uint16_t', '<H'), (3, 'uint32_t', '<L'), (4, 'int8_t', '<b'),
             (5, 'int16_t', '<h'), (6, 'int32_t', '<i'), (7, 'float', '<f'), (8, 'FP16', '<e'))
# low nibble of the parameter type byte: bit3 unsigned, bit2 float, bits0-1 log2(size)
PARAM_TYPES = ((0x08, 'uint8_t', '<B'), (0x09, 'uint16_t', '<H'), (0x0A, 'uint32_t', '<L'), (0x0B, 'uint64_t', '<Q'),
               (0x00, 'int8_t', '<b'), (0x01, 'int16_t', '<h'), (0x02, 'int32_t', '<i'), (0x03, 'int64_t', '<q'),
               (0x05, 'FP16', ''), (0x06, 'float', '<f'), (0x07, 'double', '<d'))
PARAM_RO = 0x40
PARAM_EXTENDED = 0x10

FETCH_F = [TOC + ':TocFetcher.start', TOC + ':TocFetcher._new_packet_cb', TOC + ':TocFetcher._request_toc_element',
           TOC + ':TocFetcher._toc_fetch_finished', TOC + ':Toc.add_element']


def valid_type(kind, t):
    if kind == 'log':
        return '1 <= %s <= 8' % t
    return '(%s & 0x0F) in (0, 1, 2, 3, 5, 6, 7, 8, 9, 10, 11)' % t


def element_spec(c, kind, e, t, ident, g, n):
    """post-conditions on the library element `e` for the device entry (type byte t, index ident, group g, name n);
    all arguments are names in the spec namespace"""
    out = ['%s.ident == %s' % (e, ident),
           "%s.group == %s.decode('ISO-8859-1') and %s.name == %s.decode('ISO-8859-1')" % (e, g, e, n)]
    if kind == 'log':
        c.let('LOG_TYPES', LOG_TYPES)
        out.append('all(implies(%s == r[0], %s.ctype == r[1] and %s.pytype == r[2]) for r in LOG_TYPES)' % (t, e, e))
        out.append('%s.access == 0' % e)
    else:
        c.let('PARAM_TYPES', PARAM_TYPES)
        out.append('all(implies((%s & 0x0F) == r[0], %s.ctype == r[1] and %s.pytype == r[2]) for r in PARAM_TYPES)' % (t, e, e))
        out.append('%s.access == (1 if (%s & 0x40) != 0 else 0)' % (e, t))
        out.append('%s.get_readable_access() in ("RO", "RW") and iff(%s.get_readable_access() == "RO", (%s & 0x40) != 0)' % (e, e, t))
        out.append('%s.extended == ((%s & 0x10) != 0) and %s.is_extended() == ((%s & 0x10) != 0)' % (e, t, e, t))
        out.append('%s.persistent is False and %s.is_persistent() is False' % (e, e))
    return out


def fetcher(c, kind, cache='stub'):
    ver = c.int('ver', -1, 255)
    cf = c.ext('cf', returns={'platform.get_protocol_version': ver})
    toc = c.new(TOC + ':Toc')
    if cache == 'stub':
        ca = c.ext('cache', returns={'fetch': None})
    else:
        ca = c.new(TCA + ':TocCache')
    fin = c.ext('finished')
    f = c.new(TOC + ':TocFetcher', cf, c.cls(ELEMENT[kind]), PORT[kind], toc, fin, ca)
    c.let('f', f), c.let('toc', toc), c.let('PORT', PORT[kind])
    c.reset_trace()
    return f, toc


def packet(c, port, channel, data_expr, name='rdata'):
    c.snapshot(name, data_expr)
    return c.new(STK + ':CRTPPacket', (port << 4) | channel, c.get(name))


def last_request(c, nth):
    """the nth (0-based) packet handed to cf.send_packet so far -> bound as `rq` / `rq_kw`"""
    c.snapshot('rq', "sent('cf.send_packet')[%d][1][0]" % nth)
    c.snapshot('rq_kw', "sent('cf.send_packet')[%d][2]" % nth)


# ------------------------------------------------------------------------------------------------ 1. request encoding

@contract('C03', 'request.v2', [TOC + ':TocFetcher._request_toc_element'],
          clause='current generation: the request for entry i carries i as a 16-bit little-endian index, for every 0 <= i < 65536 '
                 '(255/256 are not special), on the TOC channel of the table\'s port; the retry pattern is the request itself')
def request_v2(c):
    kind = c.choice('kind', ['log', 'param'])
    f, toc = fetcher(c, kind)
    c.set(f, '_useV2', True)
    c.int('i', 0, 65535)
    c.call((f, '_request_toc_element'), c.get('i'))
    c.ensure('no-exception', 'raised is None')
    c.ensure('exactly-one-packet-nothing-else', "len(trace) == 1 and len(sent('cf.send_packet')) == 1")
    last_request(c, 0)
    c.ensure('port-and-channel', 'rq.port == PORT and rq.channel == 0')
    c.ensure('layout', "bytes(rq.data) == pack('<BH', 2, i)")
    c.ensure('device-decodes-the-index', "unpack('<H', bytes(rq.data[1:3]))[0] == i and rq.data[0] == 2")
    c.ensure('retry-pattern', "tuple(rq_kw['expected_reply']) == tuple(rq.data)")


@contract('C03', 'request.v1', [TOC + ':TocFetcher._request_toc_element'],
          clause='legacy generation: the request for entry i < 256 is (0, i); an index that does not fit the one-byte field is '
                 'refused (nothing transmitted), never aliased to another entry')
def request_v1(c):
    kind = c.choice('kind', ['log', 'param'])
    f, toc = fetcher(c, kind)
    c.set(f, '_useV2', False)
    c.int('i', 0, 65535)
    c.call((f, '_request_toc_element'), c.get('i'))
    c.ensure('raises-iff-unrepresentable', 'iff(raised is None, i < 256)')
    if c.get('raised') is None:
        c.ensure('exactly-one-packet-nothing-else', "len(trace) == 1 and len(sent('cf.send_packet')) == 1")
        last_request(c, 0)
        c.ensure('port-and-channel', 'rq.port == PORT and rq.channel == 0')
        c.ensure('layout', "bytes(rq.data) == pack('<BB', 0, i)")
        c.ensure('retry-pattern', "tuple(rq_kw['expected_reply']) == tuple(rq.data)")
    else:
        c.ensure('refused-with-ValueError-nothing-sent', "raised == 'ValueError' and len(trace) == 0")


# ------------------------------------------------------------------------------------------------ 2. one reply in state GET_TOC_ELEMENT

def in_download(c, kind, v2, with_old=True):
    """A real fetcher brought to the item download by real calls (start + info reply announcing N entries), then moved to
    'entry r is outstanding' (0 <= r < N, r and N symbolic, beyond the 8-bit boundary for the current generation) with
    c.set - the abstraction of the r earlier steps, justified by the step contracts themselves (inductive invariant)."""
    f, toc = fetcher(c, kind)
    c.require('ver >= 4' if v2 else 'ver < 4')
    c.call((f, 'start'))
    c.require('raised is None')
    c.int('N', 1, 65535 if v2 else 255)
    c.int('crc', 0, 2 ** 32 - 1)
    pk = packet(c, PORT[kind], 0, "pack('<BHI', 3, N, crc)" if v2 else "pack('<BBI', 1, N, crc)", 'info')
    c.call((f, '_new_packet_cb'), pk)
    c.require('raised is None')
    c.int('r', 0, 65534 if v2 else 254)
    c.require('r < N')
    c.set(f, 'requested_index', c.get('r'))
    if with_old:
        # one entry downloaded earlier (any other index)
        c.int('r_old', 0, 65535)
        c.require('r_old != r')
        old = c.new(ELEMENT[kind], c.get('r_old'), c.snapshot('old_data', "bytearray([%d]) + b'og' + bytes([0]) + b'on' + bytes([0])" % (7 if kind == 'log' else 6)))
        c.let('old', old)
        c.invoke((toc, 'add_element'), old)
    c.reset_trace()
    return f, toc


def entries_of(c):
    """all elements of the library table, in insertion order -> `entries`"""
    c.snapshot('entries', 'tuple(e for grp in toc.toc.values() for e in grp.values())')


def _step_accept(kind, v2, lg, ln):
    @contract('C03', 'step.accept.%s.%s.g%dn%d' % (kind, 'v2' if v2 else 'v1', lg, ln), FETCH_F + [ELEMENT[kind] + '.__init__'],
              clause='download step, reply for the outstanding index r (any 0 <= r < N, N up to 65535 resp. 255): the table gains exactly the '
                     'device entry r (index, group, name, type, access) and keeps the others; then either entry r+1 is requested (and '
                     'nothing else happens) or, after the last entry, the table is handed to the cache and completion is signalled once',
              bounded='group/name lengths %d/%d (all lengths: decode.* contracts); one earlier entry in the table' % (lg, ln))
    def k(c):
        f, toc = in_download(c, kind, v2)
        c.int('t', 0, 255)
        c.require(valid_type(kind, 't'))
        c.bytes('g', lg), c.bytes('n', ln)
        c.require('all(b != 0 for b in g) and all(b != 0 for b in n)')
        c.require("not (g == b'og' and n == b'on')")        # device names are unique
        head = "pack('<BH', 2, r)" if v2 else "pack('<BB', 0, r)"
        pk = packet(c, PORT[kind], 0, head + " + bytes([t]) + g + bytes([0]) + n + bytes([0])")
        c.call((f, '_new_packet_cb'), pk)
        c.ensure('no-exception', 'raised is None')
        entries_of(c)
        c.ensure('one-entry-gained-others-kept', 'len(entries) == 2 and sum(1 for e in entries if e is old) == 1')
        c.snapshot('new', '[e for e in entries if e is not old][0]')
        for i, s in enumerate(element_spec(c, kind, 'new', 't', 'r', 'g', 'n')):
            c.ensure('new-entry-is-device-entry-%d' % i, s)
        c.ensure('old-entry-untouched', "old.ident == r_old and old.group == 'og' and old.name == 'on'")
        c.ensure('announced-size-and-checksum-kept', 'f.nbr_of_items == N and f._crc == crc')
        last = bool(c.concretize('r == N - 1'))
        if not last:
            c.ensure('next-index-outstanding', 'f.requested_index == r + 1 and f.state == "GET_TOC_ELEMENT"')
            c.ensure('exactly-one-request-nothing-else', "len(trace) == 1 and calls() == ('cf.send_packet',)")
            last_request(c, 0)
            c.ensure('request-is-for-r+1', "rq.port == PORT and rq.channel == 0 and bytes(rq.data) == " +
                     ("pack('<BH', 2, r + 1)" if v2 else "pack('<BB', 0, r + 1)"))
            c.ensure('retry-pattern', "tuple(rq_kw['expected_reply']) == tuple(rq.data)")
        else:
            c.ensure('completion-sequence', "calls() == ('cache.insert', 'cf.remove_port_callback', 'finished')")
            c.ensure('nothing-transmitted', "len(sent('cf.send_packet')) == 0")
            c.ensure('cache-gets-checksum-and-table', "sent('cache.insert')[0][1][0] == crc and sent('cache.insert')[0][1][1] is toc.toc")
            c.ensure('own-callback-unregistered', "sent('cf.remove_port_callback')[0][1][0] == PORT and "
                     "sent('cf.remove_port_callback')[0][1][1] == f._new_packet_cb")
    return k


for _kind in ('log', 'param'):
    for _v2 in (True, False):
        _step_accept(_kind, _v2, 3, 2)
_step_accept('log', True, 1, 1)
_step_accept('param', True, 1, 1)


def _step_ignore(kind, v2, L):
    @contract('C03', 'step.ignore.%s.%s.len%d' % (kind, 'v2' if v2 else 'v1', L), [TOC + ':TocFetcher._new_packet_cb'],
              clause='download step, any other packet on the port - a reply carrying another index (duplicate of an earlier reply, delayed '
                     'reply to an earlier request, reply for a later index), a repeated table-info reply, a packet on another '
                     'channel - changes nothing and transmits nothing, whatever its content',
              bounded='packet payload length %d (3/2 = index only, 9, 30 = maximum); content symbolic' % L)
    def k(c):
        f, toc = in_download(c, kind, v2)
        c.int('chan', 0, 3)
        c.bytes('raw', L)
        what = c.choice('what', ['other-index', 'other-channel'] + (['info-again'] if L >= 7 else []))
        if what == 'other-index':
            c.require('chan == 0')
            c.require(("unpack('<H', raw[1:3])[0] != r") if v2 else 'raw[1] != r')
        elif what == 'info-again':
            c.require('chan == 0')
            c.require(("raw[0:7] == pack('<BHI', 3, N, crc)") if v2 else "raw[0:6] == pack('<BBI', 1, N, crc)")
        else:
            c.require('chan != 0')
        pk = packet(c, PORT[kind], 0, 'raw')
        c.set(pk, 'channel', c.get('chan'))
        c.call((f, '_new_packet_cb'), pk)
        c.ensure('no-exception', 'raised is None')
        c.ensure('nothing-transmitted-nothing-signalled', 'len(trace) == 0')
        entries_of(c)
        c.ensure('table-unchanged', "len(entries) == 1 and entries[0] is old and old.ident == r_old and old.group == 'og' and old.name == 'on'")
        c.ensure('fetcher-state-unchanged', 'f.requested_index == r and f.nbr_of_items == N and f._crc == crc and f.state == "GET_TOC_ELEMENT"')
    return k


for _kind in ('log', 'param'):
    for _v2 in (True, False):
        for _L in ((3, 9, 30) if _v2 else (2, 9, 30)):
            _step_ignore(_kind, _v2, _L)


# ------------------------------------------------------------------------------------------------ 3. element decoders, every shape that fits a packet

MAX_NAMING = 25         # 30 payload bytes - command - 1-byte index - type - two NULs  (24 with the 2-byte index)


def _decode(kind, total):
    @contract('C03', 'decode.%s.len%02d' % (kind, total), [ELEMENT[kind] + '.__init__'],
              clause='an item reply body  type | group | NUL | name | NUL  decodes to exactly the device entry: group and name (ISO-8859-1, any '
                     'NUL-free bytes), C type and unpack format of the type code, access, extended flag, index as given; every type code of '
                     'the peer table, every index 0..65535; group+name length %d in every split (lengths 0..%d together are all that fit a packet)' % (total, MAX_NAMING))
    def k(c):
        lg = c.choice('len_group', list(range(total + 1)))
        ln = total - lg
        c.int('t', 0, 255)
        c.require(valid_type(kind, 't'))
        c.int('i', 0, 65535)
        c.bytes('g', lg), c.bytes('n', ln)
        c.require('all(b != 0 for b in g) and all(b != 0 for b in n)')
        c.snapshot('data', 'bytearray([t]) + g + bytes([0]) + n + bytes([0])')
        c.call(ELEMENT[kind], c.get('i'), c.get('data'))
        c.ensure('no-exception', 'raised is None')
        c.snapshot('e', 'result')
        for j, s in enumerate(element_spec(c, kind, 'e', 't', 'i', 'g', 'n')):
            c.ensure('device-entry-%d' % j, s)
    return k


for _kind in ('log', 'param'):
    for _total in range(MAX_NAMING + 1):
        _decode(_kind, _total)


# ------------------------------------------------------------------------------------------------ 4. whole downloads (histories)

SHAPES = ((2, 1), (2, 2), (1, 3))        # (group length, name length) of device entries 0, 1, 2
NARROW = {'log': ((3, 8), (1, 7), (2, 6)), 'param': ((6,), (9,), (3,))}


def device_table(c, kind, N, wide_types):
    """the device table T as contract inputs: type byte, group, name per entry (names unique: entries 0 and 1 may
    share the group (symbolic equality), their names differ in length; entry 2 has another group length)"""
    for k in range(N):
        c.int('t%d' % k, 0, 255)
        if wide_types and k == 0:
            c.require(valid_type(kind, 't0'))
        elif kind == 'log':
            c.require('t%d in %r' % (k, NARROW['log'][k]))
        else:
            c.require('(t%d & 0x0F) in %r' % (k, NARROW['param'][k]))
        lg, ln = SHAPES[k]
        c.bytes('g%d' % k, lg), c.bytes('n%d' % k, ln)
        c.require('all(b != 0 and b != 46 for b in g%d) and all(b != 0 and b != 46 for b in n%d)' % (k, k))
        c.snapshot('G%d' % k, "g%d.decode('ISO-8859-1')" % k)
        c.snapshot('M%d' % k, "n%d.decode('ISO-8859-1')" % k)
    c.int('crc', 0, 2 ** 32 - 1)
    c.let('N', N)


def device_answer(c, kind, N):
    """what the device answers to request `rq` (it implements both generations); returns (data expression, index or None)"""
    cmd = c.concretize('rq.data[0]')
    if cmd == 1:
        return "pack('<BBI', 1, N, crc)", None
    if cmd == 3:
        return "pack('<BHI', 3, N, crc)", None
    if cmd == 0:
        i = c.concretize('rq.data[1]')
        head = "pack('<BB', 0, %d)" % i
    else:
        i = c.concretize("unpack('<H', bytes(rq.data[1:3]))[0]")
        head = "pack('<BH', 2, %d)" % i
    if not 0 <= i < N:
        return head, i
    return head + " + bytes([t%d]) + g%d + bytes([0]) + n%d + bytes([0])" % (i, i, i), i


def check_table(c, kind, N, toc='toc'):
    """the library table equals the device table, and the three lookups agree"""
    c.ensure('same-number-of-entries', 'sum(len(grp) for grp in %s.toc.values()) == N' % toc)
    tocv = c.get(toc)
    for k in range(N):
        c.call((tocv, 'get_element'), c.get('G%d' % k), c.get('M%d' % k))
        c.ensure('entry-%d-present' % k, 'raised is None and result is not None')
        c.snapshot('e%d' % k, 'result')
        if c.get('e%d' % k) is None:
            continue
        for j, s in enumerate(element_spec(c, kind, 'e%d' % k, 't%d' % k, str(k), 'g%d' % k, 'n%d' % k)):
            c.ensure('entry-%d-is-device-entry-%d' % (k, j), s)
        c.call((tocv, 'get_element_by_id'), k)
        c.ensure('lookup-by-index-%d-agrees' % k, 'raised is None and result is e%d' % k)
        c.call((tocv, 'get_element_by_complete_name'), c.snapshot('cn', "G%d + '.' + M%d" % (k, k)))
        c.ensure('lookup-by-complete-name-%d-agrees' % k, 'raised is None and result is e%d' % k)
        c.call((tocv, 'get_element_id'), c.get('cn'))
        c.ensure('index-by-complete-name-%d' % k, 'raised is None and result == %d' % k)


def _fetch(kind, N, fault, cache='stub'):
    @contract('C03', 'fetch.%s.n%d.%s%s' % (kind, N, fault, '' if cache == 'stub' else '.realcache'),
              FETCH_F + [ELEMENT[kind] + '.__init__', TOC + ':Toc.get_element', TOC + ':Toc.get_element_by_id',
                         TOC + ':Toc.get_element_by_complete_name', TOC + ':Toc.get_element_id'],
              clause='a download against a device holding a table of %d entries (cache miss): the library asks for the table info and then for '
                     'each index once, in the generation negotiated (current iff protocol version >= 4), transmits nothing else; completion is '
                     'signalled exactly once, after which the library table has exactly the device entries with the device\'s index, '
                     'type and access, and lookup by (group, name), by index and by complete name agree; fault scenario: %s' % (N, fault),
              bounded='%d entries with group/name lengths %r; type code of entry 0 %s, of later entries one of two; '
                      'all lengths and type codes: decode.*; any index and table size: step.*' % (N, SHAPES[:N], 'any' if N == 1 else 'one of two'))
    def k(c):
        f, toc = fetcher(c, kind, cache)
        device_table(c, kind, N, wide_types=(N == 1))
        c.call((f, 'start'))
        c.ensure('start-no-exception', 'raised is None')
        c.ensure('registers-own-callback-then-asks-for-info', "calls() == ('cf.platform.get_protocol_version', 'cf.add_port_callback', 'cf.send_packet') "
                 "and sent('cf.add_port_callback')[0][1][0] == PORT and sent('cf.add_port_callback')[0][1][1] == f._new_packet_cb")
        answered = 0
        asked = []
        while answered < N + 3:
            c.snapshot('nreq', "len(sent('cf.send_packet'))")
            if c.concretize('nreq') != answered + 1:
                break
            last_request(c, answered)
            c.ensure('request-on-toc-channel-with-retry-pattern', "rq.port == PORT and rq.channel == 0 and tuple(rq_kw['expected_reply']) == tuple(rq.data)")
            c.ensure('generation-follows-protocol-version', 'rq.data[0] == ((3 if ver >= 4 else 1) if %d == 0 else (2 if ver >= 4 else 0))' % answered)
            data, idx = device_answer(c, kind, N)
            asked.append(idx)
            # ---- disturbances before the genuine answer
            if fault == 'stale' and idx is not None:
                v2 = c.concretize('rq.data[0]') == 2
                c.int('s%d' % answered, 0, 65535 if v2 else 255)
                c.require('s%d != %d' % (answered, idx))
                c.bytes('junk%d' % answered, 6)
                head = ("pack('<BH', 2, s%d)" if v2 else "pack('<BB', 0, s%d)") % answered
                c.call((f, '_new_packet_cb'), packet(c, PORT[kind], 0, head + ' + junk%d' % answered, 'stale'))
                c.ensure('stale-reply-tolerated', 'raised is None')
            if fault == 'info-again' and idx is not None:
                c.call((f, '_new_packet_cb'), packet(c, PORT[kind], 0, "pack('<BHI', 3, N, crc)" if c.concretize('rq.data[0]') == 2 else "pack('<BBI', 1, N, crc)", 'again'))
                c.ensure('repeated-info-reply-tolerated', 'raised is None')
            if fault == 'other-channel':
                c.int('ch%d' % answered, 1, 3)
                c.bytes('noise%d' % answered, 5)
                pk = packet(c, PORT[kind], 0, 'noise%d' % answered, 'noise')
                c.set(pk, 'channel', c.get('ch%d' % answered))
                c.call((f, '_new_packet_cb'), pk)
                c.ensure('other-channel-tolerated', 'raised is None')
            # ---- the genuine answer (twice in the dup scenario, unless the fetch completed and unregistered itself)
            c.call((f, '_new_packet_cb'), packet(c, PORT[kind], 0, data))
            c.ensure('reply-no-exception', 'raised is None')
            if fault == 'dup' and not [e for e in c.get('trace') if e[0] == 'cf.remove_port_callback']:
                c.call((f, '_new_packet_cb'), packet(c, PORT[kind], 0, data, 'rdata2'))
                c.ensure('duplicate-no-exception', 'raised is None')
            answered += 1
        c.let('asked', tuple(asked))
        c.ensure('info-then-each-index-once-in-order', 'asked == (None,) + tuple(range(N))')
        if cache == 'stub':
            c.ensure('nothing-else-happens', "calls() == ('cf.platform.get_protocol_version', 'cf.add_port_callback') + ('cf.send_packet', 'cache.fetch') + "
                     "('cf.send_packet',) * N + ('cache.insert', 'cf.remove_port_callback', 'finished')")
            c.ensure('cache-consulted-and-fed-with-device-checksum', "sent('cache.fetch')[0][1] == (crc,) and sent('cache.insert')[0][1][0] == crc "
                     "and sent('cache.insert')[0][1][1] is toc.toc")
        else:
            c.ensure('nothing-else-happens', "calls() == ('cf.platform.get_protocol_version', 'cf.add_port_callback') + "
                     "('cf.send_packet',) * (N + 1) + ('cf.remove_port_callback', 'finished')")
        c.ensure('completion-signalled-exactly-once', "len(sent('finished')) == 1 and sent('finished')[0][1] == ()")
        c.ensure('own-callback-unregistered', "sent('cf.remove_port_callback')[0][1][0] == PORT and sent('cf.remove_port_callback')[0][1][1] == f._new_packet_cb")
        check_table(c, kind, N)
    return k


for _kind in ('log', 'param'):
    for _N in (3, 2, 1, 0):
        for _fault in (('none', 'dup', 'stale', 'info-again', 'other-channel') if _N else ('none', 'other-channel')):
            _fetch(_kind, _N, _fault)
    _fetch(_kind, 2, 'none', cache='real')
    _fetch(_kind, 0, 'none', cache='real')
